import json, jsonschema, glob, sys
jsonschema.validate(json.load(open('/verif/MANIFEST.json')), json.load(open('/root/.vp/MANIFEST.schema.json')))
es=json.load(open('/root/.vp/EVIDENCE.schema.json'))
for f in sorted(glob.glob('/verif/evidence/*.json')):
    try:
        jsonschema.validate(json.load(open(f)), es); print('ok', f)
    except Exception as e:
        print('BAD', f, str(e)[:300])
