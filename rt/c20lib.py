"""C20 support: canonical dump of a road network, independent invariant checkers, cache-path monitor."""

import hashlib
import math
import os

import numpy


# ------------------------------------------------------------------------------------------------
# canonical dump

_SKIP = {
    "network", "_conditioned", "_dependencies", "_requiredProperties", "_needsSampling", "_needsLazyEval",
    "_isLazy", "_points", "_polygon", "_polygons", "z", "_rtree", "_visited", "polygon",
}


def _h(b):
    return hashlib.sha1(b).hexdigest()[:20]


def canon(v, depth=0):
    import enum

    import shapely
    from shapely.geometry.base import BaseGeometry

    from scenic.core.regions import EmptyRegion, PolygonalRegion, PolylineRegion
    from scenic.core.vectors import Vector, VectorField
    from scenic.domains.driving import roads as R

    if depth > 6:
        return "deep"
    if v is None or isinstance(v, (bool, int, str)):
        return v
    if isinstance(v, float):
        return repr(v)
    if isinstance(v, enum.Enum):
        return f"{type(v).__name__}.{v.name}"
    if isinstance(v, R.NetworkElement):
        return ["uid", v.uid]
    if isinstance(v, R.Maneuver):
        return ["maneuver", canon(v.type), canon(v.startLane), canon(v.connectingLane), canon(v.endLane), canon(v.intersection)]
    if isinstance(v, R.Signal):
        return ["signal", v.uid, v.openDriveID, v.country, v.type]
    if isinstance(v, BaseGeometry):
        return ["geom", v.geom_type, _h(shapely.to_wkb(v))]
    if isinstance(v, EmptyRegion):
        return ["empty"]
    if isinstance(v, PolylineRegion):
        return ["polyline", _h(shapely.to_wkb(v.lineString))]
    if isinstance(v, PolygonalRegion):
        return ["polygons", _h(shapely.to_wkb(v.polygons))]
    if isinstance(v, VectorField):
        return ["field", v.name]
    if isinstance(v, Vector):
        return ["V"] + [repr(float(c)) for c in v]
    if isinstance(v, (tuple, list)):
        return [type(v).__name__] + [canon(x, depth + 1) for x in v]
    if isinstance(v, (set, frozenset)):
        return ["set"] + sorted((canon(x, depth + 1) for x in v), key=repr)
    if isinstance(v, dict):
        return ["dict"] + sorted(([canon(k, depth + 1), canon(x, depth + 1)] for k, x in v.items()), key=repr)
    return ["T", type(v).__name__]


def dump_element(e):
    import shapely

    d = {"__class__": type(e).__name__, "polygons": _h(shapely.to_wkb(e.polygons))}
    for k, v in e.__dict__.items():
        if k in _SKIP or k.startswith("_cached"):
            continue
        d[k] = canon(v)
    return d


def dump_network(net):
    out = {"elements": {uid: dump_element(e) for uid, e in net.elements.items()}}
    top = {}
    for k, v in net.__dict__.items():
        if k in ("elements", "_rtree") or k.startswith("_cached"):
            continue
        top[k] = canon(v)
    out["network"] = top
    return out


def first_diff(a, b, path=""):
    if type(a) is not type(b):
        return f"{path}: {str(a)[:80]} != {str(b)[:80]}"
    if isinstance(a, dict):
        for k in sorted(set(a) | set(b), key=str):
            if k not in a or k not in b:
                return f"{path}.{k}: present on one side only"
            d = first_diff(a[k], b[k], f"{path}.{k}")
            if d:
                return d
        return None
    if isinstance(a, list):
        if len(a) != len(b):
            return f"{path}: length {len(a)} != {len(b)}"
        for i, (x, y) in enumerate(zip(a, b)):
            d = first_diff(x, y, f"{path}[{i}]")
            if d:
                return d
        return None
    return None if a == b else f"{path}: {str(a)[:80]} != {str(b)[:80]}"


# ------------------------------------------------------------------------------------------------
# cache-path monitor


class PathMonitor:
    """Wraps Network.fromPickle / Network.fromOpenDrive and logs, per call, whether it returned a network
    or raised; `produced_by(net)` tells which of the two built a given object."""

    def __init__(self):
        from scenic.domains.driving.roads import Network

        self.N = Network
        self.log = []
        self._orig = (Network.__dict__["fromPickle"], Network.__dict__["fromOpenDrive"])
        o_p = Network.fromPickle.__func__
        o_o = Network.fromOpenDrive.__func__
        mon = self

        def fromPickle(cls, path, *a, **k):
            try:
                r = o_p(cls, path, *a, **k)
            except BaseException as e:
                mon.log.append(("pickle", "raised", type(e).__name__, None))
                raise
            mon.log.append(("pickle", "returned", None, id(r)))
            return r

        def fromOpenDrive(cls, path, *a, **k):
            try:
                r = o_o(cls, path, *a, **k)
            except BaseException as e:
                mon.log.append(("parse", "raised", type(e).__name__, None))
                raise
            mon.log.append(("parse", "returned", None, id(r)))
            return r

        Network.fromPickle = classmethod(fromPickle)
        Network.fromOpenDrive = classmethod(fromOpenDrive)

    def reset(self):
        self.log = []

    def produced_by(self, net):
        for kind, what, exc, i in reversed(self.log):
            if what == "returned" and i == id(net):
                return kind
        return None

    def uninstall(self):
        self.N.fromPickle, self.N.fromOpenDrive = self._orig


# ------------------------------------------------------------------------------------------------
# invariants


class Report:
    def __init__(self, cap=6):
        self.fail = []  # (invariant, uid, detail)
        self.count = {}
        self.checked = {}
        self.skipped = {}
        self.cap = cap

    def ok(self, inv, n=1):
        self.checked[inv] = self.checked.get(inv, 0) + n

    def bad(self, inv, uid, detail):
        self.checked[inv] = self.checked.get(inv, 0) + 1
        n = self.count.get(inv, 0)
        self.count[inv] = n + 1
        if n < self.cap:
            self.fail.append((inv, str(uid), detail[:300]))

    def check(self, cond, inv, uid, detail=""):
        if cond:
            self.ok(inv)
        else:
            self.bad(inv, uid, detail() if callable(detail) else detail)
        return cond

    def skip(self, why, n=1):
        self.skipped[why] = self.skipped.get(why, 0) + n


def _geoms(elems):
    import shapely

    return numpy.array([e.polygons for e in elems], dtype=object)


class Oracle:
    """Brute-force distance oracle over the elements of one class (no R-tree)."""

    def __init__(self, elems):
        self.elems = list(elems)
        self.geoms = _geoms(self.elems) if self.elems else None

    def distances(self, pt):
        import shapely

        if self.geoms is None:
            return numpy.array([])
        return shapely.distance(self.geoms, pt)


def sample_points(net, rng, n):
    """points: uniform in the drivable region, in individual elements, and in the tolerance shell
    around the drivable region. Returns [(kind, shapely Point)]"""
    import shapely
    from shapely.geometry import Point

    pts = []
    tol = net.tolerance

    def uniform_in(poly, k):
        out = []
        if poly.is_empty or poly.area <= 0:
            return out
        minx, miny, maxx, maxy = poly.bounds
        tries = 0
        while len(out) < k and tries < 200 * k + 200:
            tries += 1
            p = Point(rng.uniform(minx, maxx), rng.uniform(miny, maxy))
            if poly.contains(p):
                out.append(p)
        return out

    dr = net.drivableRegion.polygons
    # triangulation-free area-weighted sampling: choose a component polygon by area, then reject-sample
    comps = list(dr.geoms) if hasattr(dr, "geoms") else [dr]
    areas = [c.area for c in comps]
    for _ in range(n):
        c = rng.choices(comps, weights=areas)[0]
        got = uniform_in(c, 1)
        if got:
            pts.append(("drivable", got[0]))
    # points in individual elements of every class
    classes = [
        ("lane", net.lanes), ("laneSection", net.laneSections), ("intersection", net.intersections),
        ("road", net.allRoads), ("shoulder", net.shoulders), ("sidewalk", net.sidewalks), ("laneGroup", net.laneGroups),
    ]
    per = max(2, n // 6)
    for name, elems in classes:
        elems = list(elems)
        if not elems:
            continue
        for _ in range(per):
            e = rng.choice(elems)
            got = uniform_in(e.polygons, 1)
            if got:
                pts.append((name, got[0]))
    # tolerance shell: just outside the drivable region, at 0.5 tol and 1.5..3 tol
    if tol > 0:
        boundary = dr.boundary
        L = boundary.length
        for _ in range(per):
            b = boundary.interpolate(rng.uniform(0, L))
            ang = rng.uniform(0, 2 * math.pi)
            r = tol * rng.choice((0.3, 0.6, 0.9, 1.5, 2.5))
            pts.append(("shell", Point(b.x + r * math.cos(ang), b.y + r * math.sin(ang))))
    return pts


def check_lookups(net, rng, n, rep):
    """lookups agree with a brute-force distance oracle: result within tolerance, exact containment has
    priority, a result exists iff some element of the class is within tolerance; mutual consistency of the
    lookups; drivable points are covered."""
    from scenic.core.vectors import Vector

    tol = net.tolerance
    eps = 1e-7
    lookups = {
        "roadAt": (net.roadAt, Oracle(net.allRoads)),
        "laneAt": (net.laneAt, Oracle(net.lanes)),
        "intersectionAt": (net.intersectionAt, Oracle(net.intersections)),
        "shoulderAt": (net.shoulderAt, Oracle(net.shoulders)),
        "sidewalkAt": (net.sidewalkAt, Oracle(net.sidewalks)),
        "elementAt": (net.elementAt, Oracle(list(net.intersections) + list(net.roads) + list(net.shoulders) + list(net.sidewalks))),
    }
    prio = [("Intersection", Oracle(net.intersections)), ("Road", Oracle(net.roads)), ("Shoulder", Oracle(net.shoulders)), ("Sidewalk", Oracle(net.sidewalks))]
    pts = sample_points(net, rng, n)
    for kind, pt in pts:
        v = Vector(pt.x, pt.y)
        res = {}
        # documented priority of elementAt: Intersection -> Road -> Shoulder -> Sidewalk, exact containment first
        dm = [(nm, (float(o.distances(pt).min()) if o.geoms is not None else math.inf)) for nm, o in prio]
        exact = [nm for nm, d in dm if d == 0.0]
        near = [nm for nm, d in dm if d <= 0.995 * tol]
        edge = [nm for nm, d in dm if 0.995 * tol < d <= tol + eps]
        top = net.elementAt(v)
        if exact:
            rep.check(top is not None and type(top).__name__ == exact[0], "lookup.elementAt-priority", getattr(top, "uid", None),
                      lambda: f"elementAt({pt.x:.4f},{pt.y:.4f}) = {type(top).__name__} {getattr(top, 'uid', None)} but classes containing the point are {exact}")
        elif near and not edge:
            rep.check(top is not None and type(top).__name__ == near[0], "lookup.elementAt-priority", getattr(top, "uid", None),
                      lambda: f"elementAt({pt.x:.4f},{pt.y:.4f}) = {type(top).__name__} {getattr(top, 'uid', None)} but classes within tolerance are {near}")
        for name, (fn, orc) in lookups.items():
            r = fn(v)
            res[name] = r
            d = orc.distances(pt)
            dmin = float(d.min()) if len(d) else math.inf
            if r is not None:
                dr_ = float(r.polygons.distance(pt))
                rep.check(dr_ <= tol + eps, "lookup.within-tolerance", r.uid,
                          lambda: f"{name}({pt.x:.4f},{pt.y:.4f}) returned {r.uid} at distance {dr_:.4g} > tolerance {tol}")
                if dmin == 0.0:
                    rep.check(dr_ == 0.0, "lookup.exact-containment-first", r.uid,
                              lambda: f"{name}({pt.x:.4f},{pt.y:.4f}) returned {r.uid} at distance {dr_:.4g} although an element of the class contains the point")
                if not any(e is r for e in orc.elems):
                    rep.bad("lookup.result-class", r.uid, f"{name} returned an element of another class: {type(r).__name__}")
            else:
                # the real second pass intersects a 64-gon approximation of the disc of radius tol: elements
                # between 0.995 tol and tol may legitimately be missed (undecided band)
                if dmin <= 0.995 * tol or dmin == 0.0:
                    rep.bad("lookup.completeness", kind, f"{name}({pt.x:.4f},{pt.y:.4f}) returned None although an element of the class is at distance {dmin:.4g} <= tolerance {tol}")
                elif dmin > tol + eps:
                    rep.ok("lookup.none-when-far")
                else:
                    rep.skip("lookup_point_on_tolerance_edge")
            if r is not None and dmin > tol + eps:
                pass  # already reported by within-tolerance
        # derived lookups
        lane = res["laneAt"]
        ls = net.laneSectionAt(v)
        if lane is None:
            rep.check(ls is None, "lookup.laneSection-without-lane", kind, f"laneSectionAt returned {getattr(ls, 'uid', None)} although laneAt is None")
        elif ls is not None:
            rep.check(ls.lane is lane, "lookup.laneSection-of-lane", ls.uid, lambda: f"laneSectionAt({pt.x:.4f},{pt.y:.4f}) = {ls.uid} whose lane {ls.lane.uid} is not laneAt = {lane.uid}")
            dls = float(ls.polygons.distance(pt))
            rep.check(dls <= tol + eps, "lookup.within-tolerance", ls.uid, lambda: f"laneSectionAt returned {ls.uid} at distance {dls:.4g}")
        else:
            # a lane is the union of its sections: some section must be within tolerance of the point
            dsec = min(float(s.polygons.distance(pt)) for s in lane.sections)
            if dsec <= 0.995 * tol:
                rep.bad("lookup.completeness", lane.uid, f"laneSectionAt({pt.x:.4f},{pt.y:.4f}) is None although section of {lane.uid} is at distance {dsec:.4g}")
            else:
                rep.skip("laneSection_none_sections_farther_than_tolerance")
        road = res["roadAt"]
        grp = net.laneGroupAt(v)
        if grp is not None:
            rep.check(road is not None and grp.road is road, "lookup.laneGroup-of-road", grp.uid, lambda: f"laneGroupAt = {grp.uid} whose road is not roadAt = {getattr(road, 'uid', None)}")
            dg = float(grp.polygons.distance(pt))
            rep.check(dg <= tol + eps, "lookup.within-tolerance", grp.uid, lambda: f"laneGroupAt returned {grp.uid} at distance {dg:.4g}")
        if kind == "drivable":
            rep.check(res["elementAt"] is not None, "coverage.elementAt", "drivable", f"drivable point ({pt.x:.4f},{pt.y:.4f}) has no elementAt")
            rep.check(road is not None or res["intersectionAt"] is not None, "coverage.road-or-intersection", "drivable", f"drivable point ({pt.x:.4f},{pt.y:.4f}) has neither roadAt nor intersectionAt")
            dirs = net.nominalDirectionsAt(v)
            rep.check(len(dirs) >= 1, "coverage.nominalDirections", "drivable", f"drivable point ({pt.x:.4f},{pt.y:.4f}) has no nominal direction")
    return len(pts)


def _inside(child, parent_geom, tol):
    """child geometry inside parent within tol: area of the part farther than tol from the parent ~ 0"""
    if child.is_empty:
        return True, 0.0
    rest = child.difference(parent_geom.buffer(tol + 1e-6))
    return rest.is_empty or rest.area < 1e-9, (0.0 if rest.is_empty else rest.area)


def check_containment(net, rep, sample=None, rng=None):
    tol = net.tolerance
    pairs = []
    for road in net.allRoads:
        for g in road.laneGroups:
            pairs.append(("laneGroup-in-road", g, road))
        for s in road.sections:
            pairs.append(("roadSection-in-road", s, road))
    for g in net.laneGroups:
        for l in g.lanes:
            pairs.append(("lane-in-laneGroup", l, g))
    for l in net.lanes:
        for s in l.sections:
            pairs.append(("laneSection-in-lane", s, l))
    for i in net.intersections:
        for m in i.maneuvers:
            if m.connectingLane is not None:
                pairs.append(("connectingLane-in-intersection", m.connectingLane, i))
    if sample is not None and len(pairs) > sample:
        pairs = rng.sample(pairs, sample)
    for name, child, parent in pairs:
        ok, area = _inside(child.polygons, parent.polygons, max(tol, 0.0))
        if not ok:
            ok2, area2 = _inside(child.polygons, parent.polygons, 2 * max(tol, 0.0))
            if ok2:
                # both polygons were smoothed by buffer(+tol)/buffer(-tol) in the parser: undecided band
                rep.skip("containment_between_1x_and_2x_tolerance")
                continue
        rep.check(ok, "containment." + name, child.uid, lambda: f"{child.uid} not inside {parent.uid} within 2 x tolerance {tol}: area {area:.4g} outside")
    dr = net.drivableRegion.polygons
    for name, reg in (("laneRegion", net.laneRegion), ("roadRegion", net.roadRegion), ("intersectionRegion", net.intersectionRegion)):
        polys = getattr(reg, "polygons", None)
        if polys is None:
            continue
        ok, area = _inside(polys, dr, tol)
        rep.check(ok, "containment.region-in-drivable", name, f"{name} not inside drivableRegion: area {area:.4g}")
    return len(pairs)


def check_linkage(net, rep):
    """ownership / reciprocity of links, independent of geometry"""
    R = __import__("scenic.domains.driving.roads", fromlist=["x"])
    elems = net.elements
    C = rep.check

    def registered(e, what):
        C(e.uid in elems and elems[e.uid] is e, "link.registered", e.uid, f"{what} {e.uid} is not the registered element of that uid")

    for road in net.allRoads:
        registered(road, "road")
        C(bool(road.forwardLanes or road.backwardLanes), "link.road-has-group", road.uid, "road without lane groups")
        expect_groups = tuple(g for g in (road.forwardLanes, road.backwardLanes) if g)
        C(tuple(road.laneGroups) == expect_groups, "link.road-laneGroups", road.uid, "laneGroups is not (forwardLanes, backwardLanes)")
        seen = []
        for g in road.laneGroups:
            registered(g, "laneGroup")
            C(g.road is road, "link.group-road", g.uid, f"group.road is {getattr(g.road, 'uid', None)} not {road.uid}")
            other = road.backwardLanes if g is road.forwardLanes else road.forwardLanes
            C(g._opposite is other, "link.opposite", g.uid, f"_opposite is {getattr(g._opposite, 'uid', None)} expected {getattr(other, 'uid', None)}")
            for attr in ("_sidewalk", "_shoulder", "_bikeLane"):
                x = getattr(g, attr)
                if x is not None:
                    C(x.road is road, "link.group-" + attr.strip("_"), g.uid, f"{attr}.road is not the group's road")
            for lane in g.lanes:
                registered(lane, "lane")
                C(not any(lane is s for s in seen), "link.lane-unique", lane.uid, "lane appears in two groups")
                seen.append(lane)
                C(lane.group is g, "link.lane-group", lane.uid, f"lane.group is {getattr(lane.group, 'uid', None)} not {g.uid}")
                C(lane.road is road, "link.lane-road", lane.uid, "lane.road is not the group's road")
                prev = None
                for sec in lane.sections:
                    registered(sec, "laneSection")
                    C(sec.lane is lane and sec.group is g and sec.road is road, "link.section-owner", sec.uid, "laneSection lane/group/road do not match its owner")
                    C(sec.isForward == (g is road.forwardLanes), "link.section-isForward", sec.uid, f"isForward={sec.isForward}")
                    prev = sec
                for m in lane.maneuvers:
                    C(m.startLane is lane, "link.maneuver-start", lane.uid, "maneuver.startLane is not the lane listing it")
        C(len(seen) == len(road.lanes) and all(any(l is s for s in seen) for l in road.lanes), "link.road-lanes", road.uid,
          f"road.lanes ({len(road.lanes)}) is not the union of its groups' lanes ({len(seen)})")
        for rs in road.sections:
            registered(rs, "roadSection")
            C(rs.road is road, "link.roadSection-road", rs.uid, "roadSection.road mismatch")
            C(tuple(rs.lanes) == tuple(rs.forwardLanes) + tuple(rs.backwardLanes), "link.roadSection-lanes", rs.uid, "lanes != forwardLanes + backwardLanes")
            for ls in rs.lanes:
                C(ls.road is road, "link.roadSection-lane-road", ls.uid, "laneSection of a roadSection belongs to another road")
                C(any(ls is s for s in ls.lane.sections), "link.laneSection-in-lane-sections", ls.uid, "laneSection not among its lane's sections")
                C(ls.isForward == any(ls is f for f in rs.forwardLanes), "link.roadSection-forward", ls.uid, "isForward disagrees with forwardLanes membership")
            for oid, ls in rs.lanesByOpenDriveID.items():
                C(any(ls is s for s in rs.lanes), "link.byOpenDriveID-member", rs.uid, f"lanesByOpenDriveID[{oid}] not in lanes")
                C(ls.openDriveID == oid, "link.byOpenDriveID-id", ls.uid, f"openDriveID {ls.openDriveID} stored under {oid}")
    # lane sections: adjacency
    for ls in net.laneSections:
        left, right = ls._laneToLeft, ls._laneToRight
        if left is not None:
            C(left is not right, "link.left-right-distinct", ls.uid, "laneToLeft is laneToRight")
            back = left._laneToRight if left.isForward == ls.isForward else left._laneToLeft
            C(back is ls, "link.laneToLeft-reciprocal", ls.uid, f"left neighbour {left.uid} does not link back")
            C(any(left is a for a in ls.adjacentLanes), "link.adjacent-contains-left", ls.uid, "laneToLeft not in adjacentLanes")
        if right is not None:
            back = right._laneToLeft if right.isForward == ls.isForward else right._laneToRight
            C(back is ls, "link.laneToRight-reciprocal", ls.uid, f"right neighbour {right.uid} does not link back")
            C(any(right is a for a in ls.adjacentLanes), "link.adjacent-contains-right", ls.uid, "laneToRight not in adjacentLanes")
        for a in ls.adjacentLanes:
            C(any(ls is b for b in a.adjacentLanes), "link.adjacent-symmetric", ls.uid, f"{a.uid} adjacent to {ls.uid} but not conversely")
        for nm in ("_fasterLane", "_slowerLane"):
            x = getattr(ls, nm)
            if x is not None:
                C(x is left or x is right, "link.faster-slower-is-neighbour", ls.uid, f"{nm} is not a left/right neighbour")
    for lane in net.lanes:
        for a in lane.adjacentLanes:
            C(any(lane is b for b in a.adjacentLanes), "link.lane-adjacent-symmetric", lane.uid, f"{a.uid} adjacent but not conversely")
    # successor / predecessor between lanes
    connecting = set(id(r) for r in net.connectingRoads)
    for lane in net.lanes:
        s = lane._successor
        if isinstance(s, R.Lane):
            if id(s.road) in connecting or id(lane.road) in connecting:
                # through a junction: an incoming lane may fan out to several connecting lanes (only the last
                # is kept as successor); the reciprocal link is on the connecting lane
                if id(s.road) in connecting and id(lane.road) not in connecting:
                    C(s._predecessor is lane, "link.connecting-predecessor", s.uid, f"incoming {lane.uid}.successor = {s.uid} whose predecessor is {getattr(s._predecessor, 'uid', None)}")
            else:
                # ordinary road-to-road link. OpenDRIVE lane links may be declared on one side only (the
                # parser transcribes them), so reciprocity is decided only when the successor declares a
                # back link: it must be this lane, or another lane that also leads into the successor (merge)
                if s._successor is lane:
                    back = lane  # contact end-to-end (the successor runs the other way)
                else:
                    back = s._predecessor
                if not isinstance(back, R.Lane):
                    rep.skip("successor_back_link_not_declared_by_map")
                else:
                    C(back is lane or back._successor is s or back._predecessor is s,
                      "link.successor-reciprocal", lane.uid,
                      f"{lane.uid}.successor = {s.uid} whose predecessor {back.uid} does not lead into it")
        p = lane._predecessor
        if isinstance(p, R.Lane) and id(lane.road) not in connecting and id(p.road) not in connecting:
            if p._predecessor is lane:
                back = lane
            else:
                back = p._successor
            if not isinstance(back, R.Lane):
                rep.skip("predecessor_back_link_not_declared_by_map")
            else:
                C(back is lane or back._predecessor is p or back._successor is p,
                  "link.predecessor-reciprocal", lane.uid,
                  f"{lane.uid}.predecessor = {p.uid} whose successor {back.uid} does not come from it")
    # intersections and maneuvers
    for inter in net.intersections:
        registered(inter, "intersection")
        mans = list(inter.maneuvers)
        for inc in inter.incomingLanes:
            C(any(inc.road is r for r in inter.roads), "link.incoming-road-in-intersection", inc.uid, "incoming lane's road not among intersection.roads")
            succ = inc._successor
            C(isinstance(succ, R.Lane) and id(succ.road) in connecting, "link.incoming-successor-is-connecting", inc.uid,
              f"incoming.successor = {getattr(succ, 'uid', None)} is not a lane of a connecting road")
            if isinstance(succ, R.Lane) and succ._successor is not None:
                # (a connecting lane without successor lane yields no maneuver: parser warns about the map)
                C(any(m.connectingLane is succ for m in mans), "link.incoming-successor-in-maneuvers", inc.uid,
                  f"incoming.successor = {succ.uid} has a successor lane but no maneuver of the intersection uses it")
            for m in inc.maneuvers:
                if m.connectingLane is None and m.intersection is None:
                    # dummy "merge" maneuver: legitimate only when the connecting lane it leads into is a dead end
                    # (no successor lane: the parser warns about such maps and creates no real maneuver)
                    end = m.endLane
                    if isinstance(end, R.Lane) and id(end.road) in connecting and end._successor is None:
                        rep.skip("incoming_lane_into_dead_end_connecting_lane")
                        continue
                C(any(m is x for x in mans), "link.maneuver-in-intersection", inc.uid, "lane maneuver not among intersection.maneuvers")
        for out in inter.outgoingLanes:
            C(any(out.road is r for r in inter.roads), "link.outgoing-road-in-intersection", out.uid, "outgoing lane's road not among intersection.roads")
        for m in mans:
            C(m.intersection is inter, "link.maneuver-intersection", inter.uid, "maneuver.intersection is another intersection")
            C(any(m is x for x in m.startLane.maneuvers), "link.maneuver-in-startLane", m.startLane.uid, "intersection maneuver not listed by its start lane")
            C(any(m.startLane is l for l in inter.incomingLanes), "link.maneuver-start-incoming", m.startLane.uid, "maneuver.startLane not an incoming lane")
            C(any(m.endLane is l for l in inter.outgoingLanes), "link.maneuver-end-outgoing", m.endLane.uid, "maneuver.endLane not an outgoing lane")
            cl = m.connectingLane
            C(cl is not None and id(cl.road) in connecting, "link.maneuver-connecting-road", inter.uid, "connecting lane missing or not on a connecting road")
            if cl is not None:
                C(cl._successor is m.endLane, "link.maneuver-connecting-successor", cl.uid, f"connectingLane.successor is {getattr(cl._successor, 'uid', None)} not endLane {m.endLane.uid}")
                C(cl._predecessor is m.startLane, "link.maneuver-connecting-predecessor", cl.uid, f"connectingLane.predecessor is {getattr(cl._predecessor, 'uid', None)} not startLane {m.startLane.uid}")
            for c in m.conflictingManeuvers:
                C(c is not m, "link.conflict-irreflexive", inter.uid, "maneuver conflicts with itself")
                C(any(m is x for x in c.conflictingManeuvers), "link.conflict-symmetric", inter.uid,
                  f"{m.startLane.uid}->{m.endLane.uid} conflicts with {c.startLane.uid}->{c.endLane.uid} but not conversely")
            for rv in m.reverseManeuvers:
                C(any(m is x for x in rv.reverseManeuvers), "link.reverse-symmetric", inter.uid, "reverseManeuvers not symmetric")
        for r in inter.roads:
            C(r._successor is inter or r._predecessor is inter, "link.intersection-road-reciprocal", r.uid, f"road {r.uid} is listed by {inter.uid} but neither its successor nor predecessor is that intersection")
    for road in net.roads:
        for x in (road._successor, road._predecessor):
            if isinstance(x, R.Intersection):
                C(any(road is r for r in x.roads), "link.road-intersection-reciprocal", road.uid, f"road links to {x.uid} which does not list it")
            elif isinstance(x, R.Road):
                C(x._successor is road or x._predecessor is road, "link.road-road-reciprocal", road.uid, f"road links to {x.uid} which does not link back")
    for lane in net.lanes:
        for m in lane.maneuvers:
            if m.connectingLane is None:
                C(m.endLane is lane._successor, "link.merge-maneuver-end", lane.uid, "dummy maneuver's endLane is not the lane's successor")
    for lst, name in ((net.shoulders, "shoulder"), (net.sidewalks, "sidewalk"), (net.intersections, "intersection"), (net.laneGroups, "laneGroup")):
        for e in lst:
            registered(e, name)
    for uid, e in elems.items():
        C(e.uid == uid, "link.uid-key", uid, "element stored under another uid")
        try:
            same = e.network.elements is net.elements
        except ReferenceError:
            same = False
        C(same, "link.element-network", uid, "element.network is not this network")


def _nearest_segment(points, x, y):
    """(index, distance, t) of the nearest segment of a polyline and second-best distance"""
    P = numpy.asarray(points, dtype=float)[:, :2]
    A, B = P[:-1], P[1:]
    d = B - A
    L2 = (d * d).sum(axis=1)
    ok = L2 > 0
    t = numpy.zeros(len(A))
    q = numpy.array([x, y])
    t[ok] = ((q - A[ok]) * d[ok]).sum(axis=1) / L2[ok]
    tc = numpy.clip(t, 0, 1)
    C = A + d * tc[:, None]
    dist = numpy.hypot(*(C - q).T)
    dist[~ok] = numpy.inf
    order = numpy.argsort(dist)
    i = int(order[0])
    second = float(dist[order[1]]) if len(order) > 1 else math.inf
    return i, float(dist[i]), float(t[i]), second, math.sqrt(float(L2[i]))


def check_tangent(net, rng, n, rep):
    """lane.orientation and network.roadDirection at a point of a lane are parallel to the nearest
    centreline segment (only points clearly nearest to the interior of one segment are decided)"""
    from shapely.geometry import Point

    from scenic.core.vectors import Vector

    lanes = list(net.lanes)
    if not lanes:
        return 0
    all_lanes = Oracle(lanes)
    inters = Oracle(net.intersections)
    all_roads = Oracle(net.allRoads)
    shoulders = Oracle(net.shoulders)
    done = 0
    for _ in range(n):
        lane = rng.choice(lanes)
        poly = lane.polygons
        minx, miny, maxx, maxy = poly.bounds
        pt = None
        for _t in range(100):
            p = Point(rng.uniform(minx, maxx), rng.uniform(miny, maxy))
            if poly.contains(p):
                pt = p
                break
        if pt is None:
            rep.skip("tangent_no_point_in_lane")
            continue
        pts = list(lane.centerline.points)
        if len(pts) < 2:
            rep.skip("tangent_degenerate_centerline")
            continue
        i, d, t, second, seglen = _nearest_segment(pts, pt.x, pt.y)
        # away from joints: projection strictly inside the segment and every other segment clearly farther
        if not (0.02 < t < 0.98) or second - d < 1e-3 or seglen < 1e-6:
            rep.skip("tangent_point_near_joint")
            continue
        a, b = pts[i], pts[i + 1]
        expected = math.atan2(b[1] - a[1], b[0] - a[0]) - math.pi / 2  # Scenic heading: 0 = +y, anticlockwise
        v = Vector(pt.x, pt.y)
        got = lane.orientation[v].yaw

        def angdiff(x, y):
            return abs((x - y + math.pi) % (2 * math.pi) - math.pi)

        rep.check(angdiff(got, expected) <= 1e-6, "tangent.lane-orientation", lane.uid,
                  lambda: f"lane.orientation at ({pt.x:.4f},{pt.y:.4f}) = {got:.8f} but nearest centreline segment {i} has heading {expected:.8f}")
        done += 1
        # roadDirection: decided only where this lane is the only lane containing the point and no intersection does;
        # lanes of connecting roads get their (multi-valued) direction from the intersection, and where such a
        # lane protrudes from the intersection polygon the network has no single direction to report
        if any(lane.road is r for r in net.connectingRoads):
            rep.skip("tangent_roadDirection_connecting_lane")
            continue
        dl = all_lanes.distances(pt)
        if int((dl <= net.tolerance + 1e-9).sum()) != 1:
            rep.skip("tangent_roadDirection_overlapping_lanes")
            continue
        di = inters.distances(pt)
        if len(di) and float(di.min()) <= net.tolerance + 1e-9:
            rep.skip("tangent_roadDirection_in_intersection")
            continue
        # consecutive roads overlap slightly at their joint (buffered unions): where another road's polygon
        # is within tolerance, the lookup may legitimately answer with that road's direction
        dr_ = all_roads.distances(pt)
        if int((dr_ <= net.tolerance + 1e-9).sum()) != 1:
            rep.skip("tangent_roadDirection_overlapping_roads")
            continue
        # shoulders overlap the outermost lane by a sliver; there (exact containment first) the shoulder answers
        ds = shoulders.distances(pt)
        if len(ds) and float(ds.min()) <= net.tolerance + 1e-9:
            rep.skip("tangent_roadDirection_near_shoulder")
            continue
        rd = net.roadDirection[v].yaw
        rep.check(angdiff(rd, expected) <= 1e-6, "tangent.roadDirection", lane.uid,
                  lambda: f"roadDirection at ({pt.x:.4f},{pt.y:.4f}) = {rd:.8f} but the centreline of the only lane there ({lane.uid}) has heading {expected:.8f}")
        dirs = net.nominalDirectionsAt(v)
        rep.check(len(dirs) == 1 and angdiff(dirs[0].yaw, expected) <= 1e-6, "tangent.nominalDirections", lane.uid,
                  lambda: f"nominalDirectionsAt = {[round(o.yaw, 6) for o in dirs]} expected single {expected:.6f}")
    return done


def lookup_signature(net, pts):
    """uids returned by every lookup at the given (x, y) points (for cached-vs-parsed comparison)"""
    from scenic.core.vectors import Vector

    out = []
    for x, y in pts:
        v = Vector(x, y)
        row = []
        for fn in (net.elementAt, net.roadAt, net.laneAt, net.laneSectionAt, net.laneGroupAt, net.intersectionAt, net.shoulderAt, net.sidewalkAt):
            r = fn(v)
            row.append(None if r is None else r.uid)
        row.append([repr(round(o.yaw, 12)) for o in net.nominalDirectionsAt(v)])
        row.append(repr(round(net.roadDirection[v].yaw, 12)))
        out.append(row)
    return out
