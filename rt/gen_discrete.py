"""Generator of finite-discrete Scenic programs together with an independent exact reference semantics.

The generator builds its own AST; from it we print (a) Scenic source text and (b) the exact prior by
brute-force enumeration with Fractions: one draw per node identity per scene, `resample` = fresh leaf with
the same parameter values, requirements evaluated on the bindings at the time of the statement.
"""

from fractions import Fraction
import itertools
import math

ONE = Fraction(1)
REJECT = ("<REJECT>",)

_uid = itertools.count()


class Node:
    def __init__(self):
        self.uid = next(_uid)
        self.name = None  # variable name once bound

    def src(self):
        """source text of a *reference* to this node"""
        return self.name if self.name else self.expr()

    # reference semantics: generator of (value, prob, env)
    def ev(self, env):
        if self.uid in env:
            yield env[self.uid], ONE, env
            return
        for v, p, e in self._ev(env):
            e2 = dict(e)
            e2[self.uid] = v
            yield v, p, e2

    def children(self):
        return []

    def is_random(self):
        return any(c.is_random() for c in self.children())


def _ev_seq(nodes, env):
    """evaluate nodes left to right; yields (list of values, prob, env); a REJECT short-circuits"""
    if not nodes:
        yield [], ONE, env
        return
    for v, p, e in nodes[0].ev(env):
        if v is REJECT:
            yield REJECT, p, e
            continue
        for vs, q, e2 in _ev_seq(nodes[1:], e):
            if vs is REJECT:
                yield REJECT, p * q, e2
            else:
                yield [v] + vs, p * q, e2


class Const(Node):
    def __init__(self, v):
        super().__init__()
        self.v = v

    def expr(self):
        return repr(self.v)

    def _ev(self, env):
        yield self.v, ONE, env


class DR(Node):
    """DiscreteRange(lo, hi): uniform integer in [ceil(lo), floor(hi)]; empty range rejects the sample"""

    def __init__(self, lo, hi):
        super().__init__()
        self.lo, self.hi = lo, hi

    def children(self):
        return [self.lo, self.hi]

    def is_random(self):
        return True

    def expr(self):
        return f"DiscreteRange({self.lo.src()}, {self.hi.src()})"

    def _ev(self, env):
        for vs, p, e in _ev_seq([self.lo, self.hi], env):
            if vs is REJECT:
                yield REJECT, p, e
                continue
            lo, hi = math.ceil(vs[0]), math.floor(vs[1])
            if hi < lo:
                yield REJECT, p, e
                continue
            n = hi - lo + 1
            for k in range(lo, hi + 1):
                yield k, p * Fraction(1, n), e

    def clone_params(self):
        return DR(self.lo, self.hi)


class Uni(Node):
    """Uniform(e1, ..., en)"""

    def __init__(self, opts):
        super().__init__()
        self.opts = opts

    def children(self):
        return list(self.opts)

    def is_random(self):
        return True

    def expr(self):
        return "Uniform(" + ", ".join(o.src() for o in self.opts) + ")"

    def _ev(self, env):
        # every option expression is drawn (a rejection in any of them rejects the sample), one is selected
        n = len(self.opts)
        for vs, p, e in _ev_seq(self.opts, env):
            if vs is REJECT:
                yield REJECT, p, e
                continue
            for v in vs:
                yield v, p * Fraction(1, n), e

    def clone_params(self):
        return Uni(self.opts)


class Disc(Node):
    """Discrete({e1: w1, ...}) (weights >= 0, not all zero)"""

    def __init__(self, opts, weights):
        super().__init__()
        self.opts, self.weights = opts, weights

    def children(self):
        return list(self.opts)

    def is_random(self):
        return True

    def expr(self):
        return "Discrete({" + ", ".join(f"{o.src()}: {w!r}" for o, w in zip(self.opts, self.weights)) + "})"

    def _ev(self, env):
        tot = sum(Fraction(w) for w in self.weights)
        live = [(o, w) for o, w in zip(self.opts, self.weights) if w != 0]  # zero-weight options are dropped
        for vs, p, e in _ev_seq([o for o, _ in live], env):
            if vs is REJECT:
                yield REJECT, p, e
                continue
            for v, (_, w) in zip(vs, live):
                yield v, p * Fraction(w) / tot, e

    def clone_params(self):
        return Disc(self.opts, self.weights)


class Resample(Node):
    """resample(x): a fresh draw from x's distribution given the same parameter values"""

    def __init__(self, base):
        super().__init__()
        self.base = base
        self.fresh = base.clone_params()

    def children(self):
        return [self.base]

    def is_random(self):
        return True

    def expr(self):
        return f"resample({self.base.src()})"

    def _ev(self, env):
        yield from self.fresh.ev(env)


OPS = {
    "+": lambda a, b: a + b,
    "-": lambda a, b: a - b,
    "*": lambda a, b: a * b,
    "//": lambda a, b: a // b,
    "%": lambda a, b: a % b,
}


class Bin(Node):
    def __init__(self, op, a, b):
        super().__init__()
        self.op, self.a, self.b = op, a, b

    def children(self):
        return [self.a, self.b]

    def expr(self):
        return f"({self.a.src()} {self.op} {self.b.src()})"

    def _ev(self, env):
        for vs, p, e in _ev_seq([self.a, self.b], env):
            yield (REJECT if vs is REJECT else OPS[self.op](vs[0], vs[1])), p, e


class Neg(Node):
    def __init__(self, a):
        super().__init__()
        self.a = a

    def children(self):
        return [self.a]

    def expr(self):
        return f"(-{self.a.src()})"

    def _ev(self, env):
        for v, p, e in self.a.ev(env):
            yield (REJECT if v is REJECT else -v), p, e


class Call(Node):
    """lifted call of a pure Python function f(args) (printed as `name(args)`)"""

    FUNCS = {"abs": abs, "fmax": max, "fmin": min}

    def __init__(self, fname, args):
        super().__init__()
        self.fname, self.args = fname, args

    def children(self):
        return list(self.args)

    def expr(self):
        return f"{self.fname}(" + ", ".join(a.src() for a in self.args) + ")"

    def _ev(self, env):
        for vs, p, e in _ev_seq(self.args, env):
            yield (REJECT if vs is REJECT else self.FUNCS[self.fname](*vs)), p, e


class TupleChoice(Node):
    """Uniform over constant tuples: a *distribution over containers* (supports indexing, star-unpacking)"""

    def __init__(self, tuples):
        super().__init__()
        self.tuples = tuples

    def is_random(self):
        return True

    def expr(self):
        return "Uniform(" + ", ".join(repr(t) for t in self.tuples) + ")"

    def _ev(self, env):
        n = len(self.tuples)
        for t in self.tuples:
            yield t, Fraction(1, n), env

    def clone_params(self):
        return TupleChoice(self.tuples)


class KChoice(Node):
    """Uniform over user objects K(v): a distribution over objects (attribute access, method calls lifted)"""

    def __init__(self, vals):
        super().__init__()
        self.vals = vals

    def is_random(self):
        return True

    def expr(self):
        return "Uniform(" + ", ".join(f"K({v})" for v in self.vals) + ")"

    def _ev(self, env):
        n = len(self.vals)
        for v in self.vals:
            yield ("K", v), Fraction(1, n), env


class KAttr(Node):
    def __init__(self, base):
        super().__init__()
        self.base = base

    def children(self):
        return [self.base]

    def expr(self):
        return f"{self.base.src()}.v"

    def _ev(self, env):
        for v, p, e in self.base.ev(env):
            yield (REJECT if v is REJECT else v[1]), p, e


class KMethod(Node):
    def __init__(self, base, arg):
        super().__init__()
        self.base, self.arg = base, arg

    def children(self):
        return [self.base, self.arg]

    def expr(self):
        return f"{self.base.src()}.m({self.arg.src()})"

    def _ev(self, env):
        for vs, p, e in _ev_seq([self.base, self.arg], env):
            yield (REJECT if vs is REJECT else vs[0][1] * 2 + vs[1]), p, e


class Index(Node):
    def __init__(self, base, idx):
        super().__init__()
        self.base, self.idx = base, idx

    def children(self):
        return [self.base, self.idx]

    def expr(self):
        return f"{self.base.src()}[{self.idx.src()}]"

    def _ev(self, env):
        for vs, p, e in _ev_seq([self.base, self.idx], env):
            yield (REJECT if vs is REJECT else vs[0][vs[1]]), p, e


class Method(Node):
    """method call on a random container: base.count(c) / len via attribute-free form"""

    def __init__(self, base, meth, arg):
        super().__init__()
        self.base, self.meth, self.arg = base, meth, arg

    def children(self):
        return [self.base, self.arg]

    def expr(self):
        return f"{self.base.src()}.{self.meth}({self.arg.src()})"

    def _ev(self, env):
        for vs, p, e in _ev_seq([self.base, self.arg], env):
            yield (REJECT if vs is REJECT else getattr(vs[0], self.meth)(vs[1])), p, e


class StarUniform(Node):
    """Uniform(*base, extras...) : one element of the (random) container plus extra options, uniformly"""

    def __init__(self, base, extras):
        super().__init__()
        self.base, self.extras = base, extras

    def children(self):
        return [self.base] + list(self.extras)

    def is_random(self):
        return True

    def expr(self):
        return "Uniform(" + ", ".join([f"*{self.base.src()}"] + [x.src() for x in self.extras]) + ")"

    def _ev(self, env):
        for vs, p, e in _ev_seq([self.base] + list(self.extras), env):
            if vs is REJECT:
                yield REJECT, p, e
                continue
            opts = list(vs[0]) + vs[1:]
            n = len(opts)
            for o in opts:
                yield o, p * Fraction(1, n), e


class TupleLit(Node):
    def __init__(self, elts):
        super().__init__()
        self.elts = elts

    def children(self):
        return list(self.elts)

    def expr(self):
        return "(" + ", ".join(x.src() for x in self.elts) + ("," if len(self.elts) == 1 else "") + ")"

    def _ev(self, env):
        for vs, p, e in _ev_seq(self.elts, env):
            yield (REJECT if vs is REJECT else tuple(vs)), p, e


CMPS = {
    "<": lambda a, b: a < b,
    "<=": lambda a, b: a <= b,
    "==": lambda a, b: a == b,
    "!=": lambda a, b: a != b,
    ">": lambda a, b: a > b,
    ">=": lambda a, b: a >= b,
}


class Cmp(Node):
    def __init__(self, op, a, b):
        super().__init__()
        self.op, self.a, self.b = op, a, b

    def children(self):
        return [self.a, self.b]

    def expr(self):
        return f"({self.a.src()} {self.op} {self.b.src()})"

    def _ev(self, env):
        for vs, p, e in _ev_seq([self.a, self.b], env):
            yield (REJECT if vs is REJECT else CMPS[self.op](vs[0], vs[1])), p, e


class BoolOp(Node):
    def __init__(self, op, args):
        super().__init__()
        self.op, self.args = op, args

    def children(self):
        return list(self.args)

    def expr(self):
        if self.op == "not":
            return f"(not {self.args[0].src()})"
        return "(" + f" {self.op} ".join(a.src() for a in self.args) + ")"

    def _ev(self, env):
        for vs, p, e in _ev_seq(self.args, env):
            if vs is REJECT:
                yield REJECT, p, e
            elif self.op == "not":
                yield (not vs[0]), p, e
            elif self.op == "and":
                yield all(vs), p, e
            else:
                yield any(vs), p, e


PRELUDE = """
from scenic.core.distributions import distributionFunction
from verif_script import K
@distributionFunction
def fmax(a, b):
    return max(a, b)
@distributionFunction
def fmin(a, b):
    return min(a, b)
"""

# ---- programs ------------------------------------------------------------------------------------------


class Program:
    """statements: ("assign", name, node) | ("param", name, node) | ("require", node, prob|None)
    | ("object", name|None, xnode, ynode, allowCollisions node|None, is_ego)"""

    def __init__(self):
        self.stmts = []
        self.mode2D = False
        self.workspace = None  # (cx, cy, w, h) rectangular workspace or None

    def source(self):
        lines = [PRELUDE.strip()]
        if self.workspace:
            cx, cy, w, h = self.workspace
            lines.append(f"workspace = Workspace(RectangularRegion(({cx}, {cy}), 0, {w}, {h}))")
        for s in self.stmts:
            k = s[0]
            if k == "assign":
                lines.append(f"{s[1]} = {s[2].expr()}")
            elif k == "param":
                lines.append(f"param {s[1]} = {s[2].src()}")
            elif k == "require":
                pr = "" if s[2] is None else f"[{s[2]!r}]"
                lines.append(f"require{pr} {s[1].src()}")
            elif k == "object":
                _, name, x, y, ac, is_ego = s
                spec = f"new Object at ({x.src()}, {y.src()})"
                if ac is not None:
                    spec += f", with allowCollisions {ac.src()}"
                lhs = "ego = " if is_ego else (f"{name} = " if name else "")
                lines.append(lhs + spec)
        return "\n".join(lines) + "\n"

    # -- reference semantics
    def observables(self):
        obs = []
        for s in self.stmts:
            if s[0] == "param":
                obs.append(("param", s[1], s[2]))
            elif s[0] == "object":
                obs.append(("object", s[1], s[2], s[3], s[4]))
        return obs

    def reference(self):
        """-> (per_attempt, softs) where per_attempt: list of (outcome|None(reject), soft truth tuple, prob)
        outcome excludes soft requirement effects: caller combines with soft subsets."""
        roots = []
        layout = []
        params = {}
        for s in self.stmts:
            if s[0] == "param":
                params[s[1]] = s[2]  # last statement wins
        for name, node in params.items():
            layout.append(("param", name, len(roots)))
            roots.append(node)
        objs = [s for s in self.stmts if s[0] == "object"]
        for i, s in enumerate(objs):
            layout.append(("obj", i, len(roots)))
            roots.extend([s[2], s[3], s[4] if s[4] is not None else Const(False)])
        reqs = [s for s in self.stmts if s[0] == "require"]
        for i, s in enumerate(reqs):
            layout.append(("req", i, len(roots)))
            roots.append(s[1])
        table = []
        for vs, p, e in _ev_seq(roots, {}):
            if vs is REJECT:
                table.append((None, None, p))
                continue
            ok = True
            outcome = []
            soft_truth = []
            positions = []
            for item in layout:
                if item[0] == "param":
                    outcome.append(("param", item[1], vs[item[2]]))
                elif item[0] == "obj":
                    x, y, ac = vs[item[2] : item[2] + 3]
                    outcome.append(("obj", item[1], (x, y), bool(ac)))
                    positions.append((x, y, bool(ac)))
                else:
                    pr = reqs[item[1]][2]
                    truth = bool(vs[item[2]])
                    if pr is None:
                        ok = ok and truth
                    else:
                        soft_truth.append(truth)
            # built-in requirements: unit boxes on a spacing-3 grid overlap iff same cell
            for (x1, y1, a1), (x2, y2, a2) in itertools.combinations(positions, 2):
                if not (a1 or a2) and abs(x1 - x2) < 1 and abs(y1 - y2) < 1:
                    ok = False
            if self.workspace:
                cx, cy, w, h = self.workspace
                for x, y, _ in positions:
                    if not (abs(x - cx) + 0.5 <= w / 2 and abs(y - cy) + 0.5 <= h / 2):
                        ok = False
            table.append((tuple(outcome) if ok else None, tuple(soft_truth), p))
        soft_probs = [Fraction(s[2]) for s in reqs if s[2] is not None]
        return table, soft_probs

    def exact_distribution(self, k):
        """distribution of _generateInner(k): {("scene", outcome, iterations): p, ("reject",): p}"""
        table, soft_probs = self.reference()
        out = {}
        m = len(soft_probs)
        for subset in itertools.product((False, True), repeat=m):
            pS = ONE
            for on, pr in zip(subset, soft_probs):
                pS *= pr if on else (1 - pr)
            if pS == 0:
                continue
            q = {}
            for outcome, st, p in table:
                acc = outcome is not None and all(t for t, on in zip(st, subset) if on)
                if acc:
                    q[outcome] = q.get(outcome, 0) + p
            r = 1 - sum(q.values())
            for n in range(1, k + 1):
                for o, po in q.items():
                    key = ("scene", o, n)
                    out[key] = out.get(key, 0) + pS * r ** (n - 1) * po
            rk = pS * r**k
            if rk:
                out[("reject",)] = out.get(("reject",), 0) + rk
        return out


# ---- random program generation --------------------------------------------------------------------------


def generate(rng, with_objects=None):
    prog = Program()
    prog.mode2D = rng.random() < 0.3
    names = itertools.count()
    ints = []  # int-valued nodes bound to names
    tuples = []  # tuple-valued random nodes bound to names
    kobjs = []  # object-valued random nodes bound to names
    feats = set()

    def fresh():
        return f"v{next(names)}"

    def bind(node):
        node.name = fresh()
        prog.stmts.append(("assign", node.name, node))
        return node

    def const(lo=-2, hi=5):
        return Const(rng.randint(lo, hi))

    def int_operand(depth):
        if ints and rng.random() < 0.6:
            feats.add("shared-reference")
            return rng.choice(ints)
        if depth <= 0 or rng.random() < 0.3:
            return const()
        return int_expr(depth - 1)

    def leaf(depth):
        r = rng.random()
        if r < 0.35:
            lo = const(-1, 2) if rng.random() < 0.6 or not ints else rng.choice(ints)
            hi = const(1, 4) if rng.random() < 0.6 or not ints else rng.choice(ints)
            if isinstance(lo, Const) and isinstance(hi, Const):
                if hi.v < lo.v and rng.random() < 0.7:
                    lo, hi = hi, lo
                if rng.random() < 0.25:
                    # non-integer bounds: the range is [ceil(lo), floor(hi)]
                    lo = Const(lo.v - 0.5)
                    hi = Const(hi.v + rng.choice([0.5, 0.25]))
                    feats.add("fractional-range-bounds")
            else:
                feats.add("dependent-range-bounds")
            feats.add("DiscreteRange")
            return DR(lo, hi)
        if r < 0.65:
            n = rng.randint(2, 3)
            feats.add("Uniform")
            return Uni([int_operand(depth - 1) for _ in range(n)])
        n = rng.randint(2, 3)
        ws = [rng.choice([0, 1, 1, 2, 3, 0.5, 0.25]) for _ in range(n)]
        if sum(ws) == 0:
            ws[0] = 1
        if 0 in ws:
            feats.add("zero-weight")
        feats.add("Discrete")
        # Python dict keys: constants must be distinct and two non-constant options could be the very same
        # object (Scenic returns `x` itself for x+0, x*1, x//1), so allow at most one non-constant option
        opts = []
        seen = set()
        tries = 0
        nonconst = 0
        while len(opts) < n and tries < 20:
            tries += 1
            o = int_operand(depth - 1)
            if isinstance(o, Const):
                if o.v in seen:
                    continue
                seen.add(o.v)
            else:
                if nonconst:
                    o = const(6, 9)
                    if o.v in seen:
                        continue
                    seen.add(o.v)
                else:
                    nonconst = 1
            opts.append(o)
        ws = ws[: len(opts)]
        if sum(ws) == 0:
            ws[0] = 1
        return Disc(opts, ws)

    def int_expr(depth):
        r = rng.random()
        if r < 0.4 or depth <= 0:
            return leaf(depth)
        if r < 0.7:
            op = rng.choice(["+", "-", "*", "//", "%"])
            a = int_operand(depth - 1)
            if op in ("//", "%"):
                b = Const(rng.choice([1, 2, 3, -2]))
            else:
                b = int_operand(depth - 1)
            if isinstance(a, Const) and isinstance(b, Const):
                a = leaf(0)
            if rng.random() < 0.35 and op in ("+", "-", "*") and not isinstance(a, Const):
                # constant on the left: reflected operator (__radd__/__rsub__/__rmul__), incl. the identity
                # candidates 0 + x, 0 - x, 1 * x
                a, b = Const(rng.choice([0, 0, 1, 1, 2, -1, 3])), a
            feats.add("operator" + op)
            return Bin(op, a, b)
        if r < 0.78:
            feats.add("neg")
            return Neg(int_operand(depth - 1))
        if r < 0.86:
            f = rng.choice(["abs", "fmax", "fmin"])
            feats.add("call-" + f)
            if f == "abs":
                return Call(f, [leaf(depth - 1)])
            return Call(f, [leaf(depth - 1), int_operand(depth - 1)])
        if r < 0.93 and ints:
            cands = [n for n in ints if isinstance(n, (DR, Uni, Disc))]
            if cands:
                feats.add("resample")
                return Resample(rng.choice(cands))
        if kobjs and rng.random() < 0.5:
            k = rng.choice(kobjs)
            if rng.random() < 0.5:
                feats.add("attribute-access")
                return KAttr(k)
            feats.add("method-call-random-arg")
            return KMethod(k, int_operand(depth - 1))
        if tuples:
            t = rng.choice(tuples)
            minlen = min(len(x) for x in t.tuples)
            rr = rng.random()
            if rr < 0.4:
                feats.add("index-random")
                return Index(t, DR(Const(0), Const(minlen - 1)))
            if rr < 0.6:
                feats.add("index-const")
                return Index(t, Const(rng.randrange(-minlen, minlen)))
            if rr < 0.8:
                feats.add("method-call")
                return Method(t, "count", Const(rng.randint(0, 3)))
            feats.add("star-unpacking")
            return StarUniform(t, [const()] if rng.random() < 0.5 else [])
        return leaf(depth)

    nvars = rng.randint(1, 4)
    if rng.random() < 0.5:
        tc = TupleChoice(
            [tuple(rng.randint(0, 3) for _ in range(rng.randint(2, 3))) for _ in range(rng.randint(2, 3))]
        )
        tuples.append(bind(tc))
        feats.add("container-distribution")
    if rng.random() < 0.35:
        kobjs.append(bind(KChoice(rng.sample(range(0, 5), rng.randint(2, 3)))))
        feats.add("object-distribution")
    for _ in range(nvars):
        ints.append(bind(int_expr(2)))

    def bool_expr():
        def det():
            a = rng.choice(ints)
            if rng.random() < 0.3:
                op = rng.choice(["+", "-", "*"])
                b = rng.choice(ints) if rng.random() < 0.5 else const(1, 3)
                return Bin(op, a, b)
            return a

        def cmp():
            a = det()
            b = det() if rng.random() < 0.4 else const(-1, 4)
            return Cmp(rng.choice(list(CMPS)), a, b)

        r = rng.random()
        if r < 0.6:
            return cmp()
        if r < 0.75:
            return BoolOp("not", [cmp()])
        return BoolOp(rng.choice(["and", "or"]), [cmp(), cmp()])

    # requirements (hard / soft), possibly followed by rebinding
    for _ in range(rng.choice([0, 1, 1, 2, 2, 3])):
        pr = None
        if rng.random() < 0.4:
            pr = rng.choice([0.5, 0.25, 0.75, 0.125])
            feats.add("soft-requirement")
        else:
            feats.add("hard-requirement")
        prog.stmts.append(("require", bool_expr(), pr))
        if rng.random() < 0.3 and ints:
            # rebind an existing name to a new random value: the requirement keeps the old binding
            old = rng.choice(ints)
            new = int_expr(1)
            new.name = old.name
            prog.stmts.append(("assign", new.name, new))
            ints[ints.index(old)] = new
            feats.add("rebinding-after-require")

    # params
    nparam = rng.randint(1, 3)
    for i in range(nparam):
        r = rng.random()
        if r < 0.7 or not tuples:
            node = rng.choice(ints) if rng.random() < 0.7 else int_expr(1)
        elif r < 0.85:
            node = TupleLit([rng.choice(ints), int_operand(1)])
            feats.add("tuple-literal")
        else:
            node = rng.choice(tuples)
        prog.stmts.append(("param", f"p{i}", node))

    # objects on a spacing-3 grid
    if with_objects is None:
        with_objects = rng.random() < 0.35
    if with_objects:
        feats.add("objects")
        nobj = rng.randint(1, 3)
        if rng.random() < 0.5:
            prog.workspace = (3, 3, 8, 8)
            feats.add("workspace")
        for i in range(nobj):
            xs = rng.sample([0, 3, 6] + ([9] if prog.workspace else []), rng.randint(1, 3))
            if len(xs) == 1:
                x = Const(xs[0])
            else:
                x = Uni([Const(v) for v in xs])
            ys = rng.sample([0, 3, 6], rng.randint(1, 2))
            y = Const(ys[0]) if len(ys) == 1 else Uni([Const(v) for v in ys])
            if isinstance(x, Const) and isinstance(y, Const):
                x = Uni([Const(x.v), Const((x.v + 3) % 9)])
            if rng.random() < 0.3 and ints:
                # position depending on a program variable (mod 3 cells)
                x = Bin("*", Bin("%", rng.choice(ints), Const(3)), Const(3))
                feats.add("object-position-from-variable")
            ac = None
            rr = rng.random()
            if rr < 0.25:
                ac = Uni([Const(True), Const(False)])
                feats.add("random-allowCollisions")
            elif rr < 0.4:
                ac = Const(True)
            prog.stmts.append(("object", f"o{i}", x, y, ac, i == 0))
    prog.features = sorted(feats)
    return prog
