"""C09 oracle side: the *documented* Python->Scenic rewrites applied to CPython's own tree, a structural
comparator, corpus helpers and the fragment filters.

Written from the property statement / language reference, not from compiler.py:
  * the names `ego`, `workspace`, `globalParameters` (read) become accessor calls  ego -> ego()
  * calls to str/int/float become calls to _toStrScenic/_toIntScenic/_toFloatScenic
  * star arguments are wrapped:  f(*a, b) -> callWithStarArgs(f, *wrapStarredValue(a, <line>), b)
    (not inside behaviors, where the generator protocol forbids it)
  * a class without bases derives from Object; every class gains a property table
    `_scenic_properties = {}` (empty for pure-Python bodies)
Nothing else.  Anything else that differs is a finding (or a counted documented soft-keyword ambiguity).
"""

import ast
import io
import keyword
import os
import sys
import tokenize

TRACKED = ("ego", "workspace", "globalParameters")
LIFTED = {"str": "_toStrScenic", "int": "_toIntScenic", "float": "_toFloatScenic"}
# documented "builtin names: can be used but not overwritten" (reference/general.rst) + tracked names
NO_REBIND = frozenset(TRACKED) | frozenset(LIFTED)
BEHAVIOR_NS = "_Scenic_current_behavior"

_kw_cache = None


def scenic_keywords():
    """(hard, soft) keywords that Scenic adds to Python's, derived from the generated parser class."""
    global _kw_cache
    if _kw_cache is None:
        from scenic.syntax.parser import ScenicParser

        hard = set(ScenicParser.KEYWORDS) - set(keyword.kwlist)
        soft = set(ScenicParser.SOFT_KEYWORDS) - set(keyword.softkwlist) - set(keyword.kwlist) - hard
        _kw_cache = (frozenset(hard), frozenset(soft))
    return _kw_cache


# ------------------------------------------------------------------------------------------------
# normaliser


def _synth(node, like=None):
    node._synth = True
    if like is not None:
        ast.copy_location(node, like)
    return node


class Normaliser(ast.NodeTransformer):
    def __init__(self, wrap_star=True):
        self.wrap_star = wrap_star
        self.rewrites = {"tracked": 0, "lifted": 0, "star": 0, "class_base": 0, "class_table": 0}

    def visit_Name(self, node):
        if node.id in TRACKED and isinstance(node.ctx, ast.Load):
            self.rewrites["tracked"] += 1
            inner = _synth(ast.Name(id=node.id, ctx=ast.Load()))
            call = ast.Call(func=inner, args=[], keywords=[])
            ast.copy_location(call, node)
            return call
        return node

    def visit_Call(self, node):
        star = False
        args = []
        for a in node.args:
            if isinstance(a, ast.Starred) and self.wrap_star:
                star = True
                line = a.value.lineno
                wrapped = _synth(
                    ast.Call(
                        func=_synth(ast.Name(id="wrapStarredValue", ctx=ast.Load())),
                        args=[self.visit(a.value), _synth(ast.Constant(value=line))],
                        keywords=[],
                    )
                )
                args.append(_synth(ast.Starred(value=wrapped, ctx=ast.Load())))
            else:
                args.append(self.visit(a))
        keywords = [self.visit(k) for k in node.keywords]
        func = self.visit(node.func)
        if isinstance(func, ast.Name) and func.id in LIFTED:
            self.rewrites["lifted"] += 1
            func.id = LIFTED[func.id]
        if star:
            self.rewrites["star"] += 1
            new = ast.Call(
                func=_synth(ast.Name(id="callWithStarArgs", ctx=ast.Load())),
                args=[func] + args,
                keywords=keywords,
            )
        else:
            new = ast.Call(func=func, args=args, keywords=keywords)
        return ast.copy_location(new, node)

    def visit_ClassDef(self, node):
        if not node.bases:
            self.rewrites["class_base"] += 1
            node.bases = [_synth(ast.Name(id="Object", ctx=ast.Load()))]
        self.generic_visit(node)
        self.rewrites["class_table"] += 1
        table = _synth(
            ast.Assign(
                targets=[_synth(ast.Name(id="_scenic_properties", ctx=ast.Store()))],
                value=_synth(ast.Dict(keys=[], values=[])),
            )
        )
        node.body = list(node.body) + [table]
        return node


def normalise(tree, wrap_star=True):
    n = Normaliser(wrap_star)
    out = n.visit(tree)
    return out, n.rewrites


TEMP_NAME = "_Scenic_temporary_name"


def _is_ns(node):
    return isinstance(node, ast.Name) and node.id == BEHAVIOR_NS


class _UnBehavior(ast.NodeTransformer):
    """Inverse of the behavior-local storage (used on Scenic's output for fragments embedded in
    behaviors / monitors / scenario blocks; accepts either storage form for any name):
        _Scenic_current_behavior.x                                   ->  x
        (tmp := v, _Scenic_current_behavior.__setattr__('x', tmp))[0] ->  (x := v)
        x: T = v with an attribute target (simple=0)                 ->  simple=1
        type T = v ; _Scenic_current_behavior.T = T                  ->  type T = v
    """

    def visit_Attribute(self, node):
        if _is_ns(node.value):
            return ast.copy_location(ast.Name(id=node.attr, ctx=node.ctx), node)
        return self.generic_visit(node)

    def visit_Subscript(self, node):
        t = node.value
        if (
            isinstance(t, ast.Tuple)
            and len(t.elts) == 2
            and isinstance(node.slice, ast.Constant)
            and node.slice.value == 0
            and isinstance(t.elts[0], ast.NamedExpr)
            and t.elts[0].target.id == TEMP_NAME
            and isinstance(t.elts[1], ast.Call)
            and isinstance(t.elts[1].func, ast.Attribute)
            and t.elts[1].func.attr == "__setattr__"
            and _is_ns(t.elts[1].func.value)
            and len(t.elts[1].args) == 2
            and isinstance(t.elts[1].args[0], ast.Constant)
        ):
            new = ast.NamedExpr(
                target=ast.copy_location(ast.Name(id=t.elts[1].args[0].value, ctx=ast.Store()), node),
                value=self.visit(t.elts[0].value),
            )
            return ast.copy_location(new, node)
        return self.generic_visit(node)

    def visit_AnnAssign(self, node):
        # whether the name was parenthesised (`(x): T`, simple=0) cannot be recovered from an
        # attribute target: the flag is not compared for name targets in embedded fragments
        node = self.generic_visit(node)
        if isinstance(node.target, ast.Name):
            node.simple = 1
        return node

    def generic_visit(self, node):
        node = super().generic_visit(node)
        for f in ("body", "orelse", "finalbody"):
            body = getattr(node, f, None)
            if isinstance(body, list) and body and isinstance(body[0], ast.stmt):
                setattr(node, f, _drop_alias_stores(body))
        return node


def _drop_alias_stores(body):
    out = []
    for st in body:
        prev = out[-1] if out else None
        if (
            isinstance(st, ast.Assign)
            and isinstance(prev, getattr(ast, "TypeAlias", ()))
            and len(st.targets) == 1
            and isinstance(st.targets[0], ast.Name)
            and isinstance(st.value, ast.Name)
            and st.targets[0].id == st.value.id == prev.name.id
        ):
            continue  # (after the attribute -> name mapping the store reads `T = T`)
        out.append(st)
    return out


def unbehavior(nodes):
    t = _UnBehavior()
    return _drop_alias_stores([t.visit(n) for n in nodes])


# ------------------------------------------------------------------------------------------------
# comparator


def _const_eq(a, b):
    if type(a) is not type(b):
        return False
    if isinstance(a, (tuple, frozenset)):
        return repr(a) == repr(b)
    return repr(a) == repr(b)


def first_diff(a, b, path=()):
    """Structural comparison ignoring positions.  a = expected (normalised CPython), b = Scenic output.
    Returns None or (path_of_expected_nodes, description, (expected_value, scenic_value))."""
    stack = [(a, b, path, "")]
    while stack:
        x, y, p, where = stack.pop()
        if isinstance(x, ast.AST):
            if type(x) is not type(y):
                return (p + (x,), f"{where}: expected {type(x).__name__}, Scenic gave {type(y).__name__}", (x, y))
            p2 = p + (x,)
            items = []
            for f in x._fields:
                vx = getattr(x, f, None)
                vy = getattr(y, f, None)
                items.append((vx, vy, p2, f"{type(x).__name__}.{f}"))
            stack.extend(reversed(items))
        elif isinstance(x, list):
            if not isinstance(y, list):
                return (p, f"{where}: expected a list, Scenic gave {type(y).__name__}", (x, y))
            items = []
            for i, (ex, ey) in enumerate(zip(x, y)):
                items.append((ex, ey, p, f"{where}[{i}]"))
            if len(x) != len(y):
                # report the common prefix first (deeper diffs are more informative), then the length
                r = None
                for ex, ey, pp, ww in items:
                    r = first_diff(ex, ey, pp)
                    if r:
                        return (r[0], ww + " " + r[1], r[2])
                extra = x[len(y)] if len(x) > len(y) else None
                pp = p + ((extra,) if isinstance(extra, ast.AST) else ())
                return (pp, f"{where}: expected {len(x)} elements, Scenic gave {len(y)}", (x, y))
            stack.extend(reversed(items))
        else:
            if isinstance(y, (ast.AST, list)) or not _const_eq(x, y):
                return (p, f"{where}: expected {x!r:.80}, Scenic gave {_short(y)}", (x, y))
    return None


def _short(v):
    if isinstance(v, ast.AST):
        return type(v).__name__
    return repr(v)[:80]


def lineno_diffs(a, b, limit=3):
    """Walk two structurally equal trees; compare lineno of corresponding source-originated nodes.
    Returns (nodes_compared, [(expected_node, scenic_lineno)], end_lineno_mismatches, col_mismatches)."""
    bad = []
    n = 0
    endbad = 0
    colbad = 0
    stack = [(a, b)]
    while stack:
        x, y = stack.pop()
        if isinstance(x, ast.AST):
            if not isinstance(y, ast.AST):
                continue
            if hasattr(x, "lineno") and not getattr(x, "_synth", False):
                n += 1
                ly = getattr(y, "lineno", None)
                if ly != x.lineno:
                    if len(bad) < limit:
                        bad.append((x, ly))
                else:
                    if getattr(y, "end_lineno", None) != getattr(x, "end_lineno", None):
                        endbad += 1
                    if getattr(y, "col_offset", None) != getattr(x, "col_offset", None):
                        colbad += 1
            for f in x._fields:
                vx = getattr(x, f, None)
                vy = getattr(y, f, None)
                if isinstance(vx, (ast.AST, list)):
                    stack.append((vx, vy))
        elif isinstance(x, list) and isinstance(y, list):
            stack.extend(zip(x, y))
    return n, bad, endbad, colbad


def dump(tree):
    if isinstance(tree, list):
        return "[" + ", ".join(ast.dump(t) for t in tree) + "]"
    return ast.dump(tree)


# ------------------------------------------------------------------------------------------------
# fragment filters


def identifiers(tree):
    """Every identifier the module spells (names, attributes, parameters, keywords, imports, ...)."""
    out = set()
    for node in ast.walk(tree):
        if isinstance(node, ast.Constant):
            continue
        for f in node._fields:
            v = getattr(node, f, None)
            if isinstance(v, str):
                if f == "type_comment":
                    continue
                out.update(v.split("."))
            elif isinstance(v, list) and v and isinstance(v[0], str):
                for s in v:
                    if isinstance(s, str):
                        out.update(s.split("."))
    return out


def rebinds_builtin(tree):
    for node in ast.walk(tree):
        if isinstance(node, ast.Name) and node.id in NO_REBIND and not isinstance(node.ctx, ast.Load):
            return node.id
    return None


def class_annotation_lines(tree):
    """Line numbers of class-level annotated names: `name: value` in a class body is Scenic's documented
    property-definition syntax (reference/statements.rst, Class Definition), so it is outside the fragment."""
    out = []
    for node in ast.walk(tree):
        if isinstance(node, ast.ClassDef):
            for st in node.body:
                if isinstance(st, ast.AnnAssign):
                    out.append(st.lineno)
    return out


def contains(node, types):
    return any(isinstance(n, types) for n in ast.walk(node))


def soft_keywords_in(text):
    """Scenic-only soft keywords spelled as NAME tokens in a piece of source."""
    _, soft = scenic_keywords()
    found = set()
    try:
        for tok in tokenize.generate_tokens(io.StringIO(text).readline):
            if tok.type == tokenize.NAME and tok.string in soft:
                found.add(tok.string)
    except Exception:
        import re

        for w in re.findall(r"[A-Za-z_]\w*", text):
            if w in soft:
                found.add(w)
    return found


def stmt_header_text(lines, st):
    """Source of a statement without the bodies of compound statements (decorators included)."""
    first = min([st.lineno] + [d.lineno for d in getattr(st, "decorator_list", [])])
    last = getattr(st, "end_lineno", st.lineno) or st.lineno
    inner = []
    for f in ("body", "orelse", "finalbody", "handlers", "cases"):
        v = getattr(st, f, None)
        if isinstance(v, list) and v and isinstance(v[0], ast.AST) and hasattr(v[0], "lineno"):
            inner.append(v[0].lineno)
    if inner and min(inner) > st.lineno:
        last = min(inner) - 1
    elif inner:
        last = st.lineno
    return "\n".join(lines[first - 1 : last]) + "\n"


def innermost_stmt(tree, line):
    best = None
    for node in ast.walk(tree):
        if isinstance(node, (ast.stmt, ast.ExceptHandler, ast.match_case)) and hasattr(node, "lineno"):
            first = min([node.lineno] + [d.lineno for d in getattr(node, "decorator_list", [])])
            if first <= line <= (node.end_lineno or node.lineno):
                if best is None or (node.end_lineno - first) <= (best.end_lineno - best.lineno):
                    best = node
    return best


# ------------------------------------------------------------------------------------------------
# corpus


def read_source(path):
    """Decode like the import system (PEP 263 cookie / BOM) but keep the original newlines."""
    with open(path, "rb") as f:
        raw = f.read()
    enc, _ = tokenize.detect_encoding(io.BytesIO(raw).readline)
    text = raw.decode(enc)
    if text.startswith("﻿"):
        text = text[1:]
    return text


def corpus_roots():
    import sysconfig

    roots = []
    std = sysconfig.get_paths()["stdlib"]
    roots.append(("stdlib", std))
    import glob

    for d in sorted(glob.glob("/usr/lib/python3*")):
        if os.path.realpath(d) != os.path.realpath(std):
            roots.append(("usrlib", d))
    roots.append(("site", "/venv/lib/python3.12/site-packages"))
    return roots


def list_corpus(max_size):
    """[(origin, path, size)] sorted; each real file once."""
    seen = set()
    out = []
    too_big = 0
    std = os.path.realpath(corpus_roots()[0][1])
    for origin, root in corpus_roots():
        for dp, dn, fn in os.walk(root):
            dn.sort()
            if origin == "stdlib" and os.path.basename(dp) == "site-packages":
                dn[:] = []
                continue
            for name in sorted(fn):
                if not name.endswith(".py"):
                    continue
                p = os.path.join(dp, name)
                rp = os.path.realpath(p)
                if rp in seen:
                    continue
                seen.add(rp)
                try:
                    sz = os.path.getsize(p)
                except OSError:
                    continue
                if sz == 0:
                    continue
                if sz > max_size:
                    too_big += 1
                    continue
                out.append((origin, p, sz))
    out.sort(key=lambda t: t[1])
    return out, too_big
