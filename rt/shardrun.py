"""Child entry point: python -m rt.shardrun C07 spec.json out.json"""

import importlib
import json
import sys

from . import bootstrap


def main():
    prop, specf, outf = sys.argv[1:4]
    bootstrap.install()
    with open(specf) as f:
        spec = json.load(f)
    mod = importlib.import_module(f"checks.{prop.lower()}")
    if "replay" in spec:
        viols = mod.replay(spec["replay"])
        res = {"evaluations": 1, "violations": viols}
    else:
        res = mod.run_shard(spec)
    with open(outf, "w") as f:
        json.dump(res, f, default=str)


if __name__ == "__main__":
    main()
