"""C06 oracle: the specifier table parsed from docs/reference/specifiers.rst and a reference resolver
written from the numbered steps of the "Specifier Resolution" section of the same page.

Nothing here imports Scenic.
"""

import os
import re


def _clean_title(t):
    return re.sub(r"\s+", " ", t.replace("*", "")).strip()


def parse_table(repo):
    """-> {title: {"specifies": {prop: (priority, conditional)}, "modifies": set, "deps": set, "any_property": bool}}"""
    path = os.path.join(repo, "docs", "reference", "specifiers.rst")
    with open(path, encoding="utf-8") as f:
        lines = f.read().split("\n")
    # section = title line followed by a line of dashes of (at least) the same length
    heads = []
    for i in range(len(lines) - 1):
        if lines[i].strip() and re.fullmatch(r"-{3,}", lines[i + 1].strip()) and len(lines[i + 1].strip()) >= len(lines[i].strip()) - 2:
            heads.append(i)
    # stop at the next ==== section too
    table = {}
    for n, i in enumerate(heads):
        end = heads[n + 1] if n + 1 < len(heads) else len(lines)
        for j in range(i + 2, end):
            if re.fullmatch(r"={3,}", lines[j].strip()):
                end = j - 1
                break
        body = lines[i + 2 : end]
        text = "\n".join(body)
        if "**Specifies**" not in text:
            continue
        entry = {"specifies": {}, "modifies": set(), "deps": set(), "any_property": False, "adds_requirement": False}
        mode = None
        for ln in body:
            s = ln.strip()
            if s.startswith("**Specifies**"):
                mode = "spec"
                continue
            if s.startswith("**Dependencies**"):
                mode = None
                rest = s.split(":", 1)[1] if ":" in s else ""
                entry["deps"] = set(re.findall(r":prop:`(\w+)`", rest))
                continue
            if mode == "spec" and s.startswith("*"):
                m = re.search(r":prop:`(\w+)` with priority (\d+)", s)
                if m:
                    cond = "(if" in s
                    entry["specifies"][m.group(1)] = (int(m.group(2)), cond)
                    if "**modifies**" in s:
                        entry["modifies"].add(m.group(1))
                elif re.search(r"the given property, with priority (\d+)", s):
                    entry["any_property"] = int(re.search(r"priority (\d+)", s).group(1))
                elif "adds a requirement" in s:
                    entry["adds_requirement"] = True
                else:
                    entry.setdefault("unparsed", []).append(s)
            elif mode == "spec" and s and not s.startswith("*"):
                mode = None
        table[_clean_title(lines[i])] = entry
    return table


RESOLUTION_STEPS_EXPECTED = 5


def parse_resolution_steps(repo):
    path = os.path.join(repo, "docs", "reference", "specifiers.rst")
    with open(path, encoding="utf-8") as f:
        text = f.read()
    i = text.index("Specifier Resolution\n====")
    return re.findall(r"^(\d)\. (.*)$", text[i:], flags=re.M)


# ---------------------------------------------------------------------------------------------
# reference resolver


class SpecD:
    """Descriptor of one specifier of the set S."""

    def __init__(self, ident, specifies, deps=(), modifiable=()):
        self.ident = ident
        self.specifies = dict(specifies)  # prop -> priority (1 = highest)
        self.deps = set(deps)
        self.modifiable = set(modifiable)  # non-empty => modifying specifier

    def __repr__(self):
        return f"<{self.ident}>"


def resolve(specs, class_defaults, finals, skip_ambiguity=False):
    """Reference resolution.

    specs: list of SpecD (order irrelevant by construction: everything below works on sets / sorted keys)
    class_defaults: {prop: set(deps)} for the class (most-derived default already selected)
    finals: set of properties that may not be specified

    Returns ("ok", assignment, order_constraints) or ("error", {applicable error kinds}, first_kind)
      assignment: {prop: (specifier ident or "default", modifier ident or None)}
    """
    errors = []
    # documented before the steps: final (derived) properties cannot be specified
    for s in specs:
        for p in s.specifies:
            if p in finals:
                errors.append("final")
    # step 1: same property, same priority, several (non-modifying) specifiers -> ambiguity
    props = sorted({p for s in specs for p in s.specifies})
    for p in props:
        byprio = {}
        for s in specs:
            if p in s.specifies and p not in s.modifiable:
                byprio.setdefault(s.specifies[p], []).append(s)
        if any(len(v) > 1 for v in byprio.values()) and not skip_ambiguity:
            errors.append("ambiguity")
    # "no property can be modified twice"
    for p in props:
        if sum(1 for s in specs if p in s.modifiable and p in s.specifies) > 1:
            errors.append("modified-twice")
    # steps 2-3
    assignment = {}
    for p in props:
        normal = [s for s in specs if p in s.specifies and p not in s.modifiable]
        modif = [s for s in specs if p in s.specifies and p in s.modifiable]
        best = min(normal, key=lambda s: s.specifies[p]) if normal else None
        spec, mod = best, None
        for m in modif:
            if best is None or m.specifies[p] < best.specifies[p]:
                spec, mod = m, None  # acts as an ordinary specifier
            else:
                mod = m
        # a non-modifiable property of a modifying specifier takes part like a normal one
        assignment[p] = (spec, mod)
    for p in class_defaults:
        if p not in assignment:
            assignment[p] = ("default", None)
    # step 4: dependency graph
    nodes = {}

    def node_of(p):
        spec, mod = assignment[p]
        return mod if mod is not None else (("default", p) if spec == "default" else spec)

    def deps_of(node):
        if isinstance(node, tuple):
            return set(class_defaults[node[1]])
        return set(node.deps)

    graph = {}
    missing = False
    allnodes = set()
    for p in assignment:
        spec, mod = assignment[p]
        allnodes.add(("default", p) if spec == "default" else spec)
        if mod is not None:
            allnodes.add(mod)
    for s in specs:
        allnodes.add(s)
    for n in allnodes:
        out = set()
        for d in deps_of(n):
            if d not in assignment:
                missing = True
                continue
            out.add(node_of(d))
        # a modifying specifier needs the value it modifies
        if not isinstance(n, tuple):
            for p, (spec, mod) in assignment.items():
                if mod is n:
                    out.add(("default", p) if spec == "default" else spec)
        graph[n] = out
    if missing:
        errors.append("missing")
    # cycle detection
    state = {}

    def dfs(n):
        if state.get(n) == 2:
            return False
        if state.get(n) == 1:
            return True
        state[n] = 1
        for m in graph.get(n, ()):
            if dfs(m):
                return True
        state[n] = 2
        return False

    cyc = False
    for n in sorted(graph, key=repr):
        if dfs(n):
            cyc = True
            break
    if cyc:
        errors.append("cyclic")
    if errors:
        return ("error", set(errors), errors[0])
    return ("ok", {p: (a if a == "default" else a.ident, None if m is None else m.ident) for p, (a, m) in assignment.items()}, graph)


def resolve_without_step1(specs, class_defaults, finals):
    return resolve(specs, class_defaults, finals, skip_ambiguity=True)


def buggy_order_dependent_model(specs_in_order):
    """Outcome of a resolver that only detects a tie when the tied priority equals the best priority seen so
    far (the mechanism confirmed in Constructible._resolveSpecifiers); used only to *name* that defect."""
    best = {}
    for s in specs_in_order:
        if s.modifiable:
            continue
        for p, pr in s.specifies.items():
            if p in best:
                if pr == best[p]:
                    return "ambiguity"
                if pr < best[p]:
                    best[p] = pr
            else:
                best[p] = pr
    return "ok"
