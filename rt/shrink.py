"""Greedy structural shrinker for dynmodel ASTs (used to minimise witnesses)."""
import copy


def _variants_block(stmts):
    """yield smaller versions of a statement list"""
    for i in range(len(stmts)):
        yield stmts[:i] + stmts[i + 1 :]
    for i, st in enumerate(stmts):
        k = st[0]
        if k == "loop":
            yield stmts[:i] + st[2] + stmts[i + 1 :]
            for b in _variants_block(st[2]):
                yield stmts[:i] + [["loop", st[1], b]] + stmts[i + 1 :]
            if st[1] > 1:
                yield stmts[:i] + [["loop", st[1] - 1, st[2]]] + stmts[i + 1 :]
        elif k == "forever":
            for b in _variants_block(st[1]):
                yield stmts[:i] + [["forever", b]] + stmts[i + 1 :]
        elif k == "try":
            yield stmts[:i] + st[1] + stmts[i + 1 :]
            for b in _variants_block(st[1]):
                if b:
                    yield stmts[:i] + [["try", b, st[2]]] + stmts[i + 1 :]
            if len(st[2]) > 1:
                for j in range(len(st[2])):
                    yield stmts[:i] + [["try", st[1], st[2][:j] + st[2][j + 1 :]]] + stmts[i + 1 :]
            for j, (c, h) in enumerate(st[2]):
                for hb in _variants_block(h):
                    if hb:
                        yield stmts[:i] + [["try", st[1], st[2][:j] + [[c, hb]] + st[2][j + 1 :]]] + stmts[i + 1 :]
        elif k in ("dofor", "dountil"):
            yield stmts[:i] + [["do", st[1], st[2]]] + stmts[i + 1 :]


def variants(prog):
    for name, d in prog["behaviors"].items():
        for b in _variants_block(d["body"]):
            if not b:
                continue
            p = copy.deepcopy(prog)
            p["behaviors"][name]["body"] = copy.deepcopy(b)
            yield p
        for g in ("pre", "inv"):
            if d.get(g):
                p = copy.deepcopy(prog)
                del p["behaviors"][name][g]
                yield p
    # drop unused sub-behaviours
    used = set()

    def walk(stmts):
        for st in stmts:
            if st[0] in ("do", "dofor", "dountil"):
                used.add(st[2])
            elif st[0] == "loop":
                walk(st[2])
            elif st[0] == "forever":
                walk(st[1])
            elif st[0] == "try":
                walk(st[1])
                for _, h in st[2]:
                    walk(h)

    for d in prog["behaviors"].values():
        walk(d["body"])
    for name in list(prog["behaviors"]):
        if name != "Main" and name not in used:
            p = copy.deepcopy(prog)
            del p["behaviors"][name]
            yield p


def shrink(prog, still_fails, budget=120):
    cur = prog
    n = 0
    progress = True
    while progress and n < budget:
        progress = False
        for v in variants(cur):
            n += 1
            if n > budget:
                break
            try:
                if still_fails(v):
                    cur = v
                    progress = True
                    break
            except Exception:
                continue
    return cur


def variants12(prog):
    """smaller versions of a C12 program (dynmodel scenario-level AST)"""
    for sec in ("behaviors", "monitors"):
        for name, d in prog.get(sec, {}).items():
            for b in _variants_block(d["body"]):
                if not b:
                    continue
                p = copy.deepcopy(prog)
                p[sec][name]["body"] = copy.deepcopy(b)
                yield p
    for name, d in prog["scenarios"].items():
        su = d.get("setup", [])
        for i in range(len(su)):
            if su[i][0] == "agent" and name == "Main" and sum(1 for x in su if x[0] == "agent") == 1:
                continue
            p = copy.deepcopy(prog)
            del p["scenarios"][name]["setup"][i]
            yield p
        if d.get("compose"):
            for b in _variants_block(d["compose"]):
                if not b:
                    continue
                p = copy.deepcopy(prog)
                p["scenarios"][name]["compose"] = copy.deepcopy(b)
                yield p
            for i, st in enumerate(d["compose"]):
                if st[0] in ("dosc", "doscfor", "doscuntil") and len(st[2]) > 1:
                    for j in range(len(st[2])):
                        p = copy.deepcopy(prog)
                        p["scenarios"][name]["compose"][i][2] = st[2][:j] + st[2][j + 1 :]
                        yield p
                if st[0] in ("doscfor", "doscuntil"):
                    p = copy.deepcopy(prog)
                    p["scenarios"][name]["compose"][i] = ["dosc", st[1], st[2]]
                    yield p
    if prog["maxSteps"] > 2:
        p = copy.deepcopy(prog)
        p["maxSteps"] -= 1
        yield p


def shrink_with(prog, variants_fn, still_fails, budget=200):
    cur = prog
    n = 0
    progress = True
    while progress and n < budget:
        progress = False
        for v in variants_fn(cur):
            n += 1
            if n > budget:
                break
            try:
                if still_fails(v):
                    cur = v
                    progress = True
                    break
            except Exception:
                continue
    return cur
