"""Executable reference model of Scenic's documented dynamic semantics (behaviors, try-interrupt, guards,
durations, termination, scenario steps), plus a printer from the same AST to Scenic source.

Written from docs/reference/dynamic_scenarios.rst ("Execution of Dynamic Scenarios") and
docs/reference/statements.rst (behaviors, try-interrupt, dynamic statements) - NOT from the implementation.
Where the reference leaves an order unspecified the choice made here is listed in CALIBRATED below.

AST (JSON-able lists):
 statements (behaviour / monitor / compose bodies):
   ["take", id]                 log ('take', id) then take action id
   ["wait", id]                 log ('wait', id) then wait
   ["log", id]
   ["waitfor", id, n, unit]     unit: "steps" | "seconds"
   ["waituntil", id, cond]
   ["do", id, name]             sub-behaviour (in compose blocks: list of scenario names run in parallel)
   ["dofor", id, name, n, unit]
   ["dountil", id, name, cond]
   ["terminate", id] ["terminatesim", id]
   ["require", id, cond]
   ["loop", k, body]            for _i in range(k)
   ["forever", body]            while True
   ["try", body, [[cond, handler_body], ...]]
   ["abort"] ["break"] ["continue"] ["return"]
 conditions:  ["tab", i] (scripted truth table at the current step) | ["t>=", k] | ["not", c] | ["true"] | ["false"]
              | ["rejtab", i]  (raises a rejection inside the guard when table i is False, else True)
"""

CALIBRATED = [
    "`terminate when` conditions of a scenario are checked after its compose block ran in the same step",
    "`terminate` executed by a behaviour whose scenario is the top-level one ends the simulation at once (no further agents run in that step)",
    "a sub-scenario started by `do` executes its first step in the same time step",
]


class Reject(Exception):
    pass


class Guard(Exception):
    def __init__(self, kind):
        self.kind = kind


class EndScenario:
    def __init__(self, scen=None):
        self.scen = scen


class EndSimulation:
    pass


# ------------------------------------------------------------------------------------------- conditions


def cond_src(c):
    k = c[0]
    if k == "tab":
        return f"V.a({c[1]})"
    if k == "rejtab":
        return f"V.rej({c[1]})"
    if k == "t>=":
        return f"(V.now() >= {c[1]})"
    if k == "not":
        return f"(not {cond_src(c[1])})"
    if k == "true":
        return "True"
    if k == "false":
        return "False"
    raise ValueError(c)


class World:
    """model-side clock, truth table, log"""

    def __init__(self, table, timestep=1):
        self.t = 0
        self.table = table
        self.timestep = timestep
        self.log = []

    def ev(self, kind, ident=None):
        self.log.append((kind, ident, self.t))

    def cond(self, c):
        k = c[0]
        if k == "tab":
            row = self.table[c[1]]
            return bool(row[self.t]) if self.t < len(row) else False
        if k == "rejtab":
            row = self.table[c[1]]
            if not (row[self.t] if self.t < len(row) else False):
                raise Reject("rejection inside guard")
            return True
        if k == "t>=":
            return self.t >= c[1]
        if k == "not":
            return not self.cond(c[1])
        if k == "true":
            return True
        if k == "false":
            return False
        raise ValueError(c)

    def steps_of(self, n, unit):
        """number of whole steps a duration lasts"""
        import math

        if unit == "steps":
            x = n
        else:
            x = n / self.timestep
        return x  # compared as elapsed >= x


# ------------------------------------------------------------------------------------------- behaviours


class BehaviorModel:
    """One invocation of a behaviour (or monitor / compose block) as a coroutine.

    Generator protocol: yields an action tuple (possibly empty) / EndScenario / EndSimulation each time the
    invocable suspends until the next time step.
    """

    def __init__(self, world, defs, name, kind="behavior", scen=None):
        self.w = world
        self.defs = defs
        self.name = name
        self.d = defs[name]
        self.kind = kind
        self.scen = scen

    # guards -------------------------------------------------------------------------------------------
    def check_pre(self):
        for c in self.d.get("pre", []):
            try:
                ok = self.w.cond(c)
            except Reject:
                raise Guard("precondition")
            if not ok:
                raise Guard("precondition")

    def check_inv(self):
        for c in self.d.get("inv", []):
            try:
                ok = self.w.cond(c)
            except Reject:
                raise Guard("invariant")
            if not ok:
                raise Guard("invariant")

    def start(self):
        """preconditions and invariants are checked when the behaviour starts"""
        self.check_pre()
        self.check_inv()
        return self.block(self.d["body"])

    # statements ---------------------------------------------------------------------------------------
    def suspend(self, action):
        # internal protocol: (action, behaviour whose own statement suspended)
        yield (action, self)
        # resumed after the simulation advanced one step: invariants are checked again
        self.check_inv()

    def block(self, stmts):
        for st in stmts:
            r = yield from self.stmt(st)
            if r is not None:
                return r
        return None

    def stmt(self, st):
        k = st[0]
        w = self.w
        if k == "take":
            w.ev("take", st[1])
            yield from self.suspend((st[1],))
        elif k == "wait":
            w.ev("wait", st[1])
            yield from self.suspend(())
        elif k == "log":
            w.ev("log", st[1])
        elif k == "require":
            w.ev("require", st[1])
            if not w.cond(st[2]):
                raise Reject("require")
        elif k == "terminate":
            w.ev("terminate", st[1])
            yield from self.suspend(EndScenario(self.scen))
        elif k == "terminatesim":
            w.ev("terminatesim", st[1])
            yield from self.suspend(EndSimulation())
        elif k == "waitfor":
            w.ev("waitfor", st[1])
            limit = w.steps_of(st[2], st[3])
            t0 = w.t
            # take no actions until `limit` steps have elapsed
            while not (w.t - t0 >= limit):
                yield from self.suspend(())
        elif k == "waituntil":
            w.ev("waituntil", st[1])
            while not w.cond(st[2]):
                yield from self.suspend(())
        elif k in ("do", "dofor", "dountil"):
            w.ev(k, st[1])
            if k == "do":
                stop = lambda: False
            elif k == "dofor":
                limit = w.steps_of(st[3], st[4])
                t0 = w.t
                stop = lambda: w.t - t0 >= limit
            else:
                c = st[3]
                stop = lambda: w.cond(c)
            yield from self.run_sub(st[2], stop)
            # parent resumes after the sub-behaviour finished: its invariants are checked
            self.check_inv()
        elif k == "loop":
            for _ in range(st[1]):
                r = yield from self.block(st[2])
                if r == "break":
                    break
                if r == "continue":
                    continue
                if r is not None:
                    return r
        elif k == "forever":
            while True:
                r = yield from self.block(st[1])
                if r == "break":
                    break
                if r == "continue":
                    continue
                if r is not None:
                    return r
        elif k == "try":
            r = yield from self.try_interrupt(st[1], st[2])
            if r in ("break", "continue", "return"):
                return r
        elif k in ("abort", "break", "continue", "return"):
            return k
        else:
            raise ValueError(st)
        return None

    def run_sub(self, name, stop):
        """run sub-behaviour `name` until it finishes or stop() holds (checked before every step incl. the first)"""
        if stop():
            return
        sub = BehaviorModel(self.w, self.defs, name, self.kind, self.scen)
        gen = sub.start()
        while True:
            try:
                a = next(gen)
            except StopIteration:
                return
            yield a  # (action, owner) passes through: the parent's invariants are NOT checked while the sub-behaviour runs
            if stop():
                gen.close()
                return

    def try_interrupt(self, body, handlers):
        """documented semantics: at every time step the enabled (or already running) handler whose clause comes
        latest runs; a finished handler returns control (re-deciding in the same step); `abort` ends the
        statement; break/continue/return propagate."""
        gens = {}

        def get(i):
            if i not in gens:
                gens[i] = self.block(body if i == "body" else handlers[i][1])
            return gens[i]

        while True:
            chosen = "body"
            for i in reversed(range(len(handlers))):
                if i in gens or self.w.cond(handlers[i][0]):
                    chosen = i
                    break
            g = get(chosen)
            try:
                a = next(g)
            except StopIteration as e:
                r = e.value
                gens.pop(chosen, None)
                if r is None and chosen != "body":
                    continue  # handler finished: decide again in the same step
                for other in gens.values():
                    other.close()
                if r == "abort":
                    return None
                return r
            yield a
            # the behaviour is resumed: if it was its own statement that suspended (not a sub-behaviour's),
            # its invariants are checked first, before the interrupt conditions are looked at again
            if a[1] is self:
                self.check_inv()


# ------------------------------------------------------------------------------------------- source text


def stmts_src(stmts, ind, sub_call=lambda n: f"{n}()"):
    out = []
    for st in stmts:
        k = st[0]
        if k == "take":
            out += [f"{ind}V.ev('take', {st[1]})", f"{ind}take {st[1]}"]
        elif k == "wait":
            out += [f"{ind}V.ev('wait', {st[1]})", f"{ind}wait"]
        elif k == "log":
            out += [f"{ind}V.ev('log', {st[1]})"]
        elif k == "require":
            out += [f"{ind}V.ev('require', {st[1]})", f"{ind}require {cond_src(st[2])}"]
        elif k == "terminate":
            out += [f"{ind}V.ev('terminate', {st[1]})", f"{ind}terminate"]
        elif k == "terminatesim":
            out += [f"{ind}V.ev('terminatesim', {st[1]})", f"{ind}terminate simulation"]
        elif k == "waitfor":
            out += [f"{ind}V.ev('waitfor', {st[1]})", f"{ind}wait for {st[2]!r} {st[3]}"]
        elif k == "waituntil":
            out += [f"{ind}V.ev('waituntil', {st[1]})", f"{ind}wait until {cond_src(st[2])}"]
        elif k == "do":
            out += [f"{ind}V.ev('do', {st[1]})", f"{ind}do {sub_call(st[2])}"]
        elif k == "dofor":
            out += [f"{ind}V.ev('dofor', {st[1]})", f"{ind}do {sub_call(st[2])} for {st[3]!r} {st[4]}"]
        elif k == "dountil":
            out += [f"{ind}V.ev('dountil', {st[1]})", f"{ind}do {sub_call(st[2])} until {cond_src(st[3])}"]
        elif k == "loop":
            out += [f"{ind}for _i in range({st[1]}):"] + stmts_src(st[2], ind + "    ", sub_call)
        elif k == "forever":
            out += [f"{ind}while True:"] + stmts_src(st[1], ind + "    ", sub_call)
        elif k == "try":
            out += [f"{ind}try:"] + stmts_src(st[1], ind + "    ", sub_call)
            for c, h in st[2]:
                out += [f"{ind}interrupt when {cond_src(c)}:"] + stmts_src(h, ind + "    ", sub_call)
        elif k in ("abort", "break", "continue", "return"):
            out += [f"{ind}{k}"]
        else:
            raise ValueError(st)
    return out


def invocable_src(kind, name, d):
    lines = [f"{kind} {name}():"]
    for c in d.get("pre", []):
        lines.append(f"    precondition: {cond_src(c)}")
    for c in d.get("inv", []):
        lines.append(f"    invariant: {cond_src(c)}")
    lines += stmts_src(d["body"], "    ")
    return lines
