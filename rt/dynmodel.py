"""Executable reference model of Scenic's documented dynamic semantics (behaviors, try-interrupt, guards,
durations, termination, scenario steps), plus a printer from the same AST to Scenic source.

Written from docs/reference/dynamic_scenarios.rst ("Execution of Dynamic Scenarios") and
docs/reference/statements.rst (behaviors, try-interrupt, dynamic statements) - NOT from the implementation.
Where the reference leaves an order unspecified the choice made here is listed in CALIBRATED below.

AST (JSON-able lists):
 statements (behaviour / monitor / compose bodies):
   ["take", id]                 log ('take', id) then take action id
   ["wait", id]                 log ('wait', id) then wait
   ["log", id]
   ["waitfor", id, n, unit]     unit: "steps" | "seconds"
   ["waituntil", id, cond]
   ["do", id, name]             sub-behaviour (in compose blocks: list of scenario names run in parallel)
   ["dofor", id, name, n, unit]
   ["dountil", id, name, cond]
   ["terminate", id] ["terminatesim", id]
   ["require", id, cond]
   ["loop", k, body]            for _i in range(k)
   ["forever", body]            while True
   ["try", body, [[cond, handler_body], ...]]
   ["abort"] ["break"] ["continue"] ["return"]
 conditions:  ["tab", i] (scripted truth table at the current step) | ["t>=", k] | ["not", c] | ["true"] | ["false"]
              | ["rejtab", i]  (raises a rejection inside the guard when table i is False, else True)
"""

CALIBRATED = [
    "invariants are also checked when a `wait for` / `wait until` / `do .. until` statement completes without having suspended (zero duration)",
    "UNSPECIFIED (tolerated either way): whether record statements of a sub-scenario are still evaluated in the step in which it was stopped",
    "`terminate when` conditions of a scenario are checked after its compose block ran in the same step",
    "`terminate` executed by a behaviour whose scenario is the top-level one ends the simulation at once (no further agents run in that step)",
    "a sub-scenario started by `do` executes its first step in the same time step",
]


class Reject(Exception):
    pass


class Guard(Exception):
    def __init__(self, kind):
        self.kind = kind


class EndScenario:
    def __init__(self, scen=None):
        self.scen = scen


class EndSimulation:
    pass


# ------------------------------------------------------------------------------------------- conditions


def cond_src(c):
    k = c[0]
    if k == "tab":
        return f"V.a({c[1]})"
    if k == "rejtab":
        return f"V.rej({c[1]})"
    if k == "t>=":
        return f"(V.now() >= {c[1]})"
    if k == "not":
        return f"(not {cond_src(c[1])})"
    if k == "true":
        return "True"
    if k == "false":
        return "False"
    raise ValueError(c)


class World:
    """model-side clock, truth table, log"""

    def __init__(self, table, timestep=1):
        self.t = 0
        self.table = table
        self.timestep = timestep
        self.log = []

    def ev(self, kind, ident=None):
        self.log.append((kind, ident, self.t))

    def cond(self, c):
        k = c[0]
        if k == "tab":
            row = self.table[c[1]]
            return bool(row[self.t]) if self.t < len(row) else False
        if k == "rejtab":
            row = self.table[c[1]]
            if not (row[self.t] if self.t < len(row) else False):
                raise Reject("rejection inside guard")
            return True
        if k == "t>=":
            return self.t >= c[1]
        if k == "not":
            return not self.cond(c[1])
        if k == "true":
            return True
        if k == "false":
            return False
        raise ValueError(c)

    def steps_of(self, n, unit):
        """number of whole steps a duration lasts"""
        import math

        if unit == "steps":
            x = n
        else:
            x = n / self.timestep
        return x  # compared as elapsed >= x


# ------------------------------------------------------------------------------------------- behaviours


class BehaviorModel:
    """One invocation of a behaviour (or monitor / compose block) as a coroutine.

    Generator protocol: yields an action tuple (possibly empty) / EndScenario / EndSimulation each time the
    invocable suspends until the next time step.
    """

    def __init__(self, world, defs, name, kind="behavior", scen=None):
        self.w = world
        self.defs = defs
        self.name = name
        self.d = defs[name]
        self.kind = kind
        self.scen = scen

    # guards -------------------------------------------------------------------------------------------
    def check_pre(self):
        for c in self.d.get("pre", []):
            try:
                ok = self.w.cond(c)
            except Reject:
                raise Guard("precondition")
            if not ok:
                raise Guard("precondition")

    def check_inv(self):
        for c in self.d.get("inv", []):
            try:
                ok = self.w.cond(c)
            except Reject:
                raise Guard("invariant")
            if not ok:
                raise Guard("invariant")

    def start(self):
        """preconditions and invariants are checked when the behaviour starts"""
        self.check_pre()
        self.check_inv()
        return self.block(self.d["body"])

    # statements ---------------------------------------------------------------------------------------
    def suspend(self, action):
        # internal protocol: (action, behaviour whose own statement suspended)
        yield (action, self)
        # resumed after the simulation advanced one step: invariants are checked again
        self.check_inv()

    def block(self, stmts):
        for st in stmts:
            r = yield from self.stmt(st)
            if r is not None:
                return r
        return None

    def stmt(self, st):
        k = st[0]
        w = self.w
        if k == "take":
            w.ev("take", st[1])
            yield from self.suspend((st[1],))
        elif k == "wait":
            w.ev("wait", st[1])
            yield from self.suspend(())
        elif k == "log":
            w.ev("log", st[1])
        elif k == "require":
            w.ev("require", st[1])
            if not w.cond(st[2]):
                raise Reject("require")
        elif k == "terminate":
            w.ev("terminate", st[1])
            yield from self.suspend(EndScenario(self.scen))
        elif k == "terminatesim":
            w.ev("terminatesim", st[1])
            yield from self.suspend(EndSimulation())
        elif k == "waitfor":
            w.ev("waitfor", st[1])
            limit = w.steps_of(st[2], st[3])
            t0 = w.t
            # take no actions until `limit` steps have elapsed
            while not (w.t - t0 >= limit):
                yield from self.suspend(())
            self.check_inv()  # calibrated: also when the statement completes without suspending
        elif k == "waituntil":
            w.ev("waituntil", st[1])
            while not w.cond(st[2]):
                yield from self.suspend(())
            self.check_inv()  # calibrated: also when the statement completes without suspending
        elif k in ("do", "dofor", "dountil"):
            w.ev(k, st[1])
            if k == "do":
                stop = lambda: False
            elif k == "dofor":
                limit = w.steps_of(st[3], st[4])
                t0 = w.t
                stop = lambda: w.t - t0 >= limit
            else:
                c = st[3]
                stop = lambda: w.cond(c)
            yield from self.run_sub(st[2], stop)
            # parent resumes after the sub-behaviour finished: its invariants are checked
            self.check_inv()
        elif k == "loop":
            for _ in range(st[1]):
                r = yield from self.block(st[2])
                if r == "break":
                    break
                if r == "continue":
                    continue
                if r is not None:
                    return r
        elif k == "forever":
            while True:
                r = yield from self.block(st[1])
                if r == "break":
                    break
                if r == "continue":
                    continue
                if r is not None:
                    return r
        elif k == "try":
            r = yield from self.try_interrupt(st[1], st[2])
            if r in ("break", "continue", "return"):
                return r
        elif k in ("abort", "break", "continue", "return"):
            return k
        else:
            raise ValueError(st)
        return None

    def run_sub(self, name, stop):
        """run sub-behaviour `name` until it finishes or stop() holds (checked before every step incl. the first)"""
        if stop():
            return
        sub = BehaviorModel(self.w, self.defs, name, self.kind, self.scen)
        gen = sub.start()
        while True:
            try:
                a = next(gen)
            except StopIteration:
                return
            yield a  # (action, owner) passes through: the parent's invariants are NOT checked while the sub-behaviour runs
            if stop():
                gen.close()
                return

    def try_interrupt(self, body, handlers):
        """documented semantics: at every time step the enabled (or already running) handler whose clause comes
        latest runs; a finished handler returns control (re-deciding in the same step); `abort` ends the
        statement; break/continue/return propagate."""
        gens = {}

        def get(i):
            if i not in gens:
                gens[i] = self.block(body if i == "body" else handlers[i][1])
            return gens[i]

        while True:
            chosen = "body"
            for i in reversed(range(len(handlers))):
                if i in gens or self.w.cond(handlers[i][0]):
                    chosen = i
                    break
            g = get(chosen)
            try:
                a = next(g)
            except StopIteration as e:
                r = e.value
                gens.pop(chosen, None)
                if r is None and chosen != "body":
                    continue  # handler finished: decide again in the same step
                for other in gens.values():
                    other.close()
                if r == "abort":
                    return None
                return r
            yield a
            # the behaviour is resumed: if it was its own statement that suspended (not a sub-behaviour's),
            # its invariants are checked first, before the interrupt conditions are looked at again
            if a[1] is self:
                self.check_inv()


# ------------------------------------------------------------------------------------------- source text


def stmts_src(stmts, ind, sub_call=lambda n: f"{n}()"):
    out = []
    for st in stmts:
        k = st[0]
        if k == "take":
            out += [f"{ind}V.ev('take', {st[1]})", f"{ind}take {st[1]}"]
        elif k == "wait":
            out += [f"{ind}V.ev('wait', {st[1]})", f"{ind}wait"]
        elif k == "log":
            out += [f"{ind}V.ev('log', {st[1]})"]
        elif k == "require":
            out += [f"{ind}V.ev('require', {st[1]})", f"{ind}require {cond_src(st[2])}"]
        elif k == "terminate":
            out += [f"{ind}V.ev('terminate', {st[1]})", f"{ind}terminate"]
        elif k == "terminatesim":
            out += [f"{ind}V.ev('terminatesim', {st[1]})", f"{ind}terminate simulation"]
        elif k == "waitfor":
            out += [f"{ind}V.ev('waitfor', {st[1]})", f"{ind}wait for {st[2]!r} {st[3]}"]
        elif k == "waituntil":
            out += [f"{ind}V.ev('waituntil', {st[1]})", f"{ind}wait until {cond_src(st[2])}"]
        elif k == "do":
            out += [f"{ind}V.ev('do', {st[1]})", f"{ind}do {sub_call(st[2])}"]
        elif k == "dofor":
            out += [f"{ind}V.ev('dofor', {st[1]})", f"{ind}do {sub_call(st[2])} for {st[3]!r} {st[4]}"]
        elif k == "dountil":
            out += [f"{ind}V.ev('dountil', {st[1]})", f"{ind}do {sub_call(st[2])} until {cond_src(st[3])}"]
        elif k == "loop":
            out += [f"{ind}for _i in range({st[1]}):"] + stmts_src(st[2], ind + "    ", sub_call)
        elif k == "forever":
            out += [f"{ind}while True:"] + stmts_src(st[1], ind + "    ", sub_call)
        elif k == "try":
            out += [f"{ind}try:"] + stmts_src(st[1], ind + "    ", sub_call)
            for c, h in st[2]:
                out += [f"{ind}interrupt when {cond_src(c)}:"] + stmts_src(h, ind + "    ", sub_call)
        elif k in ("abort", "break", "continue", "return"):
            out += [f"{ind}{k}"]
        else:
            raise ValueError(st)
    return out


def invocable_src(kind, name, d):
    lines = [f"{kind} {name}():"]
    for c in d.get("pre", []):
        lines.append(f"    precondition: {cond_src(c)}")
    for c in d.get("inv", []):
        lines.append(f"    invariant: {cond_src(c)}")
    lines += stmts_src(d["body"], "    ")
    return lines


# ------------------------------------------------------------------------------------------- scenarios (C12)
# program = {"timestep": dt, "maxSteps": N, "form": "toplevel"|"modular",
#            "behaviors": {...}, "monitors": {name: {"body": [...]}},
#            "scenarios": {name: {"pre": [], "inv": [], "setup": [...], "compose": [...]|None}}}
# the top-level scenario is scenarios["Main"] (for form "toplevel" it has no compose block and its setup
# statements are printed at module level).
# setup statements: ["agent", name, behaviour] ["terminate_after", n, unit] ["terminate_when", cond]
#   ["terminate_sim_when", cond] ["require_monitor", monitor] ["record", id] ["record_initial", id] ["record_final", id]
# extra compose statements: ["dosc", id, [names]] ["doscfor", id, [names], n, unit] ["doscuntil", id, [names], cond]


class ScenModel:
    def __init__(self, sim, name, parent=None):
        self.sim = sim
        self.w = sim.w
        self.name = name
        self.d = sim.prog["scenarios"][name]
        self.parent = parent
        self.running = False
        self.stopped_at = None
        self.subs = []
        self.all_subs = []
        self.monitors = []
        self.agents = []
        self.limit = None
        self.elapsed = 0
        self.termconds = []
        self.simtermconds = []
        self.records = []
        self.records_initial = []
        self.records_final = []
        self.compose = None

    def guards(self):
        b = BehaviorModel(self.w, {self.name: {"pre": self.d.get("pre", []), "inv": self.d.get("inv", []), "body": []}}, self.name)
        b.check_pre()
        b.check_inv()

    def guards_inv(self):
        b = BehaviorModel(self.w, {self.name: {"inv": self.d.get("inv", []), "body": []}}, self.name)
        b.check_inv()

    def prepare(self):
        """run the setup block"""
        self.guards()
        for st in self.d.get("setup", []):
            k = st[0]
            if k == "agent":
                self.agents.append((st[1], st[2]))
            elif k == "terminate_after":
                self.limit = (st[1], st[2])
            elif k == "terminate_when":
                self.termconds.append(st[1])
            elif k == "terminate_sim_when":
                self.simtermconds.append(st[1])
            elif k == "require_monitor":
                self.monitors.append(st[1])
            elif k == "record":
                self.records.append(st[1])
            elif k == "record_initial":
                self.records_initial.append(st[1])
            elif k == "record_final":
                self.records_final.append(st[1])
            else:
                raise ValueError(st)

    def start(self):
        self.running = True
        self.elapsed = 0
        if self.limit is not None:
            self.limit_steps = self.w.steps_of(*self.limit)
        else:
            self.limit_steps = None
        if self.d.get("compose") is not None:
            defs = {self.name: {"body": self.d["compose"], "inv": self.d.get("inv", [])}}
            bm = ComposeModel(self.w, defs, self.name, "compose", self)
            bm.sim = self.sim
            self.compose = bm.block(self.d["compose"])
        # behaviours of this scenario's agents start (preconditions checked), then its monitors
        for aname, bname in self.agents:
            bm = BehaviorModel(self.w, self.sim.prog["behaviors"], bname, "behavior", self)
            self.sim.agents.append({"name": aname, "gen": bm.start(), "finished": False, "scen": self})
        mons = []
        for m in self.monitors:
            bm = BehaviorModel(self.w, self.sim.prog["monitors"], m, "monitor", None)
            mons.append({"gen": bm.start(), "finished": False})
        self.monitors = mons

    def step(self):
        """one time step of this scenario; returns None or a termination reason"""
        if self.limit_steps is not None and self.elapsed >= self.limit_steps:
            return self.stop("time limit")
        self.elapsed += 1
        if self.compose is None and not self.subs and self.d.get("inv"):
            # (1c) a scenario that is not running a sub-scenario has its invariants checked every step
            # (with a compose block this happens when the block is resumed)
            self.guards_inv()
        if self.compose is not None:
            try:
                a = next(self.compose)[0]
            except StopIteration:
                self.compose = None
                return self.stop("finished compose block")
            if isinstance(a, (EndSimulation, EndScenario)):
                return self.stop(a)
        for c in self.termconds:
            if self.w.cond(c):
                return self.stop("terminate when")
        return None

    def stop(self, reason):
        assert self.running
        self.running = False
        self.stopped_at = self.w.t
        for s in self.subs:
            if s.running:
                s.stop("parent scenario ending")
        self.monitors = []
        if self.compose is not None:
            self.compose.close()
            self.compose = None
        return reason

    def record_now(self, kind, optional=False):
        """kind: 'initial' | 'series' — evaluated for this scenario, then for its sub-scenarios.
        Whether a sub-scenario that was stopped during this very step is still recorded is not specified by the
        reference: such evaluations are emitted as optional events ('rec?')."""
        ev = "rec?" if optional else "rec"
        if kind == "initial":
            for r in self.records_initial:
                self.w.ev(ev, r)
                if not optional:
                    self.sim.records[f"r{r}"] = self.w.t
        else:
            for r in self.records:
                self.w.ev(ev, r)
                if optional:
                    self.sim.optional_records.add((f"r{r}", self.w.t))
                else:
                    self.sim.records.setdefault(f"r{r}", []).append((self.w.t, self.w.t))
        for s in self.all_subs:
            if s.running:
                s.record_now(kind, optional)
            elif s.stopped_at == self.w.t:
                s.record_now(kind, True)

    def run_monitors(self):
        """returns EndSimulation if a monitor (here or below) ended the simulation, the EndScenario marker if a
        monitor of THIS scenario terminated it, else None.  `terminate` in a monitor of a sub-scenario only
        stops that sub-scenario."""
        reason = None
        end = None
        for m in list(self.monitors):
            if m["finished"]:
                continue
            try:
                a = next(m["gen"])[0]
            except StopIteration:
                m["finished"] = True
                continue
            if isinstance(a, EndSimulation):
                reason = a
            elif isinstance(a, EndScenario):
                end = a
        for s in list(self.subs):
            if s.running:
                r = s.run_monitors()
                if isinstance(r, EndSimulation):
                    reason = r
        if end is not None and self.running:
            self.stop(end)
        return reason or end


class ComposeModel(BehaviorModel):
    """compose block: the behaviour statements plus invocation of sub-scenarios"""

    def stmt(self, st):
        k = st[0]
        if k in ("dosc", "doscfor", "doscuntil"):
            w = self.w
            w.ev(k, st[1])
            if k == "dosc":
                stop = lambda: False
            elif k == "doscfor":
                limit = w.steps_of(st[3], st[4])
                t0 = w.t
                stop = lambda: w.t - t0 >= limit
            else:
                c = st[3]
                stop = lambda: w.cond(c)
            if stop():
                return None
            subs = [ScenModel(self.sim, n, self.scen) for n in st[2]]
            for s in subs:
                s.prepare()
                s.start()
            self.scen.subs = subs
            self.scen.all_subs = self.scen.all_subs + subs
            try:
                while True:
                    new = []
                    for s in self.scen.subs:
                        r = s.step()
                        if isinstance(r, EndSimulation):
                            yield (r, None)
                        elif r is None:
                            new.append(s)
                    self.scen.subs = new
                    if not new:
                        break
                    yield ((), None)
                    if stop():
                        break
                    self.scen.subs = [s for s in self.scen.subs if s.running]
            finally:
                for s in self.scen.subs:
                    if s.running:
                        s.stop("do ended")
                self.scen.subs = []
            self.check_inv()
            return None
        if k == "terminate":
            self.w.ev("terminate", st[1])
            yield (EndScenario(self.scen), self)
            return None
        return (yield from super().stmt(st))


class SimModel:
    """the ten documented steps"""

    def __init__(self, prog, table, schedule=None):
        self.prog = prog
        self.w = World(table, prog.get("timestep", 1))
        self.agents = []
        self.records = {}
        self.optional_records = set()
        self.schedule = schedule  # function(step, n_agents) -> permutation of range(n)

    def run(self):
        w = self.w
        prog = self.prog
        maxSteps = prog["maxSteps"]
        actions = []
        top = ScenModel(self, "Main")
        try:
            top.prepare()
            top.start()
            w.ev("update", None)
            term = None
            while True:
                reason = top.step()
                ttype = "scenarioComplete"
                if w.t == 0:
                    top.record_now("initial")
                top.record_now("series")
                r2 = top.run_monitors()
                if r2 is not None:
                    reason = r2
                    ttype = "terminatedByMonitor"
                if reason is not None:
                    term = ttype
                    break
                if any(w.cond(c) for c in top.simtermconds):
                    term = "simulationTerminationCondition"
                    break
                if maxSteps and w.t >= maxSteps:
                    term = "timeLimit"
                    break
                order = list(range(len(self.agents)))
                if self.schedule:
                    order = self.schedule(w.t, len(order))
                step_actions = {}
                ended = None
                for i in order:
                    ag = self.agents[i]
                    a = ()
                    if not ag["finished"]:
                        try:
                            a = next(ag["gen"])[0]
                        except StopIteration:
                            ag["finished"] = True
                            a = ()
                    if isinstance(a, EndSimulation):
                        ended = "terminatedByBehavior"
                        break
                    if isinstance(a, EndScenario):
                        scen = ag["scen"]
                        if scen.running:
                            scen.stop(a)
                        if scen is top:
                            ended = "terminatedByBehavior"
                            break
                        a = ()
                    step_actions[ag["name"]] = tuple(a)
                if ended:
                    term = ended
                    break
                actions.append(step_actions)
                w.ev("exec", tuple(sorted((k, v) for k, v in step_actions.items() if v)))
                w.ev("simstep", None)
                w.t += 1
                w.ev("update", None)
            # step 10
            if top.running:
                top.stop("simulation terminated")
            for r in top.records_final:
                w.ev("rec", r)
                self.records[f"r{r}"] = w.t
        except Reject:
            return {"outcome": "reject", "log": w.log}
        except Guard as g:
            return {"outcome": "reject", "guard": g.kind, "log": w.log}
        return {"outcome": "ok", "term": term, "actions": actions, "steps": w.t, "records": self.records, "optional_records": sorted(self.optional_records), "log": w.log}


def program_src(prog):
    lines = ["import verif_script as V"]
    for n, d in prog.get("behaviors", {}).items():
        lines += invocable_src("behavior", n, d)
    for n, d in prog.get("monitors", {}).items():
        lines += invocable_src("monitor", n, d)

    def setup_lines(stmts, ind, agent_index):
        out = []
        for st in stmts:
            k = st[0]
            if k == "agent":
                i = next(agent_index)
                lhs = "ego" if i == 0 else st[1]
                out.append(f"{ind}{lhs} = new Object at ({i * 5}, 0), with name {st[1]!r}, with behavior {st[2]}()")
            elif k == "terminate_after":
                out.append(f"{ind}terminate after {st[1]!r} {st[2]}")
            elif k == "terminate_when":
                out.append(f"{ind}terminate when {cond_src(st[1])}")
            elif k == "terminate_sim_when":
                out.append(f"{ind}terminate simulation when {cond_src(st[1])}")
            elif k == "require_monitor":
                out.append(f"{ind}require monitor {st[1]}()")
            elif k == "record":
                out.append(f"{ind}record V.rec({st[1]}) as r{st[1]}")
            elif k == "record_initial":
                out.append(f"{ind}record initial V.rec({st[1]}) as r{st[1]}")
            elif k == "record_final":
                out.append(f"{ind}record final V.rec({st[1]}) as r{st[1]}")
        return out

    import itertools

    agent_index = itertools.count()

    def compose_call(names):
        return ", ".join(f"{n}()" for n in names)

    def compose_lines(stmts, ind):
        out = []
        for st in stmts:
            k = st[0]
            if k == "dosc":
                out += [f"{ind}V.ev('dosc', {st[1]})", f"{ind}do {compose_call(st[2])}"]
            elif k == "doscfor":
                out += [f"{ind}V.ev('doscfor', {st[1]})", f"{ind}do {compose_call(st[2])} for {st[3]!r} {st[4]}"]
            elif k == "doscuntil":
                out += [f"{ind}V.ev('doscuntil', {st[1]})", f"{ind}do {compose_call(st[2])} until {cond_src(st[3])}"]
            elif k == "loop":
                out += [f"{ind}for _i in range({st[1]}):"] + compose_lines(st[2], ind + "    ")
            elif k == "try":
                out += [f"{ind}try:"] + compose_lines(st[1], ind + "    ")
                for c, h in st[2]:
                    out += [f"{ind}interrupt when {cond_src(c)}:"] + compose_lines(h, ind + "    ")
            else:
                out += stmts_src([st], ind)
        return out

    scen = prog["scenarios"]
    if prog["form"] == "toplevel":
        lines += setup_lines(scen["Main"]["setup"], "", agent_index)
    else:
        order = [n for n in scen if n != "Main"] + ["Main"]
        for n in order:
            d = scen[n]
            lines.append(f"scenario {n}():")
            for c in d.get("pre", []):
                lines.append(f"    precondition: {cond_src(c)}")
            for c in d.get("inv", []):
                lines.append(f"    invariant: {cond_src(c)}")
            ai = agent_index if n == "Main" else itertools.count(100)
            sl = setup_lines(d.get("setup", []), "        ", ai)
            if sl or n == "Main":
                lines.append("    setup:")
                lines += sl or ["        pass"]
            if d.get("compose") is not None:
                lines.append("    compose:")
                lines += compose_lines(d["compose"], "        ")
    return "\n".join(lines) + "\n"
