"""Exact RNG-branch enumerator.

The sampler draws through module attributes of `random` (randint, choices, random, randrange, choice,
shuffle, sample).  `Enumerator.install()` replaces them by functions that consult a *script* (list of
branch indices).  A run executes the REAL code; each intercepted call of arity n with exact rational
probabilities takes the scripted branch (past the end of the script: branch 0) and records (n, probs).
Depth-first re-execution enumerates every RNG outcome; each leaf yields (outcome, exact probability).

`random.random()` returns a BranchFloat whose comparison against a threshold p *is* the branch (True with
probability p), which makes `random.random() <= req.prob` exactly enumerable.  Any other RNG entry point
(uniform, gauss, numpy.random.*, arithmetic on a BranchFloat) raises OutOfFragment.
"""

from fractions import Fraction
import itertools
import random as _random


class OutOfFragment(Exception):
    pass


class TooManyLeaves(Exception):
    pass


class BranchFloat(float):
    """Stands for a U(0,1) draw; only comparisons against constants are allowed, each is a branch."""

    _enum = None

    def __new__(cls, enum):
        o = super().__new__(cls, 0.5)
        o._enum = enum
        o._decided = None
        return o

    def _below(self, p):
        # event {U <= p}  (== {U < p} up to measure zero)
        p = Fraction(p)
        if p >= 1:
            return True
        if p <= 0:
            return False
        if self._decided is not None:
            raise OutOfFragment("BranchFloat compared twice")
        b = self._enum.choose([p, 1 - p])
        self._decided = b == 0
        return self._decided

    def __le__(self, p):
        return self._below(p)

    def __lt__(self, p):
        return self._below(p)

    def __ge__(self, p):
        return not self._below(p)

    def __gt__(self, p):
        return not self._below(p)

    def _bad(self, *a, **k):
        raise OutOfFragment("arithmetic on random.random() result")

    __add__ = __radd__ = __sub__ = __rsub__ = __mul__ = __rmul__ = __truediv__ = __rtruediv__ = _bad
    __pow__ = __rpow__ = __neg__ = __abs__ = __float__ = __int__ = __round__ = _bad
    __eq__ = _bad
    __hash__ = float.__hash__


class Enumerator:
    NAMES = ("randint", "randrange", "choice", "choices", "random", "shuffle", "sample")
    FORBIDDEN = (
        "uniform",
        "gauss",
        "normalvariate",
        "triangular",
        "getrandbits",
        "betavariate",
        "expovariate",
        "gammavariate",
        "lognormvariate",
        "vonmisesvariate",
        "paretovariate",
        "weibullvariate",
        "randbytes",
    )

    def __init__(self, max_leaves=4000):
        self.script = []
        self.pos = 0
        self.arity = []
        self.prob = Fraction(1)
        self.max_leaves = max_leaves
        self.calls = {}
        self._saved = None

    # ---- branching primitive
    def choose(self, probs):
        probs = [Fraction(p) for p in probs]
        assert sum(probs) == 1, probs
        idx = [i for i, p in enumerate(probs) if p > 0]
        if self.pos < len(self.script):
            k = self.script[self.pos]
        else:
            k = 0
            self.script.append(0)
        if len(self.arity) <= self.pos:
            self.arity.append(len(idx))
        else:
            self.arity[self.pos] = len(idx)
        self.pos += 1
        b = idx[k]
        self.prob *= probs[b]
        return b

    def _count(self, name):
        self.calls[name] = self.calls.get(name, 0) + 1

    # ---- replacements
    def randint(self, a, b):
        self._count("randint")
        n = b - a + 1
        if n <= 0:
            raise ValueError("empty range for randint")
        return a + self.choose([Fraction(1, n)] * n)

    def randrange(self, start, stop=None, step=1):
        self._count("randrange")
        r = range(start) if stop is None else range(start, stop, step)
        n = len(r)
        if n <= 0:
            raise ValueError("empty range for randrange")
        return r[self.choose([Fraction(1, n)] * n)]

    def choice(self, seq):
        self._count("choice")
        n = len(seq)
        if n == 0:
            raise IndexError("Cannot choose from an empty sequence")
        return seq[self.choose([Fraction(1, n)] * n)]

    def choices(self, population, weights=None, *, cum_weights=None, k=1):
        self._count("choices")
        population = list(population)
        n = len(population)
        if cum_weights is not None:
            cw = [Fraction(w) for w in cum_weights]
            ws = [cw[0]] + [cw[i] - cw[i - 1] for i in range(1, n)]
        elif weights is not None:
            ws = [Fraction(w) for w in weights]
        else:
            ws = [Fraction(1)] * n
        if len(ws) != n:
            raise ValueError("The number of weights does not match the population")
        tot = sum(ws)
        if tot <= 0:
            raise ValueError("Total of weights must be greater than zero")
        out = []
        for _ in range(k):
            out.append(population[self.choose([w / tot for w in ws])])
        return out

    def random(self):
        self._count("random")
        return BranchFloat(self)

    def shuffle(self, x):
        self._count("shuffle")
        # Fisher-Yates with uniform choices: every permutation has probability 1/n!
        for i in reversed(range(1, len(x))):
            j = self.choose([Fraction(1, i + 1)] * (i + 1))
            x[i], x[j] = x[j], x[i]

    def sample(self, population, k, *, counts=None):
        self._count("sample")
        pool = list(population)
        out = []
        for _ in range(k):
            n = len(pool)
            out.append(pool.pop(self.choose([Fraction(1, n)] * n)))
        return out

    def _forbid(self, name):
        def f(*a, **kw):
            raise OutOfFragment(f"random.{name}")

        return f

    # ---- install / uninstall
    def install(self):
        import numpy

        assert self._saved is None
        self._saved = {}
        for n in self.NAMES:
            self._saved[n] = getattr(_random, n)
            setattr(_random, n, getattr(self, n))
        for n in self.FORBIDDEN:
            self._saved[n] = getattr(_random, n)
            setattr(_random, n, self._forbid(n))
        self._np = {}
        for n in ("random", "uniform", "normal", "randint", "choice", "shuffle", "permutation", "random_sample", "rand", "randn"):
            if hasattr(numpy.random, n):
                self._np[n] = getattr(numpy.random, n)
                setattr(numpy.random, n, self._forbid("numpy." + n))

    def uninstall(self):
        import numpy

        if self._saved is None:
            return
        for n, f in self._saved.items():
            setattr(_random, n, f)
        for n, f in self._np.items():
            setattr(numpy.random, n, f)
        self._saved = None

    # ---- DFS driver
    def enumerate(self, run):
        """run() -> outcome (hashable). Yields (outcome, probability, script) for every RNG leaf."""
        self.script = []
        leaves = 0
        self.install()
        try:
            while True:
                self.pos = 0
                self.prob = Fraction(1)
                self.arity = self.arity[: len(self.script)]
                outcome = run()
                del self.script[self.pos :]
                del self.arity[self.pos :]
                leaves += 1
                yield outcome, self.prob, list(self.script)
                if leaves > self.max_leaves:
                    raise TooManyLeaves(leaves)
                # next script: increment the last position that is not exhausted
                i = len(self.script) - 1
                while i >= 0 and self.script[i] + 1 >= self.arity[i]:
                    i -= 1
                if i < 0:
                    return
                self.script = self.script[: i + 1]
                self.script[i] += 1
                self.arity = self.arity[: i + 1]
        finally:
            self.uninstall()


def distribution(enum, run):
    """Exact distribution {outcome: Fraction} over all leaves (sums to 1)."""
    dist = {}
    n = 0
    for outcome, p, _ in enum.enumerate(run):
        dist[outcome] = dist.get(outcome, 0) + p
        n += 1
    return dist, n
