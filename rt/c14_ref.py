"""C14 fresh-process reference:  python -m rt.c14_ref < {"prog":..., "seeds":[...]}  > out.json

Runs the clean compile -> generate -> simulate pipeline of checks/c14.py once in a fresh interpreter
(cwd = the shard's work directory holding the model file, if any)."""

import json
import sys


def main():
    spec = json.load(sys.stdin)
    from rt import bootstrap

    bootstrap.install()
    import scenic  # noqa

    from checks import c14
    from rt import vfault

    vfault.late_init()
    pristine = c14.glob_state()
    ctx = c14.Ctx()
    out = c14.pipeline(spec["prog"], ctx, spec["seeds"], None, recompile=True, pristine=pristine)
    json.dump({k: out.get(k) for k in ("dump", "events", "end", "phase_counts", "pairs", "bad_pairs")}, sys.stdout, default=str)


if __name__ == "__main__":
    main()
