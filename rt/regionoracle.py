"""Membership / distance / measure oracle for Scenic regions, computed from *construction data*.

Every test region is generated here from parameters (JSON-able dicts); the same parameters are given to
the real Scenic constructors (`build`) and to a small analytic model (`Orc` subclasses) written from the
documentation of the region classes, never from their code:

* solids        = unions of oriented boxes (overlapping, so no internal seams) or one convex polytope
                  (the scaled icosphere): signed distance per piece, exact outside distance;
* surfaces      = triangle soups (own point-triangle distance, own ray-triangle intersection);
* planar shapes = a shapely polygon built from own trigonometry + a height z;
* 1D / 0D       = segment lists / point lists;
* grid / voxel  = dense occupancy arrays; view volume = analytic (distance, azimuth, altitude).

Answers are three-valued (1 member, 0 non-member, -1 within the margin `eps` of a boundary); only the
definite ones are ever compared with Scenic.  Trusted base: numpy, shapely predicates on simple inputs,
scipy ConvexHull.
"""

import math

import numpy as np
import shapely
import shapely.geometry as sg

INF = float("inf")
EPS = 2e-3  # default boundary margin (world units); shapes are of size 1..6
ZTOL = 1e-9  # a planar region's points have exactly its height


# ------------------------------------------------------------------------------------------------
# small maths
# ------------------------------------------------------------------------------------------------
def rot_zxy(yaw, pitch, roll):
    """Intrinsic Z-X-Y Euler angles (yaw about z, then pitch about x, then roll about y)."""
    cz, sz = math.cos(yaw), math.sin(yaw)
    cx, sx = math.cos(pitch), math.sin(pitch)
    cy, sy = math.cos(roll), math.sin(roll)
    Rz = np.array([[cz, -sz, 0], [sz, cz, 0], [0, 0, 1.0]])
    Rx = np.array([[1.0, 0, 0], [0, cx, -sx], [0, sx, cx]])
    Ry = np.array([[cy, 0, sy], [0, 1.0, 0], [-sy, 0, cy]])
    return Rz @ Rx @ Ry


def hdir(h):
    """Unit vector of a Scenic heading (0 = +y, counter-clockwise positive)."""
    return np.array([-math.sin(h), math.cos(h)])


def and3(a, b):
    out = np.full(a.shape, -1, dtype=np.int8)
    out[(a == 1) & (b == 1)] = 1
    out[(a == 0) | (b == 0)] = 0
    return out


def or3(a, b):
    out = np.full(a.shape, -1, dtype=np.int8)
    out[(a == 1) | (b == 1)] = 1
    out[(a == 0) & (b == 0)] = 0
    return out


def not3(a):
    out = np.full(a.shape, -1, dtype=np.int8)
    out[a == 1] = 0
    out[a == 0] = 1
    return out


def tri3(sd, eps):
    """signed distance (negative inside) -> three-valued membership"""
    out = np.full(sd.shape, -1, dtype=np.int8)
    out[sd < -eps] = 1
    out[sd > eps] = 0
    return out


def seg_dist(P, A, B):
    """distance from points P (N,3) to segments A[i]-B[i] (S,3): (N,S)"""
    P = P[:, None, :]
    d = (B - A)[None]
    L2 = np.maximum((d * d).sum(-1), 1e-300)
    t = np.clip(((P - A[None]) * d).sum(-1) / L2, 0, 1)
    C = A[None] + t[..., None] * d
    return np.linalg.norm(P - C, axis=-1)


def tri_dist(P, T, chunk=2000):
    """distance from points P (N,3) to the triangle soup T (F,3,3): min over triangles (N,).
    Closest point on a triangle by the Voronoi-region method (Ericson, Real-Time Collision Detection)."""
    out = np.empty(len(P))
    a, b, c = T[:, 0][None], T[:, 1][None], T[:, 2][None]
    ab, ac = b - a, c - a
    chunk = max(16, min(chunk, 60000 // max(1, len(T))))
    for s in range(0, len(P), chunk):
        p = P[s : s + chunk, None, :]
        ap = p - a
        d1 = (ab * ap).sum(-1)
        d2 = (ac * ap).sum(-1)
        bp = p - b
        d3 = (ab * bp).sum(-1)
        d4 = (ac * bp).sum(-1)
        cp = p - c
        d5 = (ab * cp).sum(-1)
        d6 = (ac * cp).sum(-1)
        va = d3 * d6 - d5 * d4
        vb = d5 * d2 - d1 * d6
        vc = d1 * d4 - d3 * d2
        # default: interior
        denom = va + vb + vc
        denom = np.where(np.abs(denom) < 1e-300, 1e-300, denom)
        v = vb / denom
        w = vc / denom
        Q = a + ab * v[..., None] + ac * w[..., None]

        def put(mask, val):
            nonlocal Q
            Q = np.where(mask[..., None], val, Q)

        # edge BC
        m = (va <= 0) & ((d4 - d3) >= 0) & ((d5 - d6) >= 0)
        den = (d4 - d3) + (d5 - d6)
        den = np.where(np.abs(den) < 1e-300, 1e-300, den)
        put(m, b + (c - b) * ((d4 - d3) / den)[..., None])
        # edge AC
        m = (vb <= 0) & (d2 >= 0) & (d6 <= 0)
        den = d2 - d6
        den = np.where(np.abs(den) < 1e-300, 1e-300, den)
        put(m, a + ac * (d2 / den)[..., None])
        # edge AB
        m = (vc <= 0) & (d1 >= 0) & (d3 <= 0)
        den = d1 - d3
        den = np.where(np.abs(den) < 1e-300, 1e-300, den)
        put(m, a + ab * (d1 / den)[..., None])
        # vertices
        put((d6 >= 0) & (d5 <= d6), np.broadcast_to(c, Q.shape))
        put((d3 >= 0) & (d4 <= d3), np.broadcast_to(b, Q.shape))
        put((d1 <= 0) & (d2 <= 0), np.broadcast_to(a, Q.shape))
        out[s : s + chunk] = np.linalg.norm(p - Q, axis=-1).min(axis=1)
    return out


def ray_tris(o, d, T):
    """parameters t (any sign) where the line o + t d meets triangles T (Moller-Trumbore)."""
    a, b, c = T[:, 0], T[:, 1], T[:, 2]
    e1, e2 = b - a, c - a
    h = np.cross(d[None], e2)
    det = (e1 * h).sum(-1)
    ok = np.abs(det) > 1e-12
    inv = np.where(ok, 1.0 / np.where(ok, det, 1.0), 0.0)
    s = o[None] - a
    u = (s * h).sum(-1) * inv
    q = np.cross(s, e1)
    v = (q @ d) * inv
    t = (q * e2).sum(-1) * inv
    hit = ok & (u >= -1e-12) & (v >= -1e-12) & (u + v <= 1 + 1e-12)
    # margin to the triangle's edges in barycentric units (for degenerate-hit detection)
    marg = np.minimum(np.minimum(u, v), 1 - u - v)
    return t[hit], marg[hit]


# ------------------------------------------------------------------------------------------------
# oracle classes
# ------------------------------------------------------------------------------------------------
class Orc:
    kind = "?"
    dim = None  # dimension of the set (natural measure)
    eps = EPS
    planar_z = None  # height of a planar (PolygonalRegion family) set
    zfree = False  # containsPoint documented/expected to ignore z (polygons via footprint, grid)
    has_dist = True

    def __init__(self, params):
        self.params = params

    # three-valued membership in full 3D
    def member(self, P):
        raise NotImplementedError

    # membership with the documented "footprint" reading of containsPoint (z ignored for polygons)
    def fmember(self, P):
        return self.member(P)

    def nominal(self, P):
        """best-guess boolean membership (no margin) -- used only to build reference samples"""
        return self.member(P) == 1

    def dist(self, P):
        return None

    def sample(self, rng, n):
        return None

    def aabb(self):
        return None

    def measure(self):
        return None

    def build(self):
        raise NotImplementedError

    def describe(self):
        return {"kind": self.kind, "params": self.params}


class OAll(Orc):
    kind, dim, has_dist = "all", INF, True

    def member(self, P):
        return np.ones(len(P), dtype=np.int8)

    def dist(self, P):
        return np.zeros(len(P))

    def build(self):
        from scenic.core.regions import everywhere

        return everywhere


class OEmpty(Orc):
    kind, dim = "empty", 0

    def member(self, P):
        return np.zeros(len(P), dtype=np.int8)

    def dist(self, P):
        return np.full(len(P), INF)

    def measure(self):
        return 0

    def build(self):
        from scenic.core.regions import nowhere

        return nowhere


def _orientation(ypr):
    from scenic.core.vectors import Orientation

    return Orientation.fromEuler(*ypr)


def _vec(c):
    from scenic.core.vectors import Vector

    return Vector(*[float(x) for x in c])


class _Solid(Orc):
    """union of oriented boxes: pieces = [(center(3), R(3x3), half(3))]"""

    dim = 3

    def _sd(self, P):
        best = np.full(len(P), INF)
        for c, R, h in self.pieces:
            q = np.abs((P - c) @ R) - h  # local coordinates (R columns = axes)
            outside = np.linalg.norm(np.maximum(q, 0), axis=1)
            inside = np.minimum(q.max(axis=1), 0)
            best = np.minimum(best, outside + inside)
        return best

    def member(self, P):
        return tri3(self._sd(P), self.eps)

    def nominal(self, P):
        return self._sd(P) < 0

    def dist(self, P):
        return np.maximum(self._sd(P), 0)

    def corners(self):
        out = []
        for c, R, h in self.pieces:
            for s in np.array(np.meshgrid([-1, 1], [-1, 1], [-1, 1])).T.reshape(-1, 3):
                out.append(c + R @ (s * h))
        return np.array(out)

    def aabb(self):
        C = self.corners()
        return C.min(axis=0), C.max(axis=0)

    def measure(self):
        # exact: all pieces share one frame -> coordinate compression in that frame
        R = self.pieces[0][1]
        lo = np.array([R.T @ c - h for c, _, h in self.pieces])
        hi = np.array([R.T @ c + h for c, _, h in self.pieces])
        if len(self.pieces) == 1:
            return float(np.prod(hi[0] - lo[0]))
        xs = [np.unique(np.concatenate((lo[:, k], hi[:, k]))) for k in range(3)]
        vol = 0.0
        for i in range(len(xs[0]) - 1):
            for j in range(len(xs[1]) - 1):
                for k in range(len(xs[2]) - 1):
                    m = np.array([(xs[0][i] + xs[0][i + 1]) / 2, (xs[1][j] + xs[1][j + 1]) / 2, (xs[2][k] + xs[2][k + 1]) / 2])
                    if np.any(np.all((lo <= m) & (m <= hi), axis=1)):
                        vol += (xs[0][i + 1] - xs[0][i]) * (xs[1][j + 1] - xs[1][j]) * (xs[2][k + 1] - xs[2][k])
        return float(vol)

    def sample(self, rng, n):
        lo, hi = self.aabb()
        out = []
        got = 0
        while got < n:
            Q = rng.uniform(lo, hi, size=(max(4 * n, 1000), 3))
            Q = Q[self._sd(Q) < 0]
            out.append(Q)
            got += len(Q)
        return np.concatenate(out)[:n]

    def line_hits(self, o, d):
        """entry parameters t (any sign) of the line o + t d into the union's pieces: list of (t_in, t_out)."""
        iv = []
        for c, R, h in self.pieces:
            oo = (o - c) @ R
            dd = d @ R
            t0, t1 = -INF, INF
            ok = True
            for k in range(3):
                if abs(dd[k]) < 1e-12:
                    if abs(oo[k]) > h[k]:
                        ok = False
                        break
                    continue
                a, b = (-h[k] - oo[k]) / dd[k], (h[k] - oo[k]) / dd[k]
                if a > b:
                    a, b = b, a
                t0, t1 = max(t0, a), min(t1, b)
            if ok and t0 < t1:
                iv.append((t0, t1))
        return iv


class OBox(_Solid):
    kind = "box"

    def __init__(self, params):
        super().__init__(params)
        R = rot_zxy(*params["ypr"])
        self.pieces = [(np.array(params["c"], float), R, np.array(params["d"], float) / 2)]

    def build(self):
        from scenic.core.regions import BoxRegion

        p = self.params
        return BoxRegion(dimensions=tuple(p["d"]), position=_vec(p["c"]), rotation=_orientation(p["ypr"]))


class OMeshVol(_Solid):
    """MeshVolumeRegion of a mesh made of axis-aligned boxes in mesh coordinates.
    Documented transform: centre the bounding box at the origin, scale it to `dimensions`, rotate, translate."""

    kind = "meshvol"

    def __init__(self, params):
        super().__init__(params)
        loc = np.array(params["pieces"], float)  # rows: cx cy cz dx dy dz in mesh coordinates
        lo = (loc[:, :3] - loc[:, 3:] / 2).min(axis=0)
        hi = (loc[:, :3] + loc[:, 3:] / 2).max(axis=0)
        ctr, ext = (lo + hi) / 2, hi - lo
        scale = np.ones(3) if params.get("d") is None else np.array(params["d"], float) / ext
        R = rot_zxy(*params["ypr"])
        c0 = np.array(params["c"], float)
        self.pieces = [(c0 + R @ ((row[:3] - ctr) * scale), R, row[3:] * scale / 2) for row in loc]

    def local_mesh(self):
        import trimesh

        boxes = []
        for row in self.params["pieces"]:
            T = np.eye(4)
            T[:3, 3] = row[:3]
            boxes.append(trimesh.creation.box(extents=row[3:], transform=T))
        if len(boxes) == 1:
            return boxes[0]
        if self.params.get("disjoint"):
            return trimesh.util.concatenate(boxes)
        m = trimesh.boolean.union(boxes, engine="manifold")
        return m

    def build(self):
        from scenic.core.regions import MeshVolumeRegion

        p = self.params
        return MeshVolumeRegion(
            self.local_mesh(),
            dimensions=None if p.get("d") is None else tuple(p["d"]),
            position=_vec(p["c"]),
            rotation=_orientation(p["ypr"]),
        )


_ICO = None


def _icosphere():
    global _ICO
    if _ICO is None:
        import trimesh

        m = trimesh.creation.icosphere(radius=1)
        _ICO = (np.array(m.vertices), np.array(m.faces))
    return _ICO


class OSpheroid(Orc):
    """SpheroidRegion: the unit icosphere polytope scaled to `dimensions` (bounding box), rotated, translated."""

    kind, dim = "spheroid", 3

    def __init__(self, params):
        super().__init__(params)
        V, F = _icosphere()
        ext = V.max(axis=0) - V.min(axis=0)
        ctr = (V.max(axis=0) + V.min(axis=0)) / 2
        R = rot_zxy(*params["ypr"])
        self.V = (R @ ((V - ctr) * (np.array(params["d"], float) / ext)).T).T + np.array(params["c"], float)
        from scipy.spatial import ConvexHull

        self.hull = ConvexHull(self.V)
        eq = self.hull.equations
        self.N, self.off = eq[:, :3], eq[:, 3]
        self.T = self.V[self.hull.simplices]
        # prefilter in the normalised frame: the polytope lies between the spheres of radius r_in and r_out
        self._R, self._c = R, np.array(params["c"], float)
        self._scale = np.array(params["d"], float) / ext
        U = V - ctr
        hu = ConvexHull(U)
        self._rin = float((-hu.equations[:, 3]).min())
        self._rout = float(np.linalg.norm(U, axis=1).max())

    def _sdlow(self, P):
        """<0 inside (a lower bound of the depth), >0 outside (a lower bound of the distance); exact sign.
        Only points in the thin shell between the inscribed and circumscribed spheres (normalised frame) need
        the 1280 half-spaces; elsewhere the normalised radius gives certified bounds (the normalising map is
        1/min(scale)-Lipschitz)."""
        q = ((P - self._c) @ self._R) / self._scale
        rho = np.linalg.norm(q, axis=1)
        smin = float(self._scale.min())
        out = np.where(rho < self._rin, (rho - self._rin) * smin, (rho - self._rout) * smin)
        mrg = max(0.005, 3 * self.eps / smin)
        shell = (rho >= self._rin - mrg) & (rho <= self._rout + mrg)
        idx = np.where(shell)[0]
        NT = self.N.T
        for s in range(0, len(idx), 512):
            ii = idx[s : s + 512]
            out[ii] = (P[ii] @ NT + self.off).max(axis=1)
        return out

    def member(self, P):
        return tri3(self._sdlow(P), self.eps)

    def nominal(self, P):
        return self._sdlow(P) < 0

    def dist(self, P):
        s = self._sdlow(P)
        out = np.zeros(len(P))
        m = s > 0
        if m.any():
            out[m] = tri_dist(P[m], self.T)
        return out

    def aabb(self):
        return self.V.min(axis=0), self.V.max(axis=0)

    def measure(self):
        return float(self.hull.volume)

    def sample(self, rng, n):
        lo, hi = self.aabb()
        out, got = [], 0
        while got < n:
            Q = rng.uniform(lo, hi, size=(max(3 * n, 1000), 3))
            Q = Q[self._sdlow(Q) < 0]
            out.append(Q)
            got += len(Q)
        return np.concatenate(out)[:n]

    def line_hits(self, o, d):
        # convex: clip the line against all half-spaces
        nd = self.N @ d
        no = self.N @ o + self.off
        t0, t1 = -INF, INF
        for a, b in zip(nd, no):
            if abs(a) < 1e-14:
                if b > 0:
                    return []
                continue
            t = -b / a
            if a > 0:
                t1 = min(t1, t)
            else:
                t0 = max(t0, t)
        return [(t0, t1)] if t0 < t1 else []

    def build(self):
        from scenic.core.regions import SpheroidRegion

        p = self.params
        return SpheroidRegion(dimensions=tuple(p["d"]), position=_vec(p["c"]), rotation=_orientation(p["ypr"]))


class OSurface(Orc):
    """MeshSurfaceRegion of a triangle soup given in mesh coordinates (no scaling)."""

    kind, dim = "meshsurf", 2

    def __init__(self, params):
        super().__init__(params)
        V = np.array(params["V"], float)
        F = np.array(params["F"], int)
        ctr = (V.max(axis=0) + V.min(axis=0)) / 2
        R = rot_zxy(*params["ypr"])
        self.V = (R @ (V - ctr).T).T + np.array(params["c"], float)
        self.F = F
        self.T = self.V[F]
        e1, e2 = self.T[:, 1] - self.T[:, 0], self.T[:, 2] - self.T[:, 0]
        self.areas = np.linalg.norm(np.cross(e1, e2), axis=1) / 2

    def dist(self, P):
        return tri_dist(P, self.T)

    def member(self, P):
        d = self.dist(P)
        out = np.full(len(P), -1, dtype=np.int8)
        out[d <= 1e-9] = 1
        out[d > self.eps] = 0
        return out

    def aabb(self):
        return self.V.min(axis=0), self.V.max(axis=0)

    def measure(self):
        return float(self.areas.sum())

    def sample(self, rng, n):
        idx = rng.choice(len(self.T), size=n, p=self.areas / self.areas.sum())
        u, v = rng.random(n), rng.random(n)
        flip = u + v > 1
        u[flip], v[flip] = 1 - u[flip], 1 - v[flip]
        T = self.T[idx]
        return T[:, 0] + u[:, None] * (T[:, 1] - T[:, 0]) + v[:, None] * (T[:, 2] - T[:, 0])

    def build(self):
        import trimesh
        from scenic.core.regions import MeshSurfaceRegion

        p = self.params
        m = trimesh.Trimesh(vertices=np.array(p["V"], float), faces=np.array(p["F"], int), process=False)
        return MeshSurfaceRegion(m, position=_vec(p["c"]), rotation=_orientation(p["ypr"]))


def _poly_from(params):
    polys = []
    for comp in params["polys"]:
        polys.append(sg.Polygon(comp["ext"], comp.get("holes", [])))
    g = polys[0] if len(polys) == 1 else sg.MultiPolygon(polys)
    return g


class _Planar(Orc):
    """planar polygonal set at height z (self.poly is a shapely (Multi)Polygon built by the generator)"""

    dim = 2
    zfree = True

    def _sd2(self, P):
        pts = shapely.points(P[:, 0], P[:, 1])
        dout = shapely.distance(self.poly, pts)
        din = shapely.distance(self.poly.boundary, pts)
        return np.where(dout > 0, dout, -din)

    def fmember(self, P):
        return tri3(self._sd2(P), self.eps)

    def nominal(self, P):
        f = self._sd2(P) < 0
        if self.planar_z is None:
            return f
        return f & (np.abs(P[:, 2] - self.planar_z) <= ZTOL)

    def member(self, P):
        f = self.fmember(P)
        if self.planar_z is None:
            return f
        dz = np.abs(P[:, 2] - self.planar_z)
        zin = np.full(len(P), -1, dtype=np.int8)
        zin[dz <= ZTOL] = 1
        zin[dz > self.eps] = 0
        return and3(f, zin)

    def dist(self, P):
        d2 = np.maximum(self._sd2(P), 0)
        if self.planar_z is None:
            return d2
        return np.hypot(d2, P[:, 2] - self.planar_z)

    def aabb(self):
        x0, y0, x1, y1 = self.poly.bounds
        z = self.planar_z
        return np.array([x0, y0, z]), np.array([x1, y1, z])

    def measure(self):
        return float(self.poly.area)

    def sample(self, rng, n):
        x0, y0, x1, y1 = self.poly.bounds
        out, got = [], 0
        shapely.prepare(self.poly)
        while got < n:
            m = max(3 * n, 1000)
            X, Y = rng.uniform(x0, x1, m), rng.uniform(y0, y1, m)
            ok = shapely.contains_xy(self.poly, X, Y)
            out.append(np.column_stack((X[ok], Y[ok])))
            got += ok.sum()
        Q = np.concatenate(out)[:n]
        return np.column_stack((Q, np.full(len(Q), self.planar_z if self.planar_z is not None else 0.0)))


class OPolygon(_Planar):
    kind = "polygon"

    def __init__(self, params):
        super().__init__(params)
        self.poly = _poly_from(params)
        self.planar_z = float(params["z"])

    def build(self):
        from scenic.core.regions import PolygonalRegion

        return PolygonalRegion(polygon=_poly_from(self.params), z=self.params["z"])


class OFootprint(_Planar):
    """PolygonalFootprintRegion: all points whose (x, y) lies in the polygon, any z."""

    kind, dim, zfree = "footprint", 3, False

    def __init__(self, params):
        super().__init__(params)
        self.poly = _poly_from(params)
        self.planar_z = None

    def aabb(self):
        return None

    def measure(self):
        return INF

    def sample(self, rng, n):
        return None

    def build(self):
        from scenic.core.regions import PolygonalFootprintRegion

        return PolygonalFootprintRegion(_poly_from(self.params))


ARC_N = 1440  # vertices of a full circle in the oracle's own polygonisation


class OCircle(_Planar):
    """disc of given centre/radius at the centre's height (documented: 'A circular region')"""

    kind, zfree = "circle", False

    def __init__(self, params):
        super().__init__(params)
        c, r = params["c"], params["r"]
        t = np.linspace(0, 2 * math.pi, ARC_N, endpoint=False)
        self.poly = sg.Polygon(np.column_stack((c[0] + r * np.cos(t), c[1] + r * np.sin(t))))
        self.planar_z = float(c[2])
        self.eps = max(EPS, 1.5e-3 * r)  # Scenic approximates the disc by a 128-gon (3e-4 r)

    def measure(self):
        return math.pi * self.params["r"] ** 2

    def build(self):
        from scenic.core.regions import CircularRegion

        return CircularRegion(_vec(self.params["c"]), self.params["r"])


class OSector(_Planar):
    """documented: 'the part of a disc subtended by a given arc', centred on `heading`, total angle `angle`"""

    kind, zfree = "sector", False

    def __init__(self, params):
        super().__init__(params)
        c, r, h, a = params["c"], params["r"], params["heading"], params["angle"]
        n = max(8, int(ARC_N * a / (2 * math.pi)))
        ts = np.linspace(h - a / 2, h + a / 2, n)
        arc = np.column_stack((c[0] - r * np.sin(ts), c[1] + r * np.cos(ts)))
        if a >= 2 * math.pi - 1e-3:
            self.poly = sg.Polygon(arc[:-1])
        else:
            self.poly = sg.Polygon(np.vstack(([[c[0], c[1]]], arc)))
        assert self.poly.is_valid
        self.planar_z = float(c[2])
        self.eps = max(EPS, 1.5e-3 * r)

    def measure(self):
        return self.params["r"] ** 2 * self.params["angle"] / 2

    def build(self):
        from scenic.core.regions import SectorRegion

        p = self.params
        return SectorRegion(_vec(p["c"]), p["r"], p["heading"], p["angle"])


class ORect(_Planar):
    """rectangle: `width` across, `length` along the heading direction, centred at position"""

    kind = "rect"

    def __init__(self, params):
        super().__init__(params)
        c, h, w, l = params["c"], params["heading"], params["w"], params["l"]
        f = hdir(h)  # forward (length axis)
        rgt = np.array([f[1], -f[0]])  # right of forward (width axis)
        c2 = np.array(c[:2], float)
        pts = [c2 + sx * w / 2 * rgt + sy * l / 2 * f for sx, sy in ((1, 1), (-1, 1), (-1, -1), (1, -1))]
        self.poly = sg.Polygon(pts)
        self.planar_z = float(c[2])

    def build(self):
        from scenic.core.regions import RectangularRegion

        p = self.params
        return RectangularRegion(_vec(p["c"]), p["heading"], p["w"], p["l"])


class _Segs(Orc):
    dim = 1

    def dist(self, P):
        return seg_dist(P, self.A, self.B).min(axis=1)

    def member(self, P):
        d = self.dist(P)
        out = np.full(len(P), -1, dtype=np.int8)
        out[d <= 1e-9] = 1
        out[d > self.eps] = 0
        return out

    def aabb(self):
        V = np.vstack((self.A, self.B))
        return V.min(axis=0), V.max(axis=0)

    def measure(self):
        return float(np.linalg.norm(self.B - self.A, axis=1).sum())

    def sample(self, rng, n):
        L = np.linalg.norm(self.B - self.A, axis=1)
        idx = rng.choice(len(L), size=n, p=L / L.sum())
        t = rng.random(n)[:, None]
        return self.A[idx] + t * (self.B[idx] - self.A[idx])


class OPath(_Segs):
    kind = "path"

    def __init__(self, params):
        super().__init__(params)
        A, B = [], []
        for line in params["lines"]:
            for p, q in zip(line[:-1], line[1:]):
                A.append(p)
                B.append(q)
        self.A, self.B = np.array(A, float), np.array(B, float)

    def build(self):
        from scenic.core.regions import PathRegion

        return PathRegion(polylines=[[tuple(p) for p in line] for line in self.params["lines"]])


class OPolyline(_Segs):
    """PolylineRegion: 2D chains, documented to live at z = 0"""

    kind = "polyline"
    planar_z = None

    def __init__(self, params):
        super().__init__(params)
        A, B = [], []
        for line in params["lines"]:
            for p, q in zip(line[:-1], line[1:]):
                A.append([p[0], p[1], 0.0])
                B.append([q[0], q[1], 0.0])
        self.A, self.B = np.array(A, float), np.array(B, float)

    def build(self):
        from scenic.core.regions import PolylineRegion

        lines = self.params["lines"]
        if len(lines) == 1:
            return PolylineRegion(points=[tuple(p) for p in lines[0]])
        return PolylineRegion(polyline=sg.MultiLineString([[tuple(p) for p in l] for l in lines]))


class OPointSet(Orc):
    kind, dim = "pointset", 0

    def __init__(self, params):
        super().__init__(params)
        self.pts = np.array(params["pts"], float)
        self.eps = 1e-4

    def dist(self, P):
        out = np.empty(len(P))
        for s in range(0, len(P), 4000):
            out[s : s + 4000] = np.linalg.norm(P[s : s + 4000, None, :] - self.pts[None], axis=-1).min(axis=1)
        return out

    def nearest(self, P):
        return np.linalg.norm(P[:, None, :] - self.pts[None], axis=-1).argmin(axis=1)

    def member(self, P):
        d = self.dist(P)
        out = np.full(len(P), -1, dtype=np.int8)
        out[d <= 1e-9] = 1
        out[d > self.eps] = 0
        return out

    def aabb(self):
        return self.pts.min(axis=0), self.pts.max(axis=0)

    def measure(self):
        return len(self.pts)

    def sample(self, rng, n):
        return self.pts[rng.integers(0, len(self.pts), n)]

    def build(self):
        from scenic.core.regions import PointSetRegion

        return PointSetRegion("ps", [tuple(p) for p in self.params["pts"]])


class OGrid(OPointSet):
    """GridRegion: documented 'a point is in the region if the nearest grid point is not an obstacle';
    sampling yields the free grid points themselves (a point set at z = 0)."""

    kind, zfree = "grid", True

    def __init__(self, params):
        g = np.array(params["grid"], int)
        ys, xs = np.where(g == 0)
        pts = [[params["Ax"] * x + params["Bx"], params["Ay"] * y + params["By"], 0.0] for x, y in zip(xs, ys)]
        Orc.__init__(self, params)
        self.pts = np.array(pts, float)
        self.g = g
        self.eps = 1e-4

    def fmember(self, P):
        p = self.params
        u = (P[:, 0] - p["Bx"]) / p["Ax"]
        v = (P[:, 1] - p["By"]) / p["Ay"]
        iu, iv = np.rint(u).astype(int), np.rint(v).astype(int)
        ny, nx = self.g.shape
        inside = (iu >= 0) & (iu < nx) & (iv >= 0) & (iv < ny)
        free = np.zeros(len(P), bool)
        free[inside] = self.g[iv[inside], iu[inside]] == 0
        # uncertain near cell borders
        near = (np.abs(np.abs(u - iu) - 0.5) < 1e-3) | (np.abs(np.abs(v - iv) - 0.5) < 1e-3)
        out = free.astype(np.int8)
        out[near] = -1
        return out

    def build(self):
        from scenic.core.regions import GridRegion

        p = self.params
        return GridRegion("grid", p["grid"], p["Ax"], p["Ay"], p["Bx"], p["By"])


class OVoxel(Orc):
    """VoxelRegion of a dense occupancy array: cubes of side `pitch` centred at origin + pitch * index"""

    kind, dim, has_dist = "voxel", 3, False

    def __init__(self, params):
        super().__init__(params)
        self.D = np.array(params["dense"], bool)
        self.pitch = float(params["pitch"])
        self.o = np.array(params["origin"], float)

    def _filled(self, P):
        idx = np.floor((P - self.o) / self.pitch + 0.5).astype(int)
        ok = np.all((idx >= 0) & (idx < np.array(self.D.shape)), axis=1)
        out = np.zeros(len(P), bool)
        out[ok] = self.D[idx[ok, 0], idx[ok, 1], idx[ok, 2]]
        return out

    def nominal(self, P):
        return self._filled(P)

    def member(self, P):
        e = self.eps
        vals = []
        for sx in (-e, e):
            for sy in (-e, e):
                for sz in (-e, e):
                    vals.append(self._filled(P + np.array([sx, sy, sz])))
        vals = np.array(vals)
        out = np.full(len(P), -1, dtype=np.int8)
        out[vals.all(axis=0)] = 1
        out[~vals.any(axis=0)] = 0
        return out

    def aabb(self):
        idx = np.argwhere(self.D)
        return self.o + (idx.min(axis=0) - 0.5) * self.pitch, self.o + (idx.max(axis=0) + 0.5) * self.pitch

    def measure(self):
        return float(self.D.sum() * self.pitch**3)

    def sample(self, rng, n):
        idx = np.argwhere(self.D)
        k = rng.integers(0, len(idx), n)
        return self.o + (idx[k] + rng.random((n, 3)) - 0.5) * self.pitch

    def build(self):
        import trimesh
        from scenic.core.regions import VoxelRegion

        T = np.eye(4)
        T[:3, :3] *= self.pitch
        T[:3, 3] = self.o
        vg = trimesh.voxel.VoxelGrid(trimesh.voxel.encoding.DenseEncoding(self.D), transform=T)
        return VoxelRegion(voxelGrid=vg)


class OView(Orc):
    """ViewRegion: points within `R` of the viewer whose azimuth (from the forward +y axis) is within
    angles[0]/2 and whose altitude is within angles[1]/2, in the viewer's frame (documented view volume).
    The library approximates it by a mesh (icosphere + 32 azimuth facets), so margins are generous."""

    kind, dim, has_dist = "view", 3, False

    def __init__(self, params):
        super().__init__(params)
        self.R = rot_zxy(*params["ypr"])
        self.c = np.array(params["c"], float)
        self.rad = float(params["R"])
        self.a0, self.a1 = params["angles"]
        self.eps = 0.02 * self.rad

    def _coords(self, P):
        q = (P - self.c) @ self.R
        rho = np.linalg.norm(q, axis=1)
        az = np.arctan2(-q[:, 0], q[:, 1])
        alt = np.arctan2(q[:, 2], np.hypot(q[:, 0], q[:, 1]))
        return q, rho, az, alt

    def _nominal(self, P):
        q, rho, az, alt = self._coords(P)
        ok = rho <= self.rad * 0.9978
        if self.a0 < 2 * math.pi - 0.017:
            ok &= np.abs(az) <= self.a0 / 2
        if self.a1 < math.pi - 0.017:
            ok &= np.abs(alt) <= self.a1 / 2
        return ok

    def nominal(self, P):
        return self._nominal(P)

    def member(self, P):
        q, rho, az, alt = self._coords(P)
        tol_lin = self.eps
        inside = rho <= self.rad * (1 - 0.02)
        outside = rho > self.rad * (1 + 0.002)
        near_axis = np.hypot(q[:, 0], q[:, 1]) < 3 * tol_lin  # azimuth ill-defined
        if self.a0 < 2 * math.pi - 0.017:
            # linear clearance from the two azimuth half-planes
            lin = rho * np.cos(alt) * np.sin(np.clip(self.a0 / 2 - np.abs(az), -math.pi / 2, math.pi / 2))
            wrap = (self.a0 / 2 - np.abs(az)) > math.pi / 2
            inside &= ((lin > tol_lin) | wrap) & ~near_axis
            outside |= (lin < -tol_lin) & ~wrap & ~near_axis & (np.abs(az) > self.a0 / 2 + 0.01)
        if self.a1 < math.pi - 0.017:
            # the mesh's top/bottom facets overshoot the nominal altitude by a factor 1/cos(delta/2) in tan
            delta = self.a0 / 31
            hi = math.atan(math.tan(self.a1 / 2) / math.cos(delta / 2))
            lin_in = rho * np.sin(np.clip(self.a1 / 2 - np.abs(alt), -math.pi / 2, math.pi / 2))
            lin_out = rho * np.sin(np.clip(np.abs(alt) - hi, -math.pi / 2, math.pi / 2))
            inside &= lin_in > tol_lin
            outside |= lin_out > tol_lin
        out = np.full(len(P), -1, dtype=np.int8)
        out[inside] = 1
        out[outside & ~inside] = 0
        out[rho < 3 * tol_lin] = -1
        return out

    def aabb(self):
        return None

    def sample(self, rng, n):
        out, got = [], 0
        while got < n:
            Q = self.c + rng.uniform(-self.rad, self.rad, size=(max(6 * n, 2000), 3))
            Q = Q[self._nominal(Q)]
            out.append(Q)
            got += len(Q)
            if got == 0 and len(out) > 200:
                return None
        return np.concatenate(out)[:n]

    def build(self):
        from scenic.core.regions import ViewRegion

        p = self.params
        return ViewRegion(p["R"], tuple(p["angles"]), position=_vec(p["c"]), rotation=_orientation(p["ypr"]))


CLASSES = {
    c.kind: c
    for c in (OAll, OEmpty, OBox, OSpheroid, OMeshVol, OSurface, OFootprint, OPath, OPolygon, OCircle, OSector, ORect, OPolyline, OPointSet, OGrid, OVoxel, OView)
}
KINDS = ["all", "empty", "box", "spheroid", "meshvol", "meshsurf", "footprint", "path", "polygon", "circle", "sector", "rect", "polyline", "pointset", "grid", "voxel", "view"]
PLANAR = ("polygon", "circle", "sector", "rect")
SCENIC_CLASS = {
    "all": "AllRegion", "empty": "EmptyRegion", "box": "BoxRegion", "spheroid": "SpheroidRegion", "meshvol": "MeshVolumeRegion",
    "meshsurf": "MeshSurfaceRegion", "footprint": "PolygonalFootprintRegion", "path": "PathRegion", "polygon": "PolygonalRegion",
    "circle": "CircularRegion", "sector": "SectorRegion", "rect": "RectangularRegion", "polyline": "PolylineRegion",
    "pointset": "PointSetRegion", "grid": "GridRegion", "voxel": "VoxelRegion", "view": "ViewRegion",
}


def make(desc):
    return CLASSES[desc["kind"]](desc["params"])


# ------------------------------------------------------------------------------------------------
# Boolean combinations
# ------------------------------------------------------------------------------------------------
class Combo(Orc):
    """op in {'and','or','sub'} of two oracles (three-valued logic)"""

    kind = "combo"
    has_dist = False

    def __init__(self, op, A, B):
        self.op, self.A, self.B = op, A, B
        self.params = {"op": op, "A": A.describe(), "B": B.describe()}
        self.eps = max(A.eps, B.eps)
        if op == "and":
            self.dim = min(A.dim, B.dim)
        elif op == "or":
            self.dim = max(A.dim, B.dim)
        else:
            self.dim = A.dim

    def describe(self):
        return {"kind": "combo", "params": self.params}

    def _comb(self, a, b):
        if self.op == "and":
            return and3(a, b)
        if self.op == "or":
            return or3(a, b)
        return and3(a, not3(b))

    def member(self, P):
        return self._comb(self.A.member(P), self.B.member(P))

    def fmember(self, P):
        return self._comb(self.A.fmember(P), self.B.fmember(P))

    def nominal(self, P):
        a, b = self.A.nominal(P), self.B.nominal(P)
        return (a & b) if self.op == "and" else (a | b) if self.op == "or" else (a & ~b)

    def sample(self, rng, n, tries=60):
        """uniform (natural measure of the composed set) by rejection from the operands' own samplers;
        None if the oracle cannot produce it (e.g. measure unknown, empty, or lower-dimensional result)."""
        A, B, op = self.A, self.B, self.op
        out, got = [], 0

        def filt(src, keep_fn):
            nonlocal got
            for _ in range(tries):
                Q = src.sample(rng, max(2 * n, 2000))
                if Q is None:
                    return False
                Q = Q[keep_fn(Q)]
                out.append(Q)
                got += len(Q)
                if got >= n:
                    return True
            return False

        if op == "sub":
            ok = filt(A, lambda Q: ~B.nominal(Q))
        elif op == "and":
            if A.dim < B.dim:
                ok = filt(A, lambda Q: B.nominal(Q))
            elif B.dim < A.dim:
                ok = filt(B, lambda Q: A.nominal(Q))
            else:
                src, oth = (A, B) if (A.measure() or INF) <= (B.measure() or INF) else (B, A)
                if src.sample(rng, 1) is None:
                    src, oth = oth, src
                ok = filt(src, lambda Q: oth.nominal(Q))
        else:
            if A.dim > B.dim:
                ok = filt(A, lambda Q: np.ones(len(Q), bool))
            elif B.dim > A.dim:
                ok = filt(B, lambda Q: np.ones(len(Q), bool))
            else:
                mA, mB = A.measure(), B.measure()
                if not mA or not mB or mA == INF or mB == INF:
                    return None
                nA = int(round(2 * n * mA / (mA + mB))) + 50
                nB = int(round(2 * n * mB / (mA + mB))) + 50
                QA, QB = A.sample(rng, nA), B.sample(rng, nB)
                if QA is None or QB is None:
                    return None
                QB = QB[~A.nominal(QB)]
                Q = np.concatenate((QA, QB))
                rng.shuffle(Q)
                out.append(Q)
                got = len(Q)
                ok = got >= n
        if not ok or got < n:
            return None
        Q = np.concatenate(out)
        return Q[:n]


# ------------------------------------------------------------------------------------------------
# generators (all randomness from the rng passed in)
# ------------------------------------------------------------------------------------------------
ZLEVELS = (0.0, 3.5, -2.0)


def _r(rng, a, b, nd=4):
    return round(float(rng.uniform(a, b)), nd)


def _star(rng, cx, cy, rmin, rmax, n):
    ts = np.sort(rng.uniform(0, 2 * math.pi, n))
    # avoid nearly coincident angles
    ts = np.linspace(0, 2 * math.pi, n, endpoint=False) + rng.uniform(-0.3, 0.3, n) * (2 * math.pi / n)
    rs = rng.uniform(rmin, rmax, n)
    return [[round(float(cx + r * math.cos(t)), 4), round(float(cy + r * math.sin(t)), 4)] for r, t in zip(rs, ts)]


def gen_polys(rng, ctr, scale, multi=None, holes=None):
    """one or two star polygons, possibly with a hole"""
    multi = rng.random() < 0.3 if multi is None else multi
    comps = []
    centres = [ctr]
    if multi:
        ang = rng.uniform(0, 2 * math.pi)
        centres.append((ctr[0] + 2.6 * scale * math.cos(ang), ctr[1] + 2.6 * scale * math.sin(ang)))
    for cx, cy in centres:
        ext = _star(rng, cx, cy, 0.7 * scale, 1.25 * scale, int(rng.integers(5, 10)))
        comp = {"ext": ext, "holes": []}
        if (rng.random() < 0.5) if holes is None else holes:
            comp["holes"].append(_star(rng, cx + rng.uniform(-0.1, 0.1) * scale, cy + rng.uniform(-0.1, 0.1) * scale, 0.2 * scale, 0.4 * scale, int(rng.integers(4, 7))))
        comps.append(comp)
    g = _poly_from({"polys": comps})
    if not g.is_valid or g.is_empty:
        return gen_polys(rng, ctr, scale, multi, holes)
    return comps


def gen(kind, rng, z=None, ctr=None, scale=None):
    """parameters of a random region of the given kind near `ctr` (default: near the origin), planar ones at height z"""
    if ctr is None:
        ctr = (rng.uniform(-1.2, 1.2), rng.uniform(-1.2, 1.2), rng.uniform(-0.6, 0.6))
    cx, cy, cz = (round(float(v), 4) for v in ctr)
    if z is None:
        z = float(rng.choice(ZLEVELS))
    s = float(scale) if scale else float(rng.uniform(1.2, 2.6))

    def ypr(full=True):
        if rng.random() < 0.25:
            return [0.0, 0.0, 0.0]
        if full:
            return [_r(rng, -3.1, 3.1), _r(rng, -1.2, 1.2), _r(rng, -1.2, 1.2)]
        return [_r(rng, -3.1, 3.1), 0.0, 0.0]

    if kind in ("all", "empty"):
        p = {}
    elif kind == "box":
        p = {"c": [round(cx, 4), round(cy, 4), round(cz + z, 4)], "d": [_r(rng, 0.8, 2.2) * s, _r(rng, 0.8, 2.2) * s, _r(rng, 0.8, 2.0) * s], "ypr": ypr()}
    elif kind == "spheroid":
        p = {"c": [round(cx, 4), round(cy, 4), round(cz + z, 4)], "d": [_r(rng, 1.0, 2.2) * s, _r(rng, 1.0, 2.2) * s, _r(rng, 1.0, 2.2) * s], "ypr": ypr()}
    elif kind == "meshvol":
        shape = str(rng.choice(["L", "two", "U", "T"]))
        a, b, c, t = _r(rng, 2, 3), _r(rng, 2, 3), _r(rng, 0.8, 1.6), _r(rng, 0.5, 0.9)
        disjoint = False
        if shape == "L":  # two overlapping bars
            pieces = [[0, 0, 0, a, t, c], [-(a - t) / 2, (b - t) / 2, 0, t, b, c]]
        elif shape == "T":
            pieces = [[0, 0, 0, a, t, c], [0, 0, (c + a) / 2 - 0.2, t * 0.8, t * 0.8, a]]
        elif shape == "U":
            pieces = [[0, 0, 0, a, t, c], [-(a - t) / 2, (b - t) / 2, 0, t, b, c], [(a - t) / 2, (b - t) / 2, 0, t, b, c]]
        else:  # two separate bodies along z (for projection) or x
            disjoint = True
            g = _r(rng, 0.6, 1.5)
            if rng.random() < 0.5:
                pieces = [[0, 0, 0, a, b, t], [0.1, -0.1, t + g, a * 0.8, b * 0.8, t]]
            else:
                pieces = [[0, 0, 0, t, b, c], [t + g, 0.2, 0, t, b * 0.7, c]]
        pieces = [[round(float(v), 4) for v in row] for row in pieces]
        lo = np.min([np.array(r[:3]) - np.array(r[3:]) / 2 for r in pieces], axis=0)
        hi = np.max([np.array(r[:3]) + np.array(r[3:]) / 2 for r in pieces], axis=0)
        ext = hi - lo
        d = None if rng.random() < 0.5 else [round(float(e * f), 4) for e, f in zip(ext, rng.uniform(0.6, 1.3, 3) * s / 2)]
        p = {"shape": shape, "pieces": pieces, "disjoint": disjoint, "d": d, "c": [round(cx, 4), round(cy, 4), round(cz + z, 4)], "ypr": ypr()}
    elif kind == "meshsurf":
        shape = str(rng.choice(["boxsurf", "terrain", "patches"]))
        if shape == "boxsurf":
            w, l, h = _r(rng, 1, 2) * s, _r(rng, 1, 2) * s, _r(rng, 0.8, 1.6) * s
            V = [[sx * w / 2, sy * l / 2, sz * h / 2] for sx in (-1, 1) for sy in (-1, 1) for sz in (-1, 1)]
            # index = 4*ix + 2*iy + iz
            quads = [(0, 1, 3, 2), (4, 6, 7, 5), (0, 4, 5, 1), (2, 3, 7, 6), (0, 2, 6, 4), (1, 5, 7, 3)]
            F = []
            for q in quads:
                F += [[q[0], q[1], q[2]], [q[0], q[2], q[3]]]
        elif shape == "terrain":
            n = int(rng.integers(3, 6))
            xs = np.linspace(-1.5 * s, 1.5 * s, n)
            H = rng.uniform(-0.5, 0.5, (n, n)) * s * 0.5
            V = [[float(xs[i]), float(xs[j]), float(H[i, j])] for i in range(n) for j in range(n)]
            F = []
            for i in range(n - 1):
                for j in range(n - 1):
                    a0, b0, c0, d0 = i * n + j, (i + 1) * n + j, (i + 1) * n + j + 1, i * n + j + 1
                    F += [[a0, b0, c0], [a0, c0, d0]]
        else:  # two rectangles: one horizontal, one tilted
            w = 1.3 * s
            V = [[-w, -w, 0], [w, -w, 0], [w, w, 0], [-w, w, 0], [-w, -w / 2, -0.8 * s], [w, -w / 2, -0.8 * s], [w, w / 2, 0.9 * s], [-w, w / 2, 0.9 * s]]
            F = [[0, 1, 2], [0, 2, 3], [4, 5, 6], [4, 6, 7]]
        V = [[round(float(v), 4) for v in row] for row in V]
        p = {"shape": shape, "V": V, "F": F, "c": [round(cx, 4), round(cy, 4), round(cz + z, 4)], "ypr": ypr() if shape != "terrain" else ypr(False)}
    elif kind == "footprint":
        p = {"polys": gen_polys(rng, (cx, cy), s)}
    elif kind == "polygon":
        p = {"polys": gen_polys(rng, (cx, cy), s), "z": z}
    elif kind == "circle":
        p = {"c": [round(cx, 4), round(cy, 4), z], "r": _r(rng, 0.6, 1.3) * s}
    elif kind == "sector":
        p = {"c": [round(cx, 4), round(cy, 4), z], "r": _r(rng, 0.8, 1.6) * s, "heading": _r(rng, -3.1, 3.1), "angle": round(math.radians(float(rng.uniform(10, 350))), 4)}
    elif kind == "rect":
        p = {"c": [round(cx, 4), round(cy, 4), z], "heading": _r(rng, -3.1, 3.1), "w": _r(rng, 0.8, 2.0) * s, "l": _r(rng, 0.8, 2.4) * s}
    elif kind == "polyline":
        lines = []
        for _ in range(int(rng.integers(1, 3))):
            n = int(rng.integers(2, 6))
            pts = [[round(cx + float(rng.uniform(-2, 2)) * s, 4), round(cy + float(rng.uniform(-2, 2)) * s, 4)] for _ in range(n)]
            lines.append(pts)
        p = {"lines": lines}
        if not OPolyline(p).build_ok():
            return gen(kind, rng, z, ctr, scale)
    elif kind == "path":
        lines = []
        for _ in range(int(rng.integers(1, 3))):
            n = int(rng.integers(2, 5))
            pts = [[round(cx + float(rng.uniform(-2, 2)) * s, 4), round(cy + float(rng.uniform(-2, 2)) * s, 4), round(cz + z + float(rng.uniform(-1.2, 1.2)) * s, 4)] for _ in range(n)]
            if rng.random() < 0.3:  # a level stretch at the planar height (non-trivial polygon/path intersections)
                for q in pts:
                    q[2] = z
            lines.append(pts)
        p = {"lines": lines}
    elif kind == "pointset":
        n = int(rng.integers(8, 60))
        pts = [[round(cx + float(rng.uniform(-2, 2)) * s, 4), round(cy + float(rng.uniform(-2, 2)) * s, 4), z if rng.random() < 0.6 else round(cz + z + float(rng.uniform(-1, 1)) * s, 4)] for _ in range(n)]
        p = {"pts": pts}
    elif kind == "grid":
        ny, nx = int(rng.integers(3, 7)), int(rng.integers(3, 7))
        g = (rng.random((ny, nx)) < 0.35).astype(int)
        g[0, 0] = 0
        g[-1, -1] = 1
        p = {"grid": g.tolist(), "Ax": _r(rng, 0.4, 1.0), "Ay": _r(rng, 0.4, 1.0), "Bx": round(cx - 1.5, 4), "By": round(cy - 1.5, 4)}
    elif kind == "voxel":
        n = int(rng.integers(3, 6))
        D = rng.random((n, n, n)) < 0.5
        D[0, 0, 0] = True
        D[n - 1, n - 1, n - 1] = False
        pitch = _r(rng, 0.4, 0.9)
        p = {"dense": D.astype(int).tolist(), "pitch": pitch, "origin": [round(cx - n * pitch / 2, 4), round(cy - n * pitch / 2, 4), round(cz + z - n * pitch / 2, 4)]}
    elif kind == "view":
        mode = rng.random()
        a0 = round(math.radians(float(rng.uniform(30, 170))), 4)
        a1 = round(math.radians(float(rng.uniform(20, 120))), 4)
        if mode < 0.15:
            a0, a1 = round(2 * math.pi, 6), round(math.pi, 6)
        elif mode < 0.3:
            a1 = round(math.pi, 6)
        p = {"R": _r(rng, 2.0, 4.0), "angles": [a0, a1], "c": [round(cx, 4), round(cy, 4), round(cz + z, 4)], "ypr": ypr()}
    else:
        raise ValueError(kind)
    return {"kind": kind, "params": p}


def _polyline_ok(self):
    ls = sg.MultiLineString([[tuple(q) for q in l] for l in self.params["lines"]])
    if not ls.is_valid:
        return False
    L = np.linalg.norm(self.B - self.A, axis=1)
    return bool(L.min() > 0.2)


OPolyline.build_ok = _polyline_ok


# ------------------------------------------------------------------------------------------------
# equal-count cells for uniformity tests
# ------------------------------------------------------------------------------------------------
def kd_cells(ref, k):
    """split the reference sample into k cells of (nearly) equal count by recursive median cuts.
    Returns a function assign(P) -> cell index, and the reference counts."""
    splits = []  # tree as nested tuples

    def build(idx, kk):
        if kk <= 1 or len(idx) < 2:
            return None
        sub = ref[idx]
        ax = int(np.argmax(sub.max(axis=0) - sub.min(axis=0)))
        k1 = kk // 2
        q = k1 / kk
        cut = float(np.quantile(sub[:, ax], q))
        left = idx[sub[:, ax] <= cut]
        right = idx[sub[:, ax] > cut]
        if len(left) == 0 or len(right) == 0:
            return None
        return (ax, cut, build(left, k1), build(right, kk - k1))

    tree = build(np.arange(len(ref)), k)

    def assign(P):
        out = np.zeros(len(P), dtype=int)
        counter = [0]

        def rec(node, idx):
            if node is None:
                out[idx] = counter[0]
                counter[0] += 1
                return
            ax, cut, l, r = node
            m = P[idx, ax] <= cut
            rec(l, idx[m])
            rec(r, idx[~m])

        rec(tree, np.arange(len(P)))
        return out, counter[0]

    return assign


def homogeneity(ref_counts, obs_counts):
    """two-sample chi-square homogeneity statistic, degrees of freedom, p-value"""
    from scipy.stats import chi2

    r = np.asarray(ref_counts, float)
    o = np.asarray(obs_counts, float)
    keep = (r + o) > 0
    r, o = r[keep], o[keep]
    R, O = r.sum(), o.sum()
    tot = r + o
    er, eo = tot * R / (R + O), tot * O / (R + O)
    stat = float((((r - er) ** 2) / er).sum() + (((o - eo) ** 2) / eo).sum())
    df = int(len(r) - 1)
    return stat, df, float(chi2.sf(stat, df)) if df > 0 else 1.0
