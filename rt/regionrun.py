"""Scenic-side helpers shared by the region checks (C16, C03): calling the real API defensively,
classifying refusals, drawing samples, enumerating the discrete samplers' RNG outcomes exactly."""

import random

import numpy as np


def V(p):
    from scenic.core.vectors import Vector

    return Vector(float(p[0]), float(p[1]), float(p[2]))


def arr(v):
    return np.array([float(v[0]), float(v[1]), float(v[2])])


REFUSAL_WORDS = (
    "does not support",
    "does not yet support",
    "not have a well defined",
    "cannot test inclusion",
    "cannot take",
    "Cannot check intersection",
    "Attempted to sample from everywhere",
)


def outcome(fn, *a, **k):
    """('ok', value) | ('unsupported', text) | ('reject', text) | ('error', text)"""
    from scenic.core.distributions import RejectionException
    from scenic.core.regions import UndefinedSamplingException

    try:
        return ("ok", fn(*a, **k))
    except NotImplementedError as e:
        return ("unsupported", f"NotImplementedError: {e}"[:200])
    except UndefinedSamplingException as e:
        return ("unsupported", f"UndefinedSamplingException: {e}"[:200])
    except RejectionException as e:
        return ("reject", str(e)[:200])
    except (TypeError, RuntimeError) as e:
        msg = str(e)
        if any(w in msg for w in REFUSAL_WORDS):
            return ("unsupported", f"{type(e).__name__}: {msg}"[:200])
        return ("error", f"{type(e).__name__}: {msg}"[:300])
    except AssertionError as e:
        return ("error", f"AssertionError: {e}"[:300])
    except Exception as e:  # noqa
        return ("error", f"{type(e).__name__}: {e}"[:300])


def sampling_cost_guard(R, depth=0):
    """reason why driving R's sampler is impractical (the library's rejection loops are unbounded on sliver-like
    regions: up to 1e6 candidate points per draw for thin meshes, a `while True` loop for thin polygons), else None"""
    try:
        name = type(R).__name__
        if hasattr(R, "num_samples") and hasattr(R, "mesh"):
            if R.num_samples > 400:
                return "mesh with tiny volume fraction"
        if any(c.__name__ == "PolygonalRegion" for c in type(R).__mro__):
            g = R.polygons
            x0, y0, x1, y1 = g.bounds
            box = max((x1 - x0) * (y1 - y0), 1e-300)
            if g.area / box < 1e-4:
                return "sliver polygon"
        if depth < 3:
            for sub in list(getattr(R, "regions", ())) + [getattr(R, "regionA", None), getattr(R, "regionB", None)]:
                if sub is not None:
                    r = sampling_cost_guard(sub, depth + 1)
                    if r:
                        return r
    except Exception:
        return None
    return None


class Watchdog(Exception):
    pass


def with_watchdog(seconds, fn, *a, **k):
    """run fn under a SIGALRM watchdog (a firing watchdog is never a verdict: the caller counts it as skipped)"""
    import signal

    def handler(signum, frame):
        raise Watchdog()

    old = signal.signal(signal.SIGALRM, handler)
    signal.alarm(int(seconds))
    try:
        return fn(*a, **k)
    finally:
        signal.alarm(0)
        signal.signal(signal.SIGALRM, old)


def seed_global(seed):
    """Scenic's samplers draw from the global `random` and `numpy.random` state: seeding it is part of the workload."""
    random.seed(seed)
    np.random.seed(seed % (2**32))


def draw(region, n, max_tries=None):
    """n points from region.uniformPointInner(), retrying on rejection.
    Returns (points array (k,3), rejections, error text or None, 'unsupported' text or None)"""
    pts = []
    rejects = 0
    max_tries = max_tries or (20 * n + 200)
    tries = 0
    while len(pts) < n and tries < max_tries:
        tries += 1
        kind, val = outcome(region.uniformPointInner)
        if kind == "ok":
            if val is None:
                return np.array(pts).reshape(-1, 3), rejects, "uniformPointInner returned None", None
            pts.append(arr(val))
        elif kind == "reject":
            rejects += 1
        elif kind == "unsupported":
            return np.array(pts).reshape(-1, 3), rejects, None, val
        else:
            return np.array(pts).reshape(-1, 3), rejects, val, None
    return np.array(pts).reshape(-1, 3), rejects, None, None


class _Script:
    """replaces random.randrange / random.choice / random.randint by scripted branches (exact enumeration)"""

    def __init__(self):
        self.branch = 0
        self.arity = None
        self.calls = 0

    def pick(self, n):
        self.calls += 1
        if self.calls > 1:
            raise RuntimeError("more than one discrete RNG call per draw")
        self.arity = n
        return self.branch


def enumerate_discrete(region):
    """Run the real sampler once per outcome of its single discrete RNG call (randrange/choice).
    Returns (list of points, arity) or raises whatever the sampler raises."""
    s = _Script()
    saved = (random.randrange, random.choice, random.randint)

    def randrange(a, b=None):
        lo, hi = (0, a) if b is None else (a, b)
        return lo + s.pick(hi - lo)

    def choice(seq):
        seq = list(seq)
        return seq[s.pick(len(seq))]

    def randint(a, b):
        return a + s.pick(b - a + 1)

    random.randrange, random.choice, random.randint = randrange, choice, randint
    try:
        out = []
        s.branch, s.calls = 0, 0
        out.append(arr(region.uniformPointInner()))
        n = s.arity
        if n is None:
            return out, None
        for b in range(1, n):
            s.branch, s.calls = b, 0
            out.append(arr(region.uniformPointInner()))
        return out, n
    finally:
        random.randrange, random.choice, random.randint = saved
