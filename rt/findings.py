"""Known-findings protocol. /verif/known_findings.json is committed and never written at run time.

Entry: {"property": "C11", "key": "<mechanism>", "status": "known"|"fixed", "commit": "...", "what": "..."}
A `fixed` entry suppresses nothing.
"""

import json
import os

from .bootstrap import VERIF


def load(prop):
    path = os.path.join(VERIF, "known_findings.json")
    if not os.path.exists(path):
        return {}
    with open(path) as f:
        data = json.load(f)
    out = {}
    for e in data.get("findings", []):
        if e.get("property") == prop:
            out[e["key"]] = e
    return out
