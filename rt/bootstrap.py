"""Rebuild-from-tree + import isolation.

The only generated artefact of Scenic is src/scenic/syntax/parser.py (git-ignored, produced by pegen
from scenic.gram).  Every check regenerates it from /repo's *current* scenic.gram into a private
scratch directory and serves `scenic.syntax.parser` from there through a sys.meta_path finder, so a
change to the grammar is always seen and /repo is never written.

Parent process:  path = build_parser()  -> sets os.environ["VERIF_PARSER"]
Every process that imports scenic:  install()  (idempotent) before `import scenic`.
"""

import atexit
import importlib.abc
import importlib.util
import os
import shutil
import subprocess
import sys

REPO = os.environ.get("VERIF_REPO", "/repo")
VERIF = os.path.dirname(os.path.dirname(os.path.abspath(__file__)))
GRAM = os.path.join(REPO, "src", "scenic", "syntax", "scenic.gram")
PY = "/venv/bin/python"


class ParserBuildError(Exception):
    pass


def build_parser():
    """Generate the parser from the working tree's grammar. Returns its path (also exported in env)."""
    if os.environ.get("VERIF_PARSER") and os.path.exists(os.environ["VERIF_PARSER"]):
        return os.environ["VERIF_PARSER"]
    base = os.path.join(VERIF, ".build")
    if os.path.isdir(base):  # remove scratch dirs of dead processes
        for name in os.listdir(base):
            if name.isdigit() and not os.path.exists(f"/proc/{name}"):
                shutil.rmtree(os.path.join(base, name), ignore_errors=True)
    d = os.path.join(VERIF, ".build", str(os.getpid()))
    os.makedirs(d, exist_ok=True)
    out = os.path.join(d, "parser.py")
    r = subprocess.run(
        [PY, "-m", "pegen", GRAM, "-o", out],
        cwd=d,
        capture_output=True,
        text=True,
        timeout=300,
    )
    if r.returncode != 0 or not os.path.exists(out):
        shutil.rmtree(d, ignore_errors=True)
        raise ParserBuildError(r.stderr[-2000:])
    os.environ["VERIF_PARSER"] = out
    atexit.register(shutil.rmtree, d, True)
    return out


class _ParserFinder(importlib.abc.MetaPathFinder):
    def __init__(self, path):
        self.path = path

    def find_spec(self, fullname, path=None, target=None):
        if fullname == "scenic.syntax.parser":
            return importlib.util.spec_from_file_location(fullname, self.path)
        return None


_installed = False


def install():
    """Make `import scenic` use the working tree sources and the freshly generated parser."""
    global _installed
    if _installed:
        return
    p = os.environ.get("VERIF_PARSER")
    if not p or not os.path.exists(p):
        p = build_parser()
    sys.meta_path.insert(0, _ParserFinder(p))
    src = os.path.join(REPO, "src")
    if src not in sys.path:
        sys.path.insert(0, src)
    deps = os.path.join(VERIF, ".deps")
    if os.path.isdir(deps) and deps not in sys.path:
        sys.path.append(deps)
    _installed = True
    import warnings

    warnings.filterwarnings("ignore")


def ensure_deps():
    """icontract/deal live in /verif/.deps (git-ignored); install from the offline wheelhouse if absent."""
    deps = os.path.join(VERIF, ".deps")
    if os.path.isdir(os.path.join(deps, "icontract")):
        return True
    r = subprocess.run(
        [
            "/venv/bin/pip",
            "install",
            "--quiet",
            "--no-index",
            "--find-links",
            "/opt/veriftools/wheels",
            "--target",
            deps,
            "icontract",
            "deal",
        ],
        capture_output=True,
        text=True,
    )
    return r.returncode == 0
