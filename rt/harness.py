"""Driver: plan shards, run them in subprocesses, merge, apply known-findings protocol, write evidence.

Check module protocol (checks/cNN.py):
    PROPERTY, LEVEL, RULE, ASSUMPTIONS
    plan(tier, seed) -> [spec, ...]            JSON-able shard specs (optional key "timeout" seconds)
    run_shard(spec) -> result dict             (runs in a child after bootstrap.install())
        evaluations: int
        nontrivial: [str, ...]                 identifiers of distinct non-trivial cases
        counters: {name: int}                  what the monitors observed
        samples: [...]                         a few actual cases
        violations: [{key, what, witness}]     key = mechanism name from the check's classifier or None
        skipped: {reason: int}
    MIN_COUNTERS: {tier: {counter: minimum}}   deciding monitors; below minimum => inconclusive
    replay(witness) -> [violations]            optional
"""

import hashlib
import importlib
import json
import os
import subprocess
import sys
import tempfile
import time
from concurrent.futures import ThreadPoolExecutor

from . import bootstrap, findings

VERIF = bootstrap.VERIF
PY = bootstrap.PY


def _child_env(extra=None):
    env = dict(os.environ)
    env.setdefault("PYTHONHASHSEED", "0")
    env["PYTHONPATH"] = VERIF + os.pathsep + env.get("PYTHONPATH", "")
    env["PYTHONWARNINGS"] = "ignore"
    env["OMP_NUM_THREADS"] = "1"
    env["OPENBLAS_NUM_THREADS"] = "1"
    env["MKL_NUM_THREADS"] = "1"
    if extra:
        env.update(extra)
    return env


def _run_one(prop, spec, idx, scratch):
    specf = os.path.join(scratch, f"spec{idx}.json")
    outf = os.path.join(scratch, f"out{idx}.json")
    with open(specf, "w") as f:
        json.dump(spec, f)
    timeout = spec.get("timeout", 1500)
    t0 = time.time()
    try:
        r = subprocess.run(
            [PY, "-m", "rt.shardrun", prop, specf, outf],
            cwd=VERIF,
            env=_child_env(spec.get("env")),
            capture_output=True,
            text=True,
            timeout=timeout,
        )
    except subprocess.TimeoutExpired:
        return {"_status": "timeout", "_spec": spec, "_wall": time.time() - t0}
    if r.returncode != 0 or not os.path.exists(outf):
        return {
            "_status": "crash",
            "_spec": spec,
            "_stderr": (r.stderr or "")[-3000:],
            "_stdout": (r.stdout or "")[-1000:],
            "_rc": r.returncode,
        }
    with open(outf) as f:
        res = json.load(f)
    res["_status"] = "ok"
    res["_wall"] = time.time() - t0
    return res


def merge(results):
    m = {
        "evaluations": 0,
        "nontrivial": set(),
        "counters": {},
        "samples": [],
        "violations": [],
        "skipped": {},
        "problems": [],
        "extra": {},
    }
    for res in results:
        if res.get("_status") != "ok":
            m["problems"].append(
                {k: res.get(k) for k in ("_status", "_rc", "_stderr", "_spec") if k in res}
            )
            continue
        m["evaluations"] += int(res.get("evaluations", 0))
        m["nontrivial"].update(res.get("nontrivial", []))
        for k, v in res.get("counters", {}).items():
            m["counters"][k] = m["counters"].get(k, 0) + v
        for k, v in res.get("skipped", {}).items():
            m["skipped"][k] = m["skipped"].get(k, 0) + v
        if len(m["samples"]) < 8:
            m["samples"].extend(res.get("samples", [])[: max(1, 8 - len(m["samples"]))])
        m["violations"].extend(res.get("violations", []))
        for k, v in res.get("extra", {}).items():
            if isinstance(v, list):
                m["extra"].setdefault(k, [])
                for x in v:
                    if x not in m["extra"][k]:
                        m["extra"][k].append(x)
            elif isinstance(v, (int, float)):
                m["extra"][k] = m["extra"].get(k, 0) + v
            else:
                m["extra"][k] = v
    return m


def write_evidence(mod, tier, seed, m, wall, n_viol, verdict, known_hits):
    cov = {
        "evaluations": m["evaluations"],
        "distinct_nontrivial": len(m["nontrivial"]),
        "rule": mod.RULE,
        "samples": m["samples"][:8] or ["<none>"],
        "counters": dict(sorted(m["counters"].items())),
        "skipped": dict(sorted(m["skipped"].items())),
        "verdict": verdict,
        "known_findings_reproduced": sorted(known_hits),
        "shard_problems": len(m["problems"]),
    }
    cov.update(m.get("extra", {}))
    if getattr(mod, "EXHAUSTIVE", None) and tier in mod.EXHAUSTIVE:
        cov["exhaustive_part"] = mod.EXHAUSTIVE[tier]
    ev = {
        "property_id": mod.PROPERTY,
        "tier": tier,
        "seed": seed,
        "level": mod.LEVEL,
        "coverage": cov,
        "assumptions": list(getattr(mod, "ASSUMPTIONS", [])),
        "wall_s": round(wall, 2),
        "violations": n_viol,
    }
    os.makedirs(os.path.join(VERIF, "evidence"), exist_ok=True)
    path = os.path.join(VERIF, "evidence", f"{mod.PROPERTY}.json")
    tmp = path + ".tmp"
    with open(tmp, "w") as f:
        json.dump(ev, f, indent=1, sort_keys=False, default=str)
    os.replace(tmp, path)
    return path


def write_replay(prop, v):
    os.makedirs(os.path.join(VERIF, "replays"), exist_ok=True)
    blob = json.dumps(v, sort_keys=True, default=str)
    h = hashlib.sha1(blob.encode()).hexdigest()[:12]
    path = os.path.join(VERIF, "replays", f"{prop}-{h}.json")
    with open(path, "w") as f:
        f.write(json.dumps(v, indent=1, default=str))
    return path


def main(argv=None):
    import argparse

    ap = argparse.ArgumentParser()
    ap.add_argument("prop")
    ap.add_argument("--tier", default=os.environ.get("VERIF_TIER", "quick"))
    ap.add_argument("--seed", type=int, default=int(os.environ.get("VERIF_SEED", "0") or 0))
    ap.add_argument("--replay")
    ap.add_argument("--jobs", type=int, default=int(os.environ.get("VERIF_JOBS", "16")))
    ap.add_argument("--no-evidence", action="store_true")
    args = ap.parse_args(argv)
    prop = args.prop.upper()
    tier = args.tier if args.tier in ("quick", "thorough") else "quick"
    t0 = time.time()
    os.environ.setdefault("PYTHONHASHSEED", "0")
    try:
        bootstrap.build_parser()
    except Exception as e:  # grammar does not build: nothing can be decided
        print(f"INCONCLUSIVE property={prop} reason=parser-generation-failed: {str(e)[-500:]}")
        return 2
    bootstrap.ensure_deps()
    mod = importlib.import_module(f"checks.{prop.lower()}")

    if args.replay:
        with open(args.replay) as f:
            v = json.load(f)
        spec = {"replay": v.get("witness", v), "timeout": 1500}
        scratch = tempfile.mkdtemp(prefix="verif-")
        res = _run_one(prop, spec, 0, scratch)
        viols = res.get("violations", []) if res.get("_status") == "ok" else []
        if res.get("_status") != "ok":
            print(f"INCONCLUSIVE property={prop} reason=replay-{res.get('_status')}")
            print(res.get("_stderr", ""))
            return 2
        for x in viols:
            print(f"[{prop}] violation key={x.get('key')}: {x.get('what')}")
            print(f"VIOLATION property={prop} replay={args.replay}")
        if not viols:
            print(f"replay: property={prop} no violation reproduced")
        return 1 if viols else 0

    specs = mod.plan(tier, args.seed)
    for s in specs:
        s.setdefault("tier", tier)
        s.setdefault("seed", args.seed)
    scratch = tempfile.mkdtemp(prefix="verif-")
    try:
        with ThreadPoolExecutor(max_workers=max(1, args.jobs)) as ex:
            results = list(ex.map(lambda a: _run_one(prop, a[1], a[0], scratch), enumerate(specs)))
    finally:
        import shutil

        shutil.rmtree(scratch, ignore_errors=True)
    m = merge(results)
    if hasattr(mod, "finalize"):
        mod.finalize(m, tier, args.seed)

    try:
        os.makedirs(os.path.join(VERIF, ".build"), exist_ok=True)
        with open(os.path.join(VERIF, ".build", f"last-{prop}.json"), "w") as f:
            json.dump({"violations": m["violations"], "problems": m["problems"]}, f, default=str)
    except Exception:
        pass
    known = findings.load(prop)
    known_hits = {}
    new = []
    for v in m["violations"]:
        k = v.get("key")
        if k and k in known and known[k]["status"] == "known":
            known_hits.setdefault(k, v)
        else:
            new.append(v)
    for k in sorted(known_hits):
        print(f"KNOWN-FINDING: property={prop} key={k} {known[k]['what']}")

    # verdict
    inconclusive = []
    if m["problems"]:
        for p in m["problems"]:
            inconclusive.append(f"shard-{p.get('_status')}")
    mins = getattr(mod, "MIN_COUNTERS", {}).get(tier, {})
    for c, lo in mins.items():
        if m["counters"].get(c, 0) < lo:
            inconclusive.append(f"monitor-not-reached:{c}={m['counters'].get(c, 0)}<{lo}")
    if len(m["nontrivial"]) < 2:
        inconclusive.append("too-few-nontrivial-cases")

    wall = time.time() - t0
    if new:
        verdict = "violated"
    elif inconclusive:
        verdict = "inconclusive"
    else:
        verdict = "held"
    if not args.no_evidence:
        write_evidence(mod, tier, args.seed, m, wall, len(new), verdict, known_hits.keys())
    summary = {k: v for k, v in sorted(m["counters"].items())}
    print(
        f"[{prop}] tier={tier} seed={args.seed} evaluations={m['evaluations']} "
        f"distinct_nontrivial={len(m['nontrivial'])} wall={wall:.1f}s verdict={verdict}"
    )
    print(f"[{prop}] observed: {json.dumps(summary)}")
    if m["skipped"]:
        print(f"[{prop}] skipped: {json.dumps(m['skipped'])}")
    if new:
        seen = set()
        for v in new:
            sig = (v.get("key"),) if v.get("key") else (None, v.get("what"))
            if sig in seen:
                continue
            seen.add(sig)
            if len(seen) > 10:
                break
            path = write_replay(prop, v)
            print(f"[{prop}] violation key={v.get('key')}: {v.get('what')}")
            print(f"VIOLATION property={prop} replay={path}")
        return 1
    if inconclusive:
        for p in m["problems"][:3]:
            print(f"[{prop}] shard problem: {json.dumps(p, default=str)[:3000]}")
        print(f"INCONCLUSIVE property={prop} reason={';'.join(sorted(set(inconclusive)))}")
        return 2
    return 0
