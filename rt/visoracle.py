"""Independent analytic oracle for the visibility property (C17).  Pure numpy; imports nothing from scenic.

Conventions (from docs/tutorials/fundamentals.rst and docs/reference): orientation = parent * Rz(yaw) * Rx(pitch)
* Ry(roll) (intrinsic Z-X'-Y''), the local forward axis is +Y, headings/azimuths are counter-clockwise from +Y
seen from +Z, altitude is the elevation above the local XY plane.  Object dimensions: width->x, length->y,
height->z.  The view volume of a viewer is { q : |q| <= d, |azimuth(q)| <= hAngle/2, |altitude(q)| <= vAngle/2 }
in the camera's local frame, the camera sitting at position + R * cameraOffset.

Every answer is three-valued: True / False / None (None = not definite, the case is skipped by the check).
"""

import math

import numpy as np

TAU = 2 * math.pi
M_ANG = 0.02  # rad
M_RAD = 1e-3  # relative
EPS = 1e-3  # absolute geometric margin (m) for boxes


def rot(yaw, pitch, roll):
    cz, sz = math.cos(yaw), math.sin(yaw)
    cx, sx = math.cos(pitch), math.sin(pitch)
    cy, sy = math.cos(roll), math.sin(roll)
    Rz = np.array([[cz, -sz, 0.0], [sz, cz, 0.0], [0.0, 0.0, 1.0]])
    Rx = np.array([[1.0, 0.0, 0.0], [0.0, cx, -sx], [0.0, sx, cx]])
    Ry = np.array([[cy, 0.0, sy], [0.0, 1.0, 0.0], [-sy, 0.0, cy]])
    return Rz @ Rx @ Ry


def dir_from(az, alt):
    return np.array([-math.sin(az) * math.cos(alt), math.cos(az) * math.cos(alt), math.sin(alt)])


def az_alt(q):
    rho = float(np.linalg.norm(q))
    az = math.atan2(-q[0], q[1])
    alt = math.asin(max(-1.0, min(1.0, q[2] / rho))) if rho > 0 else 0.0
    return rho, az, alt


class Viewer:
    """kind: Point | OrientedPoint | Object.  R = None for Point viewers (no orientation: global frame)."""

    def __init__(self, pos, R, cam_off, d, h, v):
        self.pos = np.asarray(pos, float)
        self.R = np.eye(3) if R is None else R
        self.cam = self.pos + self.R @ np.asarray(cam_off, float)
        self.d, self.h, self.v = d, h, v

    def local(self, p):
        return self.R.T @ (np.asarray(p, float) - self.cam)

    def to_global(self, q):
        return self.cam + self.R @ np.asarray(q, float)


def point_class(q, d, h, v, m_ang=M_ANG, m_rad=M_RAD):
    """'in' / 'out' / None for a point with local coordinates q."""
    rho, az, alt = az_alt(q)
    if rho < 1e-6:
        return None
    polar = math.cos(alt) < 1e-3  # azimuth ill-conditioned
    full_h = h >= TAU - 1e-9
    full_v = v >= math.pi - 1e-9
    # definitely outside
    if rho >= d * (1 + m_rad):
        return "out"
    if not full_v and abs(alt) >= v / 2 + m_ang:
        return "out"
    if not full_h and not polar and abs(az) >= h / 2 + m_ang and h / 2 + m_ang < math.pi:
        return "out"
    # definitely inside
    if rho > d * (1 - m_rad):
        return None
    if not full_v and abs(alt) > v / 2 - m_ang:
        return None
    if not full_h:
        if polar or abs(az) > h / 2 - m_ang:
            return None
    return "in"


# ---------------------------------------------------------------------------------------------------------
# boxes


class Box:
    def __init__(self, c, R, dims, occluding=True):
        self.c = np.asarray(c, float)
        self.R = R
        self.hd = np.asarray(dims, float) / 2.0
        self.occluding = occluding

    def to_local(self, p):
        return self.R.T @ (np.asarray(p, float) - self.c)

    def corners(self):
        out = []
        for sx in (-1, 1):
            for sy in (-1, 1):
                for sz in (-1, 1):
                    out.append(self.c + self.R @ (self.hd * np.array([sx, sy, sz])))
        return np.array(out)

    def contains(self, p, grow=0.0):
        q = self.to_local(p)
        return bool(np.all(np.abs(q) <= self.hd + grow))

    def dist_to_point(self, p):
        q = np.abs(self.to_local(p)) - self.hd
        return float(np.linalg.norm(np.maximum(q, 0.0)))


def seg_box(a, b, hd):
    """Intersection parameter interval of the segment a->b (points given in the box frame) with the axis-aligned
    box of half dimensions hd; None if empty."""
    d = b - a
    t0, t1 = 0.0, 1.0
    for i in range(3):
        if hd[i] <= 0:
            return None
        if abs(d[i]) < 1e-15:
            if abs(a[i]) > hd[i]:
                return None
            continue
        ta = (-hd[i] - a[i]) / d[i]
        tb = (hd[i] - a[i]) / d[i]
        if ta > tb:
            ta, tb = tb, ta
        t0 = max(t0, ta)
        t1 = min(t1, tb)
        if t0 > t1:
            return None
    return (t0, t1)


def point_occlusion(cam, tgt, boxes):
    """True = definitely blocked by some occluding box, False = definitely clear of all, None = undecided."""
    undecided = False
    for bx in boxes:
        if not bx.occluding:
            continue
        if bx.contains(cam, grow=EPS):
            return None  # camera inside an occluder: out of fragment
        a, b = bx.to_local(cam), bx.to_local(tgt)
        if seg_box(a, b, bx.hd - EPS) is not None:
            return True
        if seg_box(a, b, bx.hd + EPS) is not None:
            undecided = True
    return None if undecided else False


def expected_point(viewer, tgt, boxes):
    """(expected, class) for a point target."""
    q = viewer.local(tgt)
    cls = point_class(q, viewer.d, viewer.h, viewer.v)
    if cls is None:
        return None, "boundary"
    if cls == "out":
        return False, "out"
    occ = point_occlusion(viewer.cam, tgt, boxes)
    if occ is None:
        return None, "occlusion-undecided"
    return (not occ), ("in-blocked" if occ else "in-clear")


def ray_box_hits(o, dvec, bx):
    """All boundary-crossing distances (>0) of the ray o + t*dvec (|dvec|=1) with the box surface."""
    a = bx.to_local(o)
    d = bx.R.T @ dvec
    tmin, tmax = -math.inf, math.inf
    for i in range(3):
        if abs(d[i]) < 1e-15:
            if abs(a[i]) > bx.hd[i]:
                return []
            continue
        ta = (-bx.hd[i] - a[i]) / d[i]
        tb = (bx.hd[i] - a[i]) / d[i]
        if ta > tb:
            ta, tb = tb, ta
        tmin = max(tmin, ta)
        tmax = min(tmax, tb)
    if tmin > tmax:
        return []
    return [t for t in (tmin, tmax) if t > 0]


def rotate_first_model(viewer, oriented, tgt, boxes):
    """What a point query returns if the absolute target location is rotated into the viewer's frame *about the
    world origin* and the viewer position subtracted only afterwards (candidate defect).  None if numerically
    ambiguous."""
    tgt = np.asarray(tgt, float)
    dist = float(np.linalg.norm(tgt - viewer.cam))
    if abs(dist - viewer.d) < 1e-7:
        return None
    if dist > viewer.d:
        return False
    loc = viewer.R.T @ tgt if oriented else tgt
    vtx = loc - viewer.cam
    n = float(np.linalg.norm(vtx))
    if n < 1e-9:
        return None
    ray = vtx / n
    az = math.atan2(-ray[0], ray[1])
    alt = math.asin(max(-1.0, min(1.0, ray[2])))
    for val, lim in ((abs(az), viewer.h / 2), (abs(alt), viewer.v / 2)):
        if abs(val - lim) < 1e-7:
            return None
    if abs(az) > viewer.h / 2 or abs(alt) > viewer.v / 2:
        return False
    g = viewer.R @ ray if oriented else ray
    for bx in boxes:
        if not bx.occluding:
            continue
        for t in ray_box_hits(viewer.cam, g, bx):
            if abs(t - dist) < 1e-6:
                return None
            if t <= dist:
                return False
    return True


# ---------------------------------------------------------------------------------------------------------
# convex target models (inner approximations of Scenic's meshes, verified at run time by the check)

SHRINK = {"box": 1.0, "spheroid": 0.93, "cylinder": 0.97, "cone": 0.93}


class Target:
    """shape in box|spheroid|cylinder|cone, dims=(w,l,h), pose (c,R)."""

    def __init__(self, shape, c, R, dims, occluding=True):
        self.shape = shape
        self.c = np.asarray(c, float)
        self.R = R
        self.dims = np.asarray(dims, float)
        self.hd = self.dims / 2.0
        self.occluding = occluding
        self.radius = float(np.linalg.norm(self.hd))

    def as_box(self):
        return Box(self.c, self.R, self.dims, self.occluding)

    def inside_unit(self, s):
        """membership of the inner model; s = local coordinates divided by the half dimensions (so in [-1,1]^3)."""
        k = SHRINK[self.shape]
        x, y, z = s
        if self.shape == "box":
            m = 1e-9
            return abs(x) <= 1 - m and abs(y) <= 1 - m and abs(z) <= 1 - m
        if self.shape == "spheroid":
            return x * x + y * y + z * z <= k * k
        if self.shape == "cylinder":
            return x * x + y * y <= k * k and abs(z) <= 1 - 1e-9
        if self.shape == "cone":
            # apex at z=+1, base (unit disc) at z=-1 ; shrunk about the point (0,0,-1/3)
            zz = (z + 1 / 3) / k - 1 / 3
            xx, yy = x / k, y / k
            if zz < -1 or zz > 1:
                return False
            rr = (1 - zz) / 2
            return xx * xx + yy * yy <= rr * rr
        raise ValueError(self.shape)

    def ray_interval(self, o, dvec):
        """[t_in, t_out] (t >= 0) of the ray o + t*dvec with the inner model, or None."""
        a = (self.R.T @ (np.asarray(o, float) - self.c)) / self.hd
        d = (self.R.T @ dvec) / self.hd
        k = SHRINK[self.shape]
        crit = [0.0]

        def lin(coef_a, coef_d, val):  # coef_a + t*coef_d = val
            if abs(coef_d) > 1e-15:
                crit.append((val - coef_a) / coef_d)

        def quad(A, B, C):
            if abs(A) < 1e-15:
                if abs(B) > 1e-15:
                    crit.append(-C / B)
                return
            disc = B * B - 4 * A * C
            if disc >= 0:
                r = math.sqrt(disc)
                crit.append((-B - r) / (2 * A))
                crit.append((-B + r) / (2 * A))

        if self.shape == "box":
            for i in range(3):
                lin(a[i], d[i], -1.0)
                lin(a[i], d[i], 1.0)
        elif self.shape == "spheroid":
            quad(d @ d, 2 * (a @ d), a @ a - k * k)
        elif self.shape == "cylinder":
            quad(d[0] ** 2 + d[1] ** 2, 2 * (a[0] * d[0] + a[1] * d[1]), a[0] ** 2 + a[1] ** 2 - k * k)
            lin(a[2], d[2], -1.0)
            lin(a[2], d[2], 1.0)
        elif self.shape == "cone":
            # in shrunk coordinates: X=x/k, Y=y/k, Z=(z+1/3)/k-1/3 ;  X^2+Y^2 = ((1-Z)/2)^2
            aX, dX = a[0] / k, d[0] / k
            aY, dY = a[1] / k, d[1] / k
            aZ, dZ = (a[2] + 1 / 3) / k - 1 / 3, d[2] / k
            # (aX+t dX)^2 + (aY+t dY)^2 - ((1-aZ-t dZ)/2)^2 = 0
            p, q_ = (1 - aZ) / 2, -dZ / 2
            quad(dX * dX + dY * dY - q_ * q_, 2 * (aX * dX + aY * dY - p * q_), aX * aX + aY * aY - p * p)
            lin(aZ, dZ, -1.0)
            lin(aZ, dZ, 1.0)
        ts = sorted(set(t for t in crit if t >= 0.0 and math.isfinite(t)))
        if not ts:
            return None
        ts.append(ts[-1] + 1.0)
        for lo, hi in zip(ts[:-1], ts[1:]):
            if hi - lo < 1e-12:
                continue
            mid = (lo + hi) / 2
            if self.inside_unit(a + mid * d):
                # convex: the first inside interval is the only one; extend over following inside intervals
                end = hi
                return (lo, end)
        return None

    def interior_points(self, rng, n):
        out = []
        tries = 0
        while len(out) < n and tries < 40 * n:
            tries += 1
            s = rng.uniform(-0.9, 0.9, 3)
            if self.inside_unit(s):
                out.append(self.c + self.R @ (s * self.hd))
        return out


def cap_az_halfwidth(r, alt):
    """max azimuth deviation over a spherical cap of angular radius r centred at altitude alt; None if the cap
    reaches a pole."""
    if r + abs(alt) >= math.pi / 2 - 0.01:
        return None
    return math.asin(min(1.0, math.sin(r) / math.cos(alt)))


def sphere_outside(viewer, c, radius):
    """True if the ball (c, radius) definitely misses the view volume."""
    q = viewer.local(c)
    rho, az, alt = az_alt(q)
    d, h, v = viewer.d, viewer.h, viewer.v
    if rho - radius >= d * (1 + M_RAD) + EPS:
        return True
    if rho <= radius * 1.001 + 1e-6:
        return False
    a = math.asin(min(1.0, radius / rho))
    if v < math.pi - 1e-9:
        if alt - a >= v / 2 + M_ANG or alt + a <= -v / 2 - M_ANG:
            return True
    if h < TAU - 1e-9:
        dl = cap_az_halfwidth(a, alt)
        if dl is not None:
            lim = h / 2 + M_ANG
            if abs(az) - dl >= lim and TAU - abs(az) - dl >= lim:
                return True
    return False


def _hull2d(pts):
    pts = sorted(set((round(float(x), 12), round(float(y), 12)) for x, y in pts))
    if len(pts) <= 2:
        return pts

    def cross(o, a, b):
        return (a[0] - o[0]) * (b[1] - o[1]) - (a[1] - o[1]) * (b[0] - o[0])

    lower, upper = [], []
    for p in pts:
        while len(lower) >= 2 and cross(lower[-2], lower[-1], p) <= 0:
            lower.pop()
        lower.append(p)
    for p in reversed(pts):
        while len(upper) >= 2 and cross(upper[-2], upper[-1], p) <= 0:
            upper.pop()
        upper.append(p)
    return lower[:-1] + upper[:-1]


def _origin_dist_to_hull(hull):
    """distance from (0,0) to a convex polygon given CCW; 0 if inside."""
    n = len(hull)
    if n == 0:
        return math.inf
    if n == 1:
        return math.hypot(*hull[0])
    inside = n >= 3
    best = math.inf
    for i in range(n):
        a, b = hull[i], hull[(i + 1) % n]
        ex, ey = b[0] - a[0], b[1] - a[1]
        if inside and (ex * (0 - a[1]) - ey * (0 - a[0])) < 0:  # cross(e, o-a) < 0 => outside this edge
            inside = False
        L2 = ex * ex + ey * ey
        t = 0.0 if L2 == 0 else max(0.0, min(1.0, (-(a[0]) * ex - a[1] * ey) / L2))
        best = min(best, math.hypot(a[0] + t * ex, a[1] + t * ey))
    return 0.0 if inside else best


def cone_clear_of_box(cam, u, half_angle, bx):
    """True if the cone (apex cam, axis u, half_angle < 90deg) definitely misses the box."""
    V = bx.corners() - cam
    s = V @ u
    if np.all(s <= 0):
        return True
    if not np.all(s > 1e-6):
        return False
    e1 = np.cross(u, [1.0, 0.0, 0.0])
    if np.linalg.norm(e1) < 0.3:
        e1 = np.cross(u, [0.0, 1.0, 0.0])
    e1 /= np.linalg.norm(e1)
    e2 = np.cross(u, e1)
    P = [((V[i] @ e1) / s[i], (V[i] @ e2) / s[i]) for i in range(len(V))]
    dist = _origin_dist_to_hull(_hull2d(P))
    return dist > math.tan(half_angle) * 1.05 + 0.01


def wall_covers(cam, tgt_corners, bx):
    """True if every segment from cam to a point of conv(tgt_corners) passes through the solid box bx
    (certified: cam and the corners lie on opposite sides of the box along one of its axes and every
    cam->corner segment crosses the mid-plane well inside the box's cross-section)."""
    a = bx.to_local(cam)
    C = np.array([bx.to_local(p) for p in tgt_corners])
    m = 0.02
    for k in range(3):
        t = bx.hd[k]
        for sign in (1, -1):
            if sign * a[k] > t + EPS and np.all(sign * C[:, k] < -t - EPS):
                ok = True
                for c in C:
                    lam = a[k] / (a[k] - c[k])  # crossing of the mid-plane x_k = 0
                    x = a + lam * (c - a)
                    for j in range(3):
                        if j != k and abs(x[j]) > bx.hd[j] * (1 - 0.05) - m:
                            ok = False
                    if not ok:
                        break
                if ok:
                    return True
    return False


def ring_dirs(u, r, n=12):
    e1 = np.cross(u, [1.0, 0.0, 0.0])
    if np.linalg.norm(e1) < 0.3:
        e1 = np.cross(u, [0.0, 1.0, 0.0])
    e1 /= np.linalg.norm(e1)
    e2 = np.cross(u, e1)
    out = [u]
    for i in range(n):
        a = TAU * i / n
        out.append(math.cos(r) * u + math.sin(r) * (math.cos(a) * e1 + math.sin(a) * e2))
    return out


def certify_visible_disc(viewer, tgt, boxes, u_global, r):
    """True if the whole cap of angular radius r around global direction u is (a) inside the view window with
    margin, (b) covered by the convex inner model of the target at distance <= d(1-m) and (c) free of every
    occluding box up to the target.  Returns (ok, info)."""
    rr = r * 1.1 / math.cos(math.pi / 12)  # ring radius whose 12-gon hull contains the cap of radius 1.1 r
    if rr > 0.6:
        return False, "disc-too-wide"
    ul = viewer.R.T @ u_global
    _, az, alt = az_alt(ul)
    if abs(alt) + rr > 1.45:
        return False, "near-pole"
    if viewer.v < math.pi - 1e-9 and abs(alt) + rr > viewer.v / 2 - M_ANG:
        return False, "window"
    if viewer.h < TAU - 1e-9:
        dl = cap_az_halfwidth(rr, alt)
        if dl is None or abs(az) + dl > viewer.h / 2 - M_ANG:
            return False, "window"
    entries = []
    inside = False
    for g in ring_dirs(u_global, rr):
        iv = tgt.ray_interval(viewer.cam, g)
        if iv is None:
            return False, "ring-miss"
        if iv[0] > viewer.d * (1 - M_RAD) - EPS:
            return False, "ring-too-far"
        if iv[0] <= 1e-12:
            inside = True
        entries.append(iv[0])
    far = max(entries)
    for bx in boxes:
        if not bx.occluding:
            continue
        if bx.contains(viewer.cam, grow=EPS):
            return False, "cam-in-occluder"
        if bx.dist_to_point(viewer.cam) > far + 10 * EPS:
            continue
        if cone_clear_of_box(viewer.cam, u_global, rr, bx):
            continue
        return False, "occluder-near-disc"
    return True, ("inside" if inside else "ok")


def expected_object(viewer, tgt, boxes, spacing, rng):
    """(expected, class).  spacing = nominal angular ray spacing (rad) of the real query."""
    cam_in_occ = any(b.occluding and b.contains(viewer.cam, grow=EPS) for b in boxes)
    if sphere_outside(viewer, tgt.c, tgt.radius + EPS):
        return False, "sphere-outside"
    if cam_in_occ:
        return None, "cam-in-occluder"
    corners = tgt.as_box().corners()
    for bx in boxes:
        if bx.occluding and wall_covers(viewer.cam, corners, bx):
            return False, "fully-occluded"
    r = max(6 * spacing, 0.02)
    cands = [tgt.c] + tgt.interior_points(rng, 24)
    why = {}
    cam_inside = tgt.ray_interval(viewer.cam, np.array([0.0, 1.0, 0.0]))
    cam_inside = cam_inside is not None and cam_inside[0] <= 1e-12
    if cam_inside:
        # any direction in the window works: add window directions
        for _ in range(6):
            az = rng.uniform(-viewer.h / 2, viewer.h / 2) * 0.6
            alt = rng.uniform(-viewer.v / 2, viewer.v / 2) * 0.6
            cands.append(viewer.to_global(dir_from(az, alt)))
    for p in cands:
        g = np.asarray(p, float) - viewer.cam
        n = np.linalg.norm(g)
        if n < 1e-6:
            continue
        ok, info = certify_visible_disc(viewer, tgt, boxes, g / n, r)
        if ok:
            return True, ("visible-cam-inside" if info == "inside" else "visible-disc")
        why[info] = why.get(info, 0) + 1
    return None, "undecided"
