"""Independent solid-geometry oracle (DESIGN 1.5) -- used by C04, C02 (and available to C16/C17).

Everything here is written from the mathematics, not from Scenic: no trimesh, no FCL, no shapely and
no Scenic import.  Trusted base: numpy, scipy.optimize.linprog (HiGHS) and scipy.spatial.ConvexHull
(qhull, only to turn a vertex list into half-spaces; the result is sanity-checked against the vertices).

Vocabulary
----------
* `Convex`  : a full-dimensional convex polytope in R^d (d = 2 or 3) known both by vertices V and by
              half-spaces A x <= b (rows of A have unit Euclidean norm).
* `Solid`   : a finite union of `Convex` pieces given in *shape coordinates*; `Solid.unit()` mimics what
              the documentation says a Shape does (centre the bounding box at the origin, scale the
              bounding box to 1x1x1), `Solid.placed(dims, pos, R)` scales to (width, length, height),
              rotates and translates.
* rotation  : `rotation(yaw, pitch, roll)` = Rz(yaw) Rx(pitch) Ry(roll)  (docs/reference/data.rst:
              "right hand rule with the Z,X,Y order of rotations ... (Yaw, Pitch, Roll) ... applied in that
              order", intrinsic).  Heading 0 = +Y, positive yaw = anticlockwise seen from +Z.

Three-valued answers: True / False are *certified* (each comes with an explicit witness: a ball of radius
> eps in the intersection / a separating direction with gap > eps / a point of the object farther than
eps from the container / an eps-inflated object still inside); None = within eps of touching.
"""

import itertools
import math

import numpy as np
from scipy.optimize import linprog
from scipy.spatial import ConvexHull

EPS = 1e-4  # default margin that separates "definite" from "near touching" (scene units)
TINY = 1e-9  # cells thinner than this are treated as empty (measure zero seams)

STATS = {"lp": 0, "gjk": 0, "gjk_iters": 0, "gjk_nonconverged": 0}


# ---------------------------------------------------------------------------------------------
# rotations
# ---------------------------------------------------------------------------------------------
def rotation(yaw, pitch, roll):
    """Intrinsic Z (yaw), then X (pitch), then Y (roll)."""
    cz, sz = math.cos(yaw), math.sin(yaw)
    cx, sx = math.cos(pitch), math.sin(pitch)
    cy, sy = math.cos(roll), math.sin(roll)
    Rz = np.array([[cz, -sz, 0.0], [sz, cz, 0.0], [0.0, 0.0, 1.0]])
    Rx = np.array([[1.0, 0.0, 0.0], [0.0, cx, -sx], [0.0, sx, cx]])
    Ry = np.array([[cy, 0.0, sy], [0.0, 1.0, 0.0], [-sy, 0.0, cy]])
    return Rz @ Rx @ Ry


# ---------------------------------------------------------------------------------------------
# convex pieces
# ---------------------------------------------------------------------------------------------
def _dedupe_rows(A, b, tol=1e-9):
    # qhull triangulates facets: merge coplanar ones (same unit normal and offset up to 1e-9)
    order = np.lexsort(np.hstack([A, b[:, None]]).T[::-1])
    keepA, keepb = [], []
    for i in order:
        if keepA and np.max(np.abs(A[i] - keepA[-1])) < 1e-9 and abs(b[i] - keepb[-1]) < 1e-9:
            continue
        keepA.append(A[i])
        keepb.append(b[i])
    return np.array(keepA), np.array(keepb)


class Convex:
    """conv(V) = {x : A x <= b}, rows of A unit length."""

    __slots__ = ("V", "A", "b", "c", "rad", "d")

    def __init__(self, V, A=None, b=None):
        V = np.asarray(V, dtype=float)
        self.d = V.shape[1]
        if A is None:
            hull = ConvexHull(V)
            eq = hull.equations
            A = eq[:, :-1].copy()
            b = -eq[:, -1].copy()
            n = np.linalg.norm(A, axis=1)
            A /= n[:, None]
            b /= n
            A, b = _dedupe_rows(A, b)
            V = V[hull.vertices]
            # sanity: every vertex satisfies every half-space, every facet is touched by >= d vertices
            viol = (V @ A.T - b).max()
            scale = max(1.0, np.abs(V).max())
            if viol > 1e-7 * scale:
                raise ValueError(f"qhull H-representation inconsistent with vertices ({viol})")
            tight = (np.abs(V @ A.T - b) < 1e-7 * scale).sum(axis=0)
            if tight.min() < self.d:
                raise ValueError("qhull facet with too few vertices")
        self.V = V
        self.A = np.asarray(A, dtype=float)
        self.b = np.asarray(b, dtype=float)
        lo, hi = V.min(axis=0), V.max(axis=0)
        self.c = (lo + hi) / 2
        self.rad = float(np.linalg.norm(V - self.c, axis=1).max())

    def affine(self, M, t):
        """Image under x -> M x + t (M invertible)."""
        M = np.asarray(M, dtype=float)
        t = np.asarray(t, dtype=float)
        V = self.V @ M.T + t
        A = self.A @ np.linalg.inv(M)
        n = np.linalg.norm(A, axis=1)
        A = A / n[:, None]
        b = self.b / n + A @ t
        return Convex(V, A, b)

    def inflated(self, eps):
        """A polytope containing every point within eps of self: scaling about an interior point by
        1 + eps / (distance from that point to the nearest facet)."""
        c = self.V.mean(axis=0)
        slack = self.b - self.A @ c
        m = slack.min()
        if m <= 0:
            raise ValueError("degenerate piece")
        k = eps / m
        return Convex(c + (1 + k) * (self.V - c), self.A, self.b + k * slack)

    def project_xy(self):
        return Convex(self.V[:, :2])

    def contains_point_margin(self, p):
        """signed margin: > 0 inside by that much, < 0: a lower bound on the distance outside."""
        return float((self.b - self.A @ np.asarray(p, dtype=float)).min())


def box_vertices(lo, hi):
    return np.array(list(itertools.product(*zip(lo, hi))), dtype=float)


def box(lo, hi):
    """Axis-aligned box as Convex, H-representation written down by construction."""
    lo = np.asarray(lo, dtype=float)
    hi = np.asarray(hi, dtype=float)
    d = len(lo)
    A = np.vstack([np.eye(d), -np.eye(d)])
    b = np.concatenate([hi, -lo])
    return Convex(box_vertices(lo, hi), A, b)


def prism_vertices(n, radius=0.5, z0=-0.5, z1=0.5, phase=0.0):
    ang = phase + 2 * math.pi * np.arange(n) / n
    ring = np.stack([radius * np.cos(ang), radius * np.sin(ang)], axis=1)
    return np.vstack([np.hstack([ring, np.full((n, 1), z0)]), np.hstack([ring, np.full((n, 1), z1)])])


def cone_vertices(n, radius=0.5, z0=-0.5, z1=0.5, phase=0.0):
    ang = phase + 2 * math.pi * np.arange(n) / n
    ring = np.stack([radius * np.cos(ang), radius * np.sin(ang), np.full(n, z0)], axis=1)
    return np.vstack([ring, [[0.0, 0.0, z1]]])


class Solid:
    """Union of convex pieces in shape coordinates."""

    def __init__(self, pieces):
        self.pieces = [p if isinstance(p, Convex) else Convex(p) for p in pieces]

    def bounds(self):
        allv = np.vstack([p.V for p in self.pieces])
        return allv.min(axis=0), allv.max(axis=0)

    def unit(self):
        lo, hi = self.bounds()
        c = (lo + hi) / 2
        ext = hi - lo
        M = np.diag(1.0 / ext)
        return Solid([p.affine(M, -(M @ c)) for p in self.pieces])

    def centered(self):
        lo, hi = self.bounds()
        c = (lo + hi) / 2
        return Solid([p.affine(np.eye(len(c)), -c) for p in self.pieces])

    def placed(self, dims, pos, R):
        M = np.asarray(R, dtype=float) @ np.diag(np.asarray(dims, dtype=float))
        return [p.affine(M, pos) for p in self.pieces]

    def union_volume_axis_aligned(self):
        """Exact volume of a union of axis-aligned boxes (coordinate compression) -- used to validate the
        mesh that a boolean library produced from the same boxes."""
        los = [p.V.min(axis=0) for p in self.pieces]
        his = [p.V.max(axis=0) for p in self.pieces]
        d = len(los[0])
        grids = [sorted(set([l[k] for l in los] + [h[k] for h in his])) for k in range(d)]
        vol = 0.0
        for idx in itertools.product(*[range(len(g) - 1) for g in grids]):
            a = np.array([grids[k][i] for k, i in enumerate(idx)])
            bb = np.array([grids[k][i + 1] for k, i in enumerate(idx)])
            m = (a + bb) / 2
            if any(np.all(m >= l) and np.all(m <= h) for l, h in zip(los, his)):
                vol += float(np.prod(bb - a))
        return vol


# ---------------------------------------------------------------------------------------------
# LPs
# ---------------------------------------------------------------------------------------------
def chebyshev(As, bs, bound=1e6):
    """Largest ball inside {A_i x <= b_i for all i}.  Returns (radius, centre); radius < 0 when the
    system is infeasible by that margin (the LP is always feasible thanks to the free radius)."""
    A = np.vstack(As)
    b = np.concatenate(bs)
    d = A.shape[1]
    c = np.zeros(d + 1)
    c[-1] = -1.0
    Aub = np.hstack([A, np.ones((A.shape[0], 1))])
    STATS["lp"] += 1
    res = linprog(c, A_ub=Aub, b_ub=b, bounds=[(-bound, bound)] * d + [(-bound, bound)], method="highs")
    if res.status != 0:
        return None, None
    return float(res.x[-1]), res.x[:-1]


def linf_separation(P, Q):
    """min over x in P, y in Q of |x - y|_inf  (an independent LP formulation of the gap; the Euclidean
    gap lies in [value, sqrt(d) * value])."""
    d = P.d
    nP, nQ = P.A.shape[0], Q.A.shape[0]
    # variables x (d), y (d), t
    c = np.zeros(2 * d + 1)
    c[-1] = 1.0
    rows = []
    rhs = []
    rows.append(np.hstack([P.A, np.zeros((nP, d)), np.zeros((nP, 1))]))
    rhs.append(P.b)
    rows.append(np.hstack([np.zeros((nQ, d)), Q.A, np.zeros((nQ, 1))]))
    rhs.append(Q.b)
    I = np.eye(d)
    rows.append(np.hstack([I, -I, -np.ones((d, 1))]))
    rhs.append(np.zeros(d))
    rows.append(np.hstack([-I, I, -np.ones((d, 1))]))
    rhs.append(np.zeros(d))
    STATS["lp"] += 1
    res = linprog(c, A_ub=np.vstack(rows), b_ub=np.concatenate(rhs), bounds=[(None, None)] * (2 * d) + [(0, None)], method="highs")
    if res.status != 0:
        return None
    return float(res.x[-1])


# ---------------------------------------------------------------------------------------------
# Euclidean distance bracket between two convex hulls (Frank-Wolfe / Gilbert with simplex refinement)
# ---------------------------------------------------------------------------------------------
def _min_norm_simplex(P):
    """Minimum-norm point of conv(rows of P), |P| <= d+1, the last row being the newest support point
    (which always belongs to the optimal face).  Brute force over the faces containing it.  Returns the
    barycentric weights (or None).  Only a heuristic for the iteration: the bracket returned by
    gjk_bracket is certified independently of what happens here."""
    n = len(P)
    last = n - 1
    best = None
    bestn = None
    others = list(range(last))
    for k in range(0, n):
        for sub0 in itertools.combinations(others, k):
            sub = list(sub0) + [last]
            Q = P[sub]
            if k == 0:
                lam = np.array([1.0])
            else:
                E = Q[:-1] - Q[-1]  # k x d
                G = E @ E.T
                rhs = -(E @ Q[-1])
                if k == 1:
                    if G[0, 0] <= 0:
                        continue
                    mu = rhs / G[0, 0]
                elif k == 2:
                    det = G[0, 0] * G[1, 1] - G[0, 1] * G[1, 0]
                    if abs(det) <= 1e-300:
                        continue
                    mu = np.array([(rhs[0] * G[1, 1] - rhs[1] * G[0, 1]) / det, (G[0, 0] * rhs[1] - G[1, 0] * rhs[0]) / det])
                else:
                    try:
                        mu = np.linalg.solve(G, rhs)
                    except np.linalg.LinAlgError:
                        continue
                lam = np.concatenate([mu, [1 - mu.sum()]])
                if lam.min() < -1e-12:
                    continue
            z = lam @ Q
            nz = float(z @ z)
            if bestn is None or nz < bestn:
                bestn = nz
                full = np.zeros(n)
                full[sub] = np.clip(lam, 0.0, None)
                full /= full.sum()
                best = full
    return best


def gjk_bracket(V1, V2, rel=1e-7, abs_=1e-8, maxit=80):
    """Certified bracket lo <= dist(conv V1, conv V2) <= hi.
    hi = |x - y| for explicit convex combinations x, y;  lo = support gap along (x - y)/|x - y|:
    min_v w.v - max_u w.u <= w.(x* - y*) <= dist for any unit w.  Both bounds are valid whatever the
    iteration did; convergence only affects the width."""
    STATS["gjk"] += 1
    V1 = np.asarray(V1, dtype=float)
    V2 = np.asarray(V2, dtype=float)
    d = V1.shape[1]
    I = [0]
    J = [0]
    lam = np.array([1.0])
    lo = 0.0
    hi = float("inf")
    for it in range(maxit):
        STATS["gjk_iters"] += 1
        x = lam @ V1[I]
        y = lam @ V2[J]
        z = x - y
        nz = float(np.linalg.norm(z))
        hi = min(hi, nz)
        if nz <= abs_:
            return 0.0, hi
        w = z / nz
        i = int(np.argmin(V1 @ w))
        j = int(np.argmax(V2 @ w))
        gap = float(V1[i] @ w - V2[j] @ w)
        lo = max(lo, gap)
        if hi - lo <= max(abs_, rel * hi):
            return lo, hi
        if (i, j) in zip(I, J):
            # no progress possible (numerical stall)
            break
        I.append(i)
        J.append(j)
        P = V1[I] - V2[J]
        l2 = _min_norm_simplex(P)
        if l2 is None:
            break
        keep = [k for k in range(len(I)) if l2[k] > 0]
        if len(keep) > d:
            # origin inside a full simplex: the sets overlap
            x = l2 @ V1[I]
            y = l2 @ V2[J]
            return 0.0, min(hi, float(np.linalg.norm(x - y)))
        I = [I[k] for k in keep]
        J = [J[k] for k in keep]
        lam = l2[keep]
        lam = lam / lam.sum()
    STATS["gjk_nonconverged"] += 1
    return lo, hi


# ---------------------------------------------------------------------------------------------
# pair predicates
# ---------------------------------------------------------------------------------------------
def piece_pair(P, Q, eps=EPS, need_bracket=False):
    """-> (state, lo, hi, depth) with state 'apart' | 'overlap' | 'touch'."""
    cd = float(np.linalg.norm(P.c - Q.c)) - P.rad - Q.rad
    if cd > eps and not need_bracket:
        return "apart", cd, None, None
    lo, hi = gjk_bracket(P.V, Q.V)
    if lo > eps:
        return "apart", lo, hi, None
    r, _x = chebyshev([P.A, Q.A], [P.b, Q.b])
    if r is not None and r > eps:
        return "overlap", 0.0, 0.0, r
    return "touch", lo, hi, r


def overlap(S, T, eps=EPS):
    """Do the unions S and T (lists of world-frame Convex) share interior?  True/False/None + info."""
    info = {"depth": None, "gap_lo": None}
    all_apart = True
    gap = float("inf")
    for P in S:
        for Q in T:
            st, lo, hi, r = piece_pair(P, Q, eps)
            if st == "overlap":
                info["depth"] = r
                return True, info
            if st != "apart":
                all_apart = False
            else:
                gap = min(gap, lo)
    if all_apart:
        info["gap_lo"] = gap
        return False, info
    return None, info


def distance_bracket(S, T):
    """Certified bracket on the Euclidean gap between two unions (0 if they intersect)."""
    lo_all = float("inf")
    hi_all = float("inf")
    pairs = sorted(((float(np.linalg.norm(P.c - Q.c)) - P.rad - Q.rad, a, b) for a, P in enumerate(S) for b, Q in enumerate(T)))
    for cd, a, b in pairs:
        if cd >= hi_all:
            lo_all = min(lo_all, cd)
            continue
        lo, hi = gjk_bracket(S[a].V, T[b].V)
        lo_all = min(lo_all, lo)
        hi_all = min(hi_all, hi)
    return max(lo_all, 0.0), hi_all


# ---------------------------------------------------------------------------------------------
# containment of a union of convex pieces in (a union of convex pieces) minus (convex holes)
# ---------------------------------------------------------------------------------------------
def _subtract(cell, outerV, C, tiny):
    """cell = (A, b) a convex cell known to lie inside conv(outerV).  Returns the list of cells of
    cell \\ C with Chebyshev radius > tiny."""
    A, b = cell
    # facets of C that can cut the cell at all (outer bound through the vertices of the piece the cell came from)
    viol = (outerV @ C.A.T - C.b).max(axis=0)
    cutting = [k for k in range(len(C.b)) if viol[k] > tiny]
    if not cutting:
        return []  # cell entirely inside C
    # is there any common interior at all?
    r, _ = chebyshev([A, C.A], [b, C.b])
    if r is None or r <= tiny:
        return [cell]
    out = []
    curA, curb = A, b
    for k in cutting:
        oa = np.vstack([curA, -C.A[k : k + 1]])
        ob = np.concatenate([curb, [-C.b[k]]])
        r, _ = chebyshev([oa], [ob])
        if r is not None and r > tiny:
            out.append((oa, ob))
        curA = np.vstack([curA, C.A[k : k + 1]])
        curb = np.concatenate([curb, [C.b[k]]])
    return out


def _leftover(O, container, tiny, limit=400):
    """Cells of O \\ union(container) (each with its Chebyshev radius).  None if the cell budget blows."""
    cells = [(O.A, O.b)]
    # process nearest container pieces first
    order = sorted(range(len(container)), key=lambda j: float(np.linalg.norm(container[j].c - O.c)) - container[j].rad)
    for j in order:
        C = container[j]
        if float(np.linalg.norm(C.c - O.c)) > C.rad + O.rad:
            continue
        nxt = []
        for cell in cells:
            nxt.extend(_subtract(cell, O.V, C, tiny))
            if len(nxt) > limit:
                return None
        cells = nxt
        if not cells:
            break
    out = []
    for A, b in cells:
        r, x = chebyshev([A], [b])
        if r is not None and r > tiny:
            out.append((r, x))
    return out


def point_union_gap_lower(p, container):
    """Lower bound on the distance from p to the union (0 if inside some piece)."""
    best = float("inf")
    for C in container:
        m = C.contains_point_margin(p)
        if m >= 0:
            return 0.0
        best = min(best, -m)
    return best


def contained(obj, container, holes=(), eps=EPS, tiny=TINY):
    """Is the union `obj` inside union(container) minus union(holes)?  True/False/None, info.
    All arguments are lists of Convex of the same dimension."""
    info = {"why": None}
    definite_in = True
    for O in obj:
        # holes
        for H in holes:
            st, lo, hi, r = piece_pair(O, H, eps)
            if st == "overlap":
                info["why"] = "overlaps-hole"
                return False, info
            if st != "apart":
                definite_in = False
        # a vertex farther than eps from every container piece
        for v in O.V:
            if point_union_gap_lower(v, container) > eps:
                info["why"] = "vertex-outside"
                return False, info
        if len(container) == 1:
            C = container[0]
            m = (C.b[None, :] - O.V @ C.A.T).min()
            if m < eps:
                definite_in = False
            continue
        cells = _leftover(O, container, tiny)
        if cells is None:
            definite_in = False
            info["why"] = "cell-budget"
            continue
        if any(r > eps for r, _ in cells):
            info["why"] = "chunk-outside"
            return False, info
        if cells:
            definite_in = False
            continue
        if definite_in:
            Oi = O.inflated(eps)
            cells = _leftover(Oi, container, tiny)
            if cells is None or cells:
                definite_in = False
    if definite_in:
        info["why"] = "inflated-inside"
        return True, info
    return None, info


# ---------------------------------------------------------------------------------------------
# region expression trees (for composed containers)
#   ("vol", [Convex3d...])                      union of convex pieces
#   ("foot", [Convex2d...], [Convex2d holes])   infinite vertical prism over a planar set
#   ("and", t1, t2)   ("minus", t1, t2)
# ---------------------------------------------------------------------------------------------
def and3(a, b):
    if a is False or b is False:
        return False
    if a is True and b is True:
        return True
    return None


def not3(a):
    return None if a is None else (not a)


def tree_contains(tree, obj, eps=EPS):
    kind = tree[0]
    if kind == "vol":
        return contained(obj, tree[1], (), eps)[0]
    if kind == "foot":
        proj = [O.project_xy() for O in obj]
        return contained(proj, tree[1], tree[2], eps)[0]
    if kind == "and":
        return and3(tree_contains(tree[1], obj, eps), tree_contains(tree[2], obj, eps))
    if kind == "minus":
        return and3(tree_contains(tree[1], obj, eps), not3(tree_overlaps(tree[2], obj, eps)))
    raise ValueError(kind)


def tree_overlaps(tree, obj, eps=EPS):
    """Does the object share interior with the region?  Only for leaves."""
    kind = tree[0]
    if kind == "vol":
        return overlap(obj, tree[1], eps)[0]
    if kind == "flat":
        return flat_overlaps(obj, tree[1], tree[2], tree[3], eps)
    if kind == "foot":
        proj = [O.project_xy() for O in obj]
        # inside the planar set minus holes somewhere: overlap with a piece at a place not covered by holes.
        # decided only in the simple cases: no holes, or definite disjointness from every outer piece
        ov = overlap(proj, tree[1], eps)[0]
        if ov is False:
            return False
        if ov is True and not tree[2]:
            return True
        return None
    return None


def flat_overlaps(obj, outers, holes, z0, eps=EPS):
    """Does the solid (3D pieces) meet the flat region {(x, y, z0) : (x, y) in union(outers) minus holes}?
    True: a disc of radius > eps of the plane z = z0 lies in a piece of the solid and in an outer piece, clear of
    every hole.  False: every (solid piece, outer piece lifted to z0) pair is farther apart than eps."""
    all_apart = True
    for O in obj:
        a2 = O.A[:, :2]
        n2 = np.linalg.norm(a2, axis=1)
        rhs = O.b - O.A[:, 2] * z0
        for P in outers:
            lifted = np.hstack([P.V, np.full((len(P.V), 1), z0)])
            lo, hi = gjk_bracket(O.V, lifted)
            if lo > eps:
                continue
            all_apart = False
            # Chebyshev disc in the slice
            keep = n2 > 1e-12
            if np.any(~keep & (rhs < 0)):
                continue  # a horizontal facet excludes the plane
            A = np.vstack([np.hstack([a2[keep], n2[keep, None]]), np.hstack([P.A, np.ones((len(P.b), 1))])])
            b = np.concatenate([rhs[keep], P.b])
            STATS["lp"] += 1
            res = linprog([0, 0, -1.0], A_ub=A, b_ub=b, bounds=[(-1e6, 1e6)] * 3, method="highs")
            if res.status != 0:
                continue
            r = float(res.x[2])
            c = res.x[:2]
            if r > eps and all(-H.contains_point_margin(c) >= eps for H in holes):
                # the centre is outside every hole by eps: a disc of radius min(r, eps) around it is in the region
                return True
    if all_apart:
        return False
    return None


# ---------------------------------------------------------------------------------------------
# self test (python -m rt.geomoracle)
# ---------------------------------------------------------------------------------------------
def selftest(n=300, seed=0):
    rng = np.random.default_rng(seed)
    unit = box([-0.5] * 3, [0.5] * 3)
    qh = Convex(box_vertices([-0.5] * 3, [0.5] * 3))
    assert qh.A.shape == (6, 3), qh.A.shape
    bad = 0
    for k in range(n):
        def rnd():
            dims = np.exp(rng.uniform(math.log(0.2), math.log(4), 3))
            R = rotation(*rng.uniform(-math.pi, math.pi, 3))
            pos = rng.uniform(-2, 2, 3)
            return unit.affine(R @ np.diag(dims), pos)

        P, Q = rnd(), rnd()
        lo, hi = gjk_bracket(P.V, Q.V)
        li = linf_separation(P, Q)
        assert lo <= hi + 1e-12
        # |.|_inf <= |.|_2 <= sqrt(3) |.|_inf
        assert li <= hi + 1e-7, (li, lo, hi)
        assert lo <= math.sqrt(3) * li + 1e-7, (li, lo, hi)
        r, x = chebyshev([P.A, Q.A], [P.b, Q.b])
        if r > 1e-6:
            assert hi < 1e-6, (r, lo, hi)
            assert P.contains_point_margin(x) >= r - 1e-7 and Q.contains_point_margin(x) >= r - 1e-7
        if lo > 1e-6:
            assert r < 0
        # Monte Carlo membership cross-check of containment
        big = unit.affine(np.diag([6.0, 6.0, 6.0]), [0, 0, 0])
        ans, _ = contained([P], [big])
        inside = bool((np.abs(P.V) < 3 - 1e-4).all())
        outside = bool((np.abs(P.V) > 3 + 1e-4).any())
        if ans is True:
            assert inside
        if ans is False:
            assert outside
        # split the big box in two abutting halves + an overlapping pair: same answer expected
        halves = [box([-3, -3, -3], [0.0, 3, 3]), box([0.0, -3, -3], [3, 3, 3])]
        ans2, _ = contained([P], halves)
        if ans is not None and ans2 is not None:
            assert ans == ans2, (ans, ans2)
        if ans is True and ans2 is None:
            bad += 1
    return {"cases": n, "halves_undecided": bad, **STATS}


if __name__ == "__main__":
    print(selftest())
