"""Independent closed-form geometry for C07 (numpy only; no scipy, no Scenic classes).

Conventions taken from the Scenic documentation:
  * right-handed coordinates, X = right/east, Y = forward/north, Z = up;
  * heading 0 faces +Y, positive angles are counter-clockwise seen from above (+Z);
  * an orientation is the intrinsic rotation yaw about Z, then pitch about (new) X, then roll about (new) Y,
    i.e. the matrix Rz(yaw) @ Rx(pitch) @ Ry(roll) maps local to global coordinates;
  * an object's width/length/height extend along its local X/Y/Z.
"""

import math

import numpy as np


def Rz(a):
    c, s = math.cos(a), math.sin(a)
    return np.array([[c, -s, 0.0], [s, c, 0.0], [0.0, 0.0, 1.0]])


def Rx(a):
    c, s = math.cos(a), math.sin(a)
    return np.array([[1.0, 0.0, 0.0], [0.0, c, -s], [0.0, s, c]])


def Ry(a):
    c, s = math.cos(a), math.sin(a)
    return np.array([[c, 0.0, s], [0.0, 1.0, 0.0], [-s, 0.0, c]])


def euler(yaw, pitch=0.0, roll=0.0):
    """Local->global matrix of the orientation with intrinsic Z-X-Y angles."""
    return Rz(yaw) @ Rx(pitch) @ Ry(roll)


def quat_to_mat(q):
    """Rotation matrix of a unit quaternion given as (x, y, z, w)."""
    x, y, z, w = (float(c) for c in q)
    n = math.sqrt(x * x + y * y + z * z + w * w)
    x, y, z, w = x / n, y / n, z / n, w / n
    return np.array(
        [
            [1 - 2 * (y * y + z * z), 2 * (x * y - z * w), 2 * (x * z + y * w)],
            [2 * (x * y + z * w), 1 - 2 * (x * x + z * z), 2 * (y * z - x * w)],
            [2 * (x * z - y * w), 2 * (y * z + x * w), 1 - 2 * (x * x + y * y)],
        ]
    )


def norm_angle(a):
    """Representative of a modulo 2*pi in (-pi, pi]."""
    a = math.fmod(a, math.tau)
    if a > math.pi:
        a -= math.tau
    elif a <= -math.pi:
        a += math.tau
    return a


def ang_diff(a, b):
    return abs(norm_angle(a - b))


def azimuth(d):
    """Heading of direction d: 0 for +Y, +pi/2 for -X (counter-clockwise)."""
    return norm_angle(math.atan2(d[1], d[0]) - math.pi / 2)


def altitude(d):
    return math.atan2(d[2], math.hypot(d[0], d[1]))


def heading_of(R):
    """Heading (global yaw) of an orientation matrix: azimuth of its forward axis; None at gimbal lock."""
    f = R @ np.array([0.0, 1.0, 0.0])
    if math.hypot(f[0], f[1]) < 1e-6:
        return None
    return azimuth(f)


def euler_of(R):
    """(yaw, pitch, roll) with R == euler(yaw, pitch, roll); None near gimbal lock.

    From R = Rz(y) Rx(p) Ry(r):  R[2,1] = sin p;  R[0,1] = -sin y cos p;  R[1,1] = cos y cos p;
    R[2,0] = -cos p sin r;  R[2,2] = cos p cos r.
    """
    sp = max(-1.0, min(1.0, R[2, 1]))
    if abs(sp) > 1 - 1e-9:
        return None
    p = math.asin(sp)
    y = math.atan2(-R[0, 1], R[1, 1])
    r = math.atan2(-R[2, 0], R[2, 2])
    return (y, p, r)


def corners(pos, R, dims):
    """The eight corners of the box of size dims=(w,l,h) centred at pos with orientation R."""
    w, l, h = dims
    out = []
    for sx in (1, -1):
        for sy in (1, -1):
            for sz in (1, -1):
                out.append(pos + R @ np.array([sx * w / 2, sy * l / 2, sz * h / 2]))
    return np.array(out)


def rot_err(A, B):
    return float(np.abs(np.asarray(A) - np.asarray(B)).max())


def is_rotation(R, tol=1e-9):
    R = np.asarray(R)
    return rot_err(R @ R.T, np.eye(3)) < tol and abs(np.linalg.det(R) - 1) < tol


AXES = {
    "left": np.array([-1.0, 0.0, 0.0]),
    "right": np.array([1.0, 0.0, 0.0]),
    "ahead": np.array([0.0, 1.0, 0.0]),
    "behind": np.array([0.0, -1.0, 0.0]),
    "above": np.array([0.0, 0.0, 1.0]),
    "below": np.array([0.0, 0.0, -1.0]),
}
AXIS_INDEX = {"left": 0, "right": 0, "ahead": 1, "behind": 1, "above": 2, "below": 2}
