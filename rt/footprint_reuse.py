"""History-dependent check shared by C16 and C03: ONE PolygonalFootprintRegion object composed with mesh
volumes at very different heights, in sequence (the footprint caches a vertically bounded extrusion of itself
and must not reuse it for a request it does not cover).

Oracle: the footprint of an axis-aligned L-shaped polygon is {(x, y, z): (x, y) in L}; composed with an
axis-aligned box the result is analytic.  Probe points keep a margin from every boundary.
"""

import random


def _in_L(x, y, m=0.0):
    # L = [0,4]x[0,2]  u  [0,2]x[0,4]   (margin m: definitely inside)
    a = (0 + m <= x <= 4 - m) and (0 + m <= y <= 2 - m)
    b = (0 + m <= x <= 2 - m) and (0 + m <= y <= 4 - m)
    return a or b


def _out_L(x, y, m):
    return not _in_L(x, y, -m)


def run(seed, sample=False):
    """returns (violations, counters).  sample=True also draws points from the intersections (C03)."""
    from scenic.core.regions import BoxRegion, PolygonalRegion
    from scenic.core.vectors import Vector

    rng = random.Random(seed)
    viol, C = [], {}

    def bump(k, n=1):
        C[k] = C.get(k, 0) + n

    poly = PolygonalRegion([(0, 0), (4, 0), (4, 2), (2, 2), (2, 4), (0, 4)])
    F = poly.footprint
    # heights far apart: each later volume lies (partly) outside any extrusion cached for an earlier one
    # (the 2nd volume lies only PARTLY inside the slab cached for the 1st, thin one; the later ones far outside)
    zs = [0.0, rng.uniform(45, 58), -rng.uniform(100, 130), rng.uniform(140, 170), -rng.uniform(160, 200), rng.uniform(40, 60)]
    hs = [0.2, 40.0, 6.0, 8.0, 3.0, 30.0]
    for step, (zc, h) in enumerate(zip(zs, hs)):
        box = BoxRegion(position=Vector(2, 2, zc), dimensions=(6, 6, h))  # covers the whole L in x, y
        lo, hi = zc - h / 2, zc + h / 2
        order = rng.choice(["F.intersect(B)", "B.intersect(F)"])
        try:
            R = F.intersect(box) if order.startswith("F") else box.intersect(F)
            inter = F.intersects(box) if rng.random() < 0.5 else box.intersects(F)
            D = box.difference(F)
        except Exception as e:
            viol.append({"key": None, "what": f"[footprint-reuse step {step}] {order} with a box at z in [{lo:.1f},{hi:.1f}] raised {type(e).__name__}: {str(e)[:120]}", "witness": {"check": "footprint-reuse", "seed": seed}})
            continue
        bump("footprint_reuse_compositions")
        if not inter:
            viol.append({"key": None, "what": f"[footprint-reuse step {step}] footprint.intersects(box at z in [{lo:.1f},{hi:.1f}]) is False after earlier compositions at z={[round(z, 1) for z in zs[:step]]}", "witness": {"check": "footprint-reuse", "seed": seed}})
        bad = 0
        for _ in range(60):
            x, y = rng.uniform(-0.8, 4.8), rng.uniform(-0.8, 4.8)
            z = rng.uniform(lo + 0.02 * h, hi - 0.02 * h)
            m = 0.06
            inside = _in_L(x, y, m)
            outside = _out_L(x, y, m)
            if not (inside or outside):
                continue
            p = Vector(x, y, z)
            try:
                got_r = bool(R.containsPoint(p)) if hasattr(R, "containsPoint") else None
                got_d = bool(D.containsPoint(p))
            except Exception as e:
                viol.append({"key": None, "what": f"[footprint-reuse step {step}] containsPoint raised {type(e).__name__}", "witness": {"check": "footprint-reuse", "seed": seed}})
                break
            bump("footprint_reuse_memberships", 2)
            if got_r is not None and got_r != inside:
                bad += 1
                if bad <= 1:
                    viol.append({"key": None, "what": f"[footprint-reuse step {step}] {order}: point ({x:.2f},{y:.2f},{z:.2f}) membership {got_r}, expected {inside} (box z in [{lo:.1f},{hi:.1f}], earlier compositions at z={[round(q, 1) for q in zs[:step]]})", "witness": {"check": "footprint-reuse", "seed": seed}})
            if got_d != outside and bad <= 1:
                bad += 1
                viol.append({"key": None, "what": f"[footprint-reuse step {step}] box.difference(footprint): point ({x:.2f},{y:.2f},{z:.2f}) membership {got_d}, expected {outside}", "witness": {"check": "footprint-reuse", "seed": seed}})
        if sample and h >= 3 and hasattr(R, "uniformPointInner"):
            # every quarter of the box height must be reachable (expected 50 of 200 draws each)
            counts = [0, 0, 0, 0]
            n = 200
            from scenic.core.distributions import RejectionException

            def draw():
                # the mesh sampler legitimately rejects now and then (a handful of candidates per call): retry
                for _ in range(25):
                    try:
                        return R.uniformPointInner()
                    except RejectionException:
                        bump("footprint_reuse_sampler_rejections")
                raise RuntimeError("25 consecutive rejections")

            try:
                for _ in range(n):
                    q = draw()
                    k = min(3, max(0, int((q.z - lo) / h * 4)))
                    counts[k] += 1
                    if not _in_L(q.x, q.y, -0.05) or not (lo - 1e-6 <= q.z <= hi + 1e-6):
                        viol.append({"key": None, "what": f"[footprint-reuse step {step}] sampled point ({q.x:.2f},{q.y:.2f},{q.z:.2f}) outside footprint x box", "witness": {"check": "footprint-reuse", "seed": seed}})
                        break
            except Exception as e:
                viol.append({"key": None, "what": f"[footprint-reuse step {step}] sampling {order} raised {type(e).__name__}: {str(e)[:100]}", "witness": {"check": "footprint-reuse", "seed": seed}})
                continue
            bump("footprint_reuse_draws", n)
            if min(counts) == 0:
                viol.append({"key": None, "what": f"[footprint-reuse step {step}] {order}: z-quarters hit {counts} in {n} draws (a quarter of positive measure is never produced; box z in [{lo:.1f},{hi:.1f}])", "witness": {"check": "footprint-reuse", "seed": seed}})
    return viol, C
