"""C10 workload: seeds (repo .scenic files, test snippets, forms generated from docs/reference), the
documented-form expander and the mutators.  Pure text manipulation; nothing here imports scenic."""

import ast
import inspect
import io
import itertools
import os
import re
import tokenize

REPO = os.environ.get("VERIF_REPO", "/repo")

# ------------------------------------------------------------------------------------------------
# seeds


def scenic_files():
    out = []
    for dp, dn, fn in os.walk(REPO):
        dn[:] = sorted(d for d in dn if d not in (".git", "node_modules", "_build", "__pycache__"))
        for f in sorted(fn):
            if f.endswith(".scenic"):
                out.append(os.path.join(dp, f))
    return out


def test_snippets():
    """String arguments of calls in tests/syntax/*.py (the test-suite's Scenic programs)."""
    d = os.path.join(REPO, "tests", "syntax")
    seen, out = set(), []
    for f in sorted(os.listdir(d)):
        if not f.endswith(".py"):
            continue
        try:
            tree = ast.parse(open(os.path.join(d, f), encoding="utf-8").read())
        except SyntaxError:
            continue
        for node in ast.walk(tree):
            if not isinstance(node, ast.Call):
                continue
            for a in list(node.args) + [k.value for k in node.keywords]:
                s = None
                if isinstance(a, ast.Constant) and isinstance(a.value, str):
                    s = a.value
                elif isinstance(a, ast.JoinedStr) and all(isinstance(v, ast.Constant) for v in a.values):
                    s = "".join(v.value for v in a.values)
                if s is None or not (3 <= len(s) <= 4000):
                    continue
                if " " not in s.strip() and "\n" not in s.strip():
                    continue
                s = inspect.cleandoc(s) + "\n"
                if s not in seen:
                    seen.add(s)
                    out.append((f, s))
    return out


# ------------------------------------------------------------------------------------------------
# documented forms (docs/reference/{operators,specifiers,statements}.rst section headings)

PLACEHOLDERS = {
    "vector": ["P", "(1, 2)", "1 @ 2"],
    "scalar": ["3", "s"],
    "number": ["0.5"],
    "region": ["R"],
    "Object": ["obj", "ego"],
    "object": ["obj"],
    "OrientedPoint": ["op"],
    "Point": ["pt"],
    "heading": ["h", "30 deg"],
    "direction": ["h", "30 deg"],
    "orientation": ["o", "(1, 2, 3)"],
    "vectorField": ["F"],
    "condition": ["b", "x > 1"],
    "boolean": ["b", "x > 1"],
    "hypothesis": ["b"],
    "conclusion": ["c"],
    "LTL formula": ["always b", "b until c"],
    "value": ["v", "x + 1"],
    "property": ["foo"],
    "name": ["foo"],
    "module": ["math"],
    "identifier": ["x", "y"],
    "monitor": ["M()"],
    "action": ["act", "Act(1)"],
    "behavior/scenario": ["B()", "Sub(1)"],
    "duration": ["3 seconds", "2 steps"],
    "recorder": ['"foo.csv"'],
    "specifier": ["at P", "with foo 3"],
}


def doc_headings():
    out = []
    for kind in ("operators", "specifiers", "statements"):
        path = os.path.join(REPO, "docs", "reference", kind + ".rst")
        lines = open(path, encoding="utf-8").read().split("\n")
        for i in range(len(lines) - 1):
            h = lines[i].strip()
            if h and re.fullmatch(r"[-+~^]{4,}", lines[i + 1].strip()) and len(lines[i + 1].strip()) >= len(h) - 2:
                if re.search(r"\*[^*]+\*", h) or kind != "statements" and h[0].islower():
                    out.append((kind, h))
                elif kind == "statements" and h[0].islower():
                    out.append((kind, h))
    return out


def _lex(t):
    toks = []
    i = 0
    while i < len(t):
        c = t[i]
        if c.isspace():
            i += 1
        elif c == "*":
            j = t.index("*", i + 1)
            toks.append(("ph", t[i + 1 : j].strip()))
            i = j + 1
        elif c == "[" and i > 0 and not t[i - 1].isspace():
            toks.append(("lit", "["))
            i += 1
            # matching literal close
            depth = 1
            j = i
            while j < len(t) and depth:
                if t[j] == "[":
                    depth += 1
                elif t[j] == "]":
                    depth -= 1
                j += 1
            inner = _lex(t[i : j - 1])
            toks.extend(inner)
            toks.append(("lit", "]"))
            i = j
        elif c in "[]()|":
            toks.append((c, c))
            i += 1
        elif t.startswith(". . .", i) or t.startswith("...", i):
            toks.append(("rep", "..."))
            i += 5 if t.startswith(". . .", i) else 3
        else:
            j = i
            while j < len(t) and not t[j].isspace() and t[j] not in "[]()|*":
                j += 1
            toks.append(("lit", t[i:j]))
            i = j
    return toks


def _parse_alt(toks, pos, closers):
    alts = []
    seq, pos = _parse_seq(toks, pos, closers)
    alts.append(seq)
    while pos < len(toks) and toks[pos][0] == "|":
        seq, pos = _parse_seq(toks, pos + 1, closers)
        alts.append(seq)
    return ("alt", alts), pos


def _parse_seq(toks, pos, closers):
    items = []
    while pos < len(toks) and toks[pos][0] not in closers and toks[pos][0] != "|":
        k, v = toks[pos]
        if k == "[":
            inner, pos = _parse_alt(toks, pos + 1, ("]",))
            pos += 1
            items.append(("opt", inner))
        elif k == "(":
            inner, pos = _parse_alt(toks, pos + 1, (")",))
            pos += 1
            items.append(inner)
        else:
            items.append((k, v))
            pos += 1
    return ("seq", items), pos


def _expand(node, pick):
    """all expansions as lists of words; `pick(ph_name)` -> list of instantiations"""
    k = node[0]
    if k == "lit":
        return [[node[1]]]
    if k == "ph":
        return [[x] for x in pick(node[1])]
    if k == "rep":
        return [[]]
    if k == "opt":
        return [[]] + _expand(node[1], pick)
    if k == "alt":
        out = []
        for a in node[1]:
            out += _expand(a, pick)
        return out
    if k == "seq":
        items = node[1]
        parts = []
        for idx, it in enumerate(items):
            ex = _expand(it, pick)
            # "X, ..." : also try a second element
            if it[0] == "rep" and idx >= 2 and items[idx - 1] == ("lit", ",") or (
                it[0] == "rep" and idx >= 1 and items[idx - 1][0] == "ph"
            ):
                prev = None
                for back in range(idx - 1, -1, -1):
                    if items[back][0] == "ph":
                        prev = items[back]
                        break
                if prev is not None:
                    second = (PLACEHOLDERS.get(prev[1]) or ["x"])[-1]
                    if items[idx - 1] == ("lit", ","):
                        ex = [[second]]
                        # drop the dangling comma variant as well: handled by caller through join fix
                    else:
                        ex = [[]]
            parts.append(ex)
        out = []
        for combo in itertools.product(*parts):
            words = []
            for w in combo:
                words += w
            out.append(words)
        return out
    raise ValueError(k)


def _join(words):
    s = ""
    for w in words:
        if not s:
            s = w
        elif w in (",", "]", "[") or s.endswith("["):
            s += w
        else:
            s += " " + w
    return s.replace(" ,", ",")


def expand_heading(h, variants=2):
    """-> list of concrete texts for one documented heading"""
    h = h.replace(" ]", "]").replace("[ ", "[")
    toks = _lex(h)
    tree, pos = _parse_alt(toks, 0, ())
    outs = []
    for v in range(variants):

        def pick(name, v=v):
            vals = PLACEHOLDERS.get(name)
            if vals is None:
                vals = ["x"]
            return [vals[min(v, len(vals) - 1)]]

        for words in _expand(tree, pick):
            t = _join(words)
            if t not in outs:
                outs.append(t)
    return outs


DYNAMIC = ("take", "wait", "terminate", "do", "abort", "override")


def place_form(kind, text):
    """Embed a documented form in a minimal program of the right context. -> (program, line_of_form)"""
    first = text.split()[0]
    if kind == "operators":
        if first in ("always", "eventually", "next") or " until " in text or " implies " in text:
            return f"require {text}\n", 1
        return f"x = {text}\n", 1
    if kind == "specifiers":
        return f"new Object {text}\n", 1
    # statements
    if text.startswith("terminate when") or text.startswith("terminate simulation when") or text.startswith("terminate after"):
        return text + "\n", 1
    if first == "abort":
        return f"behavior Bhv():\n    try:\n        wait\n    interrupt when b:\n        {text}\n", 5
    if first in DYNAMIC:
        if first == "do" and ("," in text) and "choose" not in text and "shuffle" not in text:
            return f"scenario Main():\n    compose:\n        {text}\n", 3
        return f"behavior Bhv():\n    {text}\n", 2
    return text + "\n", 1


def documented_forms():
    """[(kind, heading, form_text, program, line)]"""
    out = []
    for kind, h in doc_headings():
        try:
            if h.startswith("param "):
                texts = ["param foo = v", "param foo = v, bar = x + 1"]
            else:
                texts = expand_heading(h)
        except Exception:
            continue
        for t in texts:
            prog, line = place_form(kind, t)
            out.append((kind, h, t, prog, line))
    return out


# ------------------------------------------------------------------------------------------------
# tokens

SCENIC_WORDS = (
    "at by do new of on require to until deg visible from facing toward away relative offset along "
    "beyond behind ahead left right above below following contained in with apparently can see intersects "
    "distance angle altitude heading position front back top bottom always eventually next implies "
    "behavior monitor scenario setup compose precondition invariant interrupt when try take wait terminate "
    "simulation after seconds steps choose shuffle for abort override param model mutate record initial final "
    "every as simulator ego workspace globalParameters additive dynamic not follow past minimum apparent directly"
).split()
PY_WORDS = (
    "if else elif while for in is not and or def class return yield import from as with try except finally "
    "raise pass break continue lambda global nonlocal del assert async await match case type None True False"
).split()
PUNCT = list("()[]{}:,.;=+-*/@%<>!~^&|") + ["==", "!=", "<=", ">=", "->", ":=", "**", "//", "...", "+=", "@=", "<<", ">>"]
IDENTS = ["x", "y", "foo", "Object", "Point", "Range", "self", "_", "obj", "B", "f"]
LITERALS = ["0", "1", "3.5", "1e9", "0x1f", "1j", '"s"', "'t'", 'f"{x}"', 'f"{x!r}"', '"""d"""', "b'b'", "()", "[]", "{}"]
NOISE = ["\x00", "\x0c", "\r", "\t", "\u00e9", "\u2192", "\u2028", "\ufeff", '"', "'", "\\", "`", "$", "?", "!", "\\\n", "#", '"""', "'''", "\u00a0", "\x1a", "\U0001F600"]


def tokens_of(text):
    """[(start_offset, end_offset, string, type)] of the non-empty tokens CPython's tokenizer finds
    (as far as it gets)."""
    starts = [0]
    for m in re.finditer(r"\n", text):
        starts.append(m.end())
    out = []
    try:
        for tok in tokenize.generate_tokens(io.StringIO(text).readline):
            if tok.type in (tokenize.ENDMARKER, tokenize.INDENT, tokenize.DEDENT, tokenize.NL, tokenize.NEWLINE):
                continue
            if not tok.string:
                continue
            try:
                a = starts[tok.start[0] - 1] + tok.start[1]
                b = starts[tok.end[0] - 1] + tok.end[1]
            except IndexError:
                break
            if 0 <= a < b <= len(text) and (not out or a >= out[-1][1]):
                out.append((a, b, tok.string, tok.type))
    except Exception:  # incl. SystemError for NUL bytes on 3.12
        pass
    if not out:
        for m in re.finditer(r"\S+", text):
            out.append((m.start(), m.end(), m.group(), tokenize.OP))
    return out


def _pool(rng):
    r = rng.random()
    if r < 0.35:
        return rng.choice(SCENIC_WORDS)
    if r < 0.55:
        return rng.choice(PY_WORDS)
    if r < 0.8:
        return rng.choice(PUNCT)
    if r < 0.9:
        return rng.choice(IDENTS)
    return rng.choice(LITERALS)


MUTATORS = (
    "delete",
    "insert",
    "replace",
    "swap",
    "duplicate",
    "keyword",
    "reindent",
    "join",
    "split",
    "truncate",
    "noise",
    "delete_range",
)


def mutate(text, rng, kind=None, toks=None):
    """-> (kind, mutated_text)"""
    kind = kind or rng.choice(MUTATORS)
    toks = toks if toks is not None else tokens_of(text)
    if not toks:
        return "noise", text + rng.choice(NOISE)
    i = rng.randrange(len(toks))
    a, b, s, ty = toks[i]
    if kind == "delete":
        return kind, text[:a] + text[b:]
    if kind == "insert":
        return kind, text[:a] + _pool(rng) + " " + text[a:]
    if kind == "replace":
        return kind, text[:a] + _pool(rng) + text[b:]
    if kind == "swap" and len(toks) > 1:
        i = rng.randrange(len(toks) - 1)
        a, b, s, _ = toks[i]
        c, d, s2, _ = toks[i + 1]
        return kind, text[:a] + s2 + text[b:c] + s + text[d:]
    if kind == "duplicate":
        return kind, text[:b] + " " + s + text[b:]
    if kind == "keyword":
        names = [t for t in toks if t[3] == tokenize.NAME]
        if names:
            a, b, s, _ = rng.choice(names)
            if s in SCENIC_WORDS:
                new = rng.choice(PY_WORDS + IDENTS)
            elif s in PY_WORDS:
                new = rng.choice(SCENIC_WORDS + IDENTS)
            else:
                new = rng.choice(SCENIC_WORDS + PY_WORDS)
            return kind, text[:a] + new + text[b:]
        kind = "replace"
        return kind, text[:a] + _pool(rng) + text[b:]
    if kind == "reindent":
        lines = text.split("\n")
        j = rng.randrange(len(lines))
        ln = lines[j]
        body = ln.lstrip(" \t")
        ind = ln[: len(ln) - len(body)]
        choice = rng.randrange(5)
        if choice == 0:
            ind = ind + rng.choice([" ", "  ", "    ", "\t"])
        elif choice == 1:
            ind = ind[: max(0, len(ind) - rng.choice([1, 2, 4]))]
        elif choice == 2:
            ind = ind.replace("    ", "\t", 1) if "    " in ind else "\t" + ind
        elif choice == 3:
            ind = ""
        else:
            ind = ind + "   "
        lines[j] = ind + body
        return kind, "\n".join(lines)
    if kind == "join":
        nl = [m.start() for m in re.finditer(r"\n", text[:-1])]
        if nl:
            p = rng.choice(nl)
            return kind, text[:p] + rng.choice([" ", "", " \\\n", "; "]) + text[p + 1 :]
        kind = "split"
    if kind == "split":
        return kind, text[:a] + rng.choice(["\n", "\n    ", "\\\n", "\n\n"]) + text[a:]
    if kind == "truncate":
        return kind, text[: rng.choice([a, b])]
    if kind == "delete_range" and len(toks) > 2:
        j = min(len(toks) - 1, i + rng.randrange(1, 6))
        return kind, text[:a] + text[toks[j][1] :]
    # noise
    p = rng.randrange(len(text) + 1)
    n = rng.choice(NOISE)
    if rng.random() < 0.3 and p < len(text):
        return "noise", text[:p] + n + text[p + 1 :]
    return "noise", text[:p] + n + text[p:]


def truncations(text, toks=None):
    toks = toks if toks is not None else tokens_of(text)
    cuts = sorted({t[0] for t in toks} | {t[1] for t in toks})
    return [text[:c] for c in cuts]


# ------------------------------------------------------------------------------------------------
# Scenic-only expressions spliced into Python binding / pattern / decorator / annotation positions

FILLERS = [
    "(3 deg)",
    "3 deg",
    "new Object",
    "(new Object)",
    "(1 relative to 2)",
    "1 relative to 2",
    "x at y",
    "(x at y)",
    "1 @ 2",
    "(1 @ 2)",
    "visible x",
    "(front of x)",
    "front of x",
    "distance to x",
    "(distance from x to y)",
    "x can see y",
    "(x can see y)",
    "always x",
    "(x until y)",
    "x implies y",
    "initial scenario",
    "ego",
    "workspace",
    "globalParameters",
    "str",
    "new Object at 1 @ 2, facing 3 deg",
    "x offset along y by z",
    "(x offset by y)",
    "not visible x",
    "[1 deg]",
    "(1 deg, 2)",
    "*(1 deg)",
    "f(1 deg)",
    "x.y deg",
    "-x deg",
    "x intersects y",
    "(relative heading of x)",
    "apparent heading of x from y",
    "(x visible from y)",
    "angle to x",
    "x[1 deg]",
    "(1 deg).y",
    "new Object.y",
    "{1 deg: 2}",
    "lambda: 1 deg",
    "(yield)",
    "await x",
    "x if y else 1 deg",
]

CARRIERS = [
    "HOLE = 4",
    "a = HOLE = 4",
    "a, HOLE = 1, 2",
    "[HOLE, b] = c",
    "*HOLE, b = c",
    "(HOLE) = 4",
    "HOLE += 1",
    "HOLE: int = 3",
    "HOLE: int",
    "x: HOLE = 3",
    "x: HOLE",
    "(HOLE := 3)",
    "for HOLE in y:\n    pass",
    "for a, HOLE in y:\n    pass",
    "async for HOLE in y:\n    pass",
    "del HOLE",
    "del a, HOLE",
    "del (HOLE)",
    "with a as HOLE:\n    pass",
    "with (a as HOLE, b as c):\n    pass",
    "with HOLE:\n    pass",
    "@HOLE\ndef f():\n    pass",
    "@HOLE\nclass A:\n    pass",
    "match x:\n    case HOLE:\n        pass",
    "match x:\n    case [HOLE, b]:\n        pass",
    "match x:\n    case {1: HOLE}:\n        pass",
    "match x:\n    case A(HOLE):\n        pass",
    "match x:\n    case A(k=HOLE):\n        pass",
    "match x:\n    case 1 | HOLE:\n        pass",
    "match x:\n    case a if HOLE:\n        pass",
    "match HOLE:\n    case 1:\n        pass",
    "lambda HOLE: 0",
    "lambda a=HOLE: 0",
    "def f(HOLE):\n    pass",
    "def f(a=HOLE):\n    pass",
    "def f(a: HOLE):\n    pass",
    "def f() -> HOLE:\n    pass",
    "def f(*HOLE):\n    pass",
    "def HOLE():\n    pass",
    "import HOLE",
    "import a as HOLE",
    "from a import HOLE",
    "from HOLE import a",
    "global HOLE",
    "[x for HOLE in y]",
    "[x for x in y if HOLE]",
    "{HOLE: 1 for x in y}",
    "try:\n    pass\nexcept E as HOLE:\n    pass",
    "try:\n    pass\nexcept HOLE:\n    pass",
    "try:\n    pass\nexcept* HOLE:\n    pass",
    "class HOLE:\n    pass",
    "class A(HOLE):\n    pass",
    "class A(k=HOLE):\n    pass",
    "class A:\n    HOLE: 3",
    "class A:\n    p[HOLE]: 3",
    "class A:\n    p: HOLE",
    "f(HOLE=1)",
    "f(a=HOLE)",
    "f(*HOLE)",
    "f(**HOLE)",
    'f"{HOLE}"',
    'f"{x:{HOLE}}"',
    'f"{HOLE!r}"',
    "x[HOLE] = 1",
    "x[HOLE:] = 1",
    "x.HOLE = 1",
    "HOLE.y = 1",
    "HOLE[0] = 1",
    "HOLE() = 1",
    "return HOLE",
    "yield HOLE",
    "raise HOLE",
    "raise E from HOLE",
    "assert HOLE",
    "assert x, HOLE",
    "nonlocal HOLE",
    "type HOLE = int",
    "type T = HOLE",
    "def f[HOLE]():\n    pass",
    "def f[T: HOLE]():\n    pass",
    "if HOLE:\n    pass",
    "while HOLE:\n    pass",
    "x = HOLE if a else b",
    "x = a if HOLE else b",
    "x = [HOLE]",
    "x = {HOLE}",
    "x = (HOLE,)",
    "x = -HOLE",
    "x = not HOLE",
    "x = HOLE + 1",
    "x = 1 + HOLE",
    "x = HOLE < 1",
    "x = a and HOLE",
    "x = HOLE ** 2",
    "x = await HOLE",
    "require HOLE",
    "require[HOLE] x",
    "require[0.5] HOLE",
    "require x as HOLE",
    "require monitor HOLE",
    "new Object at HOLE",
    "new Object with HOLE 3",
    "new Object with foo HOLE",
    "new Object facing HOLE, at HOLE",
    "new Object left of HOLE by HOLE",
    "new HOLE",
    "x = new HOLE at 1",
    "ego = HOLE",
    "workspace = HOLE",
    "param HOLE = 1",
    "param p = HOLE",
    "mutate HOLE",
    "mutate x by HOLE",
    "record HOLE as x",
    "record x as HOLE",
    "record x every HOLE steps",
    "record initial HOLE",
    "terminate when HOLE",
    "terminate after HOLE steps",
    "terminate simulation when HOLE",
    "model HOLE",
    "simulator HOLE",
    "behavior HOLE():\n    wait",
    "behavior B(HOLE):\n    wait",
    "behavior B():\n    precondition: HOLE\n    wait",
    "behavior B():\n    take HOLE",
    "behavior B():\n    do HOLE",
    "behavior B():\n    do HOLE for 3 seconds",
    "behavior B():\n    do x until HOLE",
    "behavior B():\n    do choose HOLE, y",
    "behavior B():\n    wait for HOLE seconds",
    "behavior B():\n    wait until HOLE",
    "behavior B():\n    HOLE = 4\n    wait",
    "behavior B():\n    for HOLE in y:\n        wait",
    "behavior B():\n    try:\n        wait\n    interrupt when HOLE:\n        abort",
    "behavior B():\n    override HOLE at 1",
    "behavior B():\n    override x with foo HOLE",
    "behavior B():\n    return HOLE",
    "monitor M():\n    require HOLE\n    wait",
    "monitor HOLE():\n    wait",
    "scenario HOLE():\n    setup:\n        pass",
    "scenario S(HOLE):\n    setup:\n        pass",
    "scenario S():\n    setup:\n        HOLE = 4",
    "scenario S():\n    compose:\n        do HOLE",
    "scenario S():\n    precondition: HOLE\n    setup:\n        pass",
    "class A:\n    foo[additive]: HOLE",
    "class A:\n    foo[HOLE]: 1",
]


def splice_cases():
    for ci, c in enumerate(CARRIERS):
        for fi, f in enumerate(FILLERS):
            yield (ci, fi, c.replace("HOLE", f) + "\n")
