"""sys.monitoring-based exit recorder: which `return` of a named function decided a call.

    tr = ExitTracer({"MeshVolumeRegion.intersects": ("regions.py", [names...]), ...}); tr.install()
    tr.begin(); <call real code>; events = tr.end()     # [(qualname, label, retval-summary), ...]

Only PY_START is enabled globally and every code object that is not a target is DISABLEd at its first
start, so the overhead vanishes after warm-up; PY_RETURN is enabled locally on the target code objects.
Labels: the k-th `return` statement (source order, nested functions excluded) of the function gets
names[k] if provided, else "r<k>"; falling off the end is "end".
"""

import ast
import inspect
import sys
import textwrap

TOOL = 3  # sys.monitoring tool id (0-5); 3 is free in this stack


class ExitTracer:
    def __init__(self, targets):
        self.targets = targets
        self.codes = {}  # code -> (qualname, {line: label})
        self.log = None
        self.installed = False

    # -- label tables ---------------------------------------------------------------------
    def _table(self, code, qualname):
        names = self.targets[qualname][1]
        try:
            lines, first = inspect.getsourcelines(code)
            src = textwrap.dedent("".join(lines))
            tree = ast.parse(src)
        except Exception:
            return {}
        fn = tree.body[0]
        rets = []

        def visit(node, top):
            for ch in ast.iter_child_nodes(node):
                if isinstance(ch, (ast.FunctionDef, ast.AsyncFunctionDef, ast.Lambda, ast.ClassDef)):
                    continue
                if isinstance(ch, ast.Return):
                    rets.append(ch.lineno)
                visit(ch, False)

        visit(fn, True)
        table = {}
        for k, ln in enumerate(sorted(set(rets))):
            # a multi-line return expression: map every line of it
            label = names[k] if k < len(names) else f"r{k}"
            table[first + ln - 1] = label
        # multi-line returns: also register the end lines
        for node in ast.walk(fn):
            if isinstance(node, ast.Return) and node.end_lineno != node.lineno:
                lab = table.get(first + node.lineno - 1)
                for l2 in range(node.lineno, node.end_lineno + 1):
                    table.setdefault(first + l2 - 1, lab)
        return table

    # -- monitoring callbacks -------------------------------------------------------------
    def _on_start(self, code, offset):
        mon = sys.monitoring
        q = getattr(code, "co_qualname", code.co_name)
        t = self.targets.get(q)
        if t is not None and code.co_filename.endswith(t[0]):
            if code not in self.codes:
                self.codes[code] = (q, self._table(code, q), {})
                mon.set_local_events(TOOL, code, mon.events.PY_RETURN)
        return mon.DISABLE

    def _on_return(self, code, offset, retval):
        ent = self.codes.get(code)
        if ent is None or self.log is None:
            return
        q, table, offcache = ent
        ln = offcache.get(offset)
        if ln is None:
            ln = None
            for start, end, line in code.co_lines():
                if start <= offset < end:
                    ln = line
                    break
            offcache[offset] = ln
        label = table.get(ln, f"line{ln}")
        if isinstance(retval, (bool, int)) or type(retval).__name__ in ("bool_", "bool"):
            rv = "T" if bool(retval) else "F"
        else:
            rv = type(retval).__name__
        self.log.append((q, label, rv))

    def install(self):
        mon = sys.monitoring
        if self.installed:
            return
        try:
            mon.use_tool_id(TOOL, "verif-exit-tracer")
        except ValueError:
            mon.free_tool_id(TOOL)
            mon.use_tool_id(TOOL, "verif-exit-tracer")
        mon.register_callback(TOOL, mon.events.PY_START, self._on_start)
        mon.register_callback(TOOL, mon.events.PY_RETURN, self._on_return)
        mon.set_events(TOOL, mon.events.PY_START)
        mon.restart_events()  # re-arm locations DISABLEd by an earlier tracer in this process
        self.installed = True

    def uninstall(self):
        mon = sys.monitoring
        if self.installed:
            mon.set_events(TOOL, 0)
            mon.free_tool_id(TOOL)
            self.installed = False

    def begin(self):
        self.log = []

    def end(self):
        log, self.log = self.log, None
        return log or []
