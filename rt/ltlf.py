"""Independent finite-trace LTL evaluator (strong next, strong until) + formula tools.

Formulas are tuples: ("a", i) | ("not", f) | ("and", f, g) | ("or", f, g) | ("implies", f, g)
                   | ("next", f) | ("always", f) | ("eventually", f) | ("until", f, g)
A trace is a list of states; a state is a tuple of booleans indexed by atom number.
"""

import itertools

UNARY = ("not", "next", "always", "eventually")
BINARY = ("and", "or", "implies", "until")
TEMPORAL = ("next", "always", "eventually", "until")


def holds(f, tr, i=0):
    """Finite-trace semantics at position i of trace tr (len(tr) >= 1, 0 <= i < len(tr))."""
    op = f[0]
    n = len(tr)
    if op == "a":
        return bool(tr[i][f[1]])
    if op == "not":
        return not holds(f[1], tr, i)
    if op == "and":
        return holds(f[1], tr, i) and holds(f[2], tr, i)
    if op == "or":
        return holds(f[1], tr, i) or holds(f[2], tr, i)
    if op == "implies":
        return (not holds(f[1], tr, i)) or holds(f[2], tr, i)
    if op == "next":
        return i + 1 < n and holds(f[1], tr, i + 1)
    if op == "always":
        return all(holds(f[1], tr, k) for k in range(i, n))
    if op == "eventually":
        return any(holds(f[1], tr, k) for k in range(i, n))
    if op == "until":
        for k in range(i, n):
            if holds(f[2], tr, k):
                return all(holds(f[1], tr, j) for j in range(i, k))
        return False
    raise ValueError(op)


def holds_rvltl_bug(f, tr, i=0):
    """Model of the rv_ltl 0.1.0 UntilMonitor quirk: for an explicit `until` evaluated at offset i the
    left operand is checked over range(i, min(i+k, last)) instead of range(i, k) (k = first position
    >= i where the right operand is truthy, last = final index).  Truthiness of the final verdict only.
    Used solely to *classify* a disagreement as the known third-party mechanism."""
    op = f[0]
    n = len(tr)
    last = n - 1
    R = holds_rvltl_bug
    if op == "a":
        return bool(tr[i][f[1]])
    if op == "not":
        return not R(f[1], tr, i)
    if op == "and":
        return R(f[1], tr, i) and R(f[2], tr, i)
    if op == "or":
        return R(f[1], tr, i) or R(f[2], tr, i)
    if op == "implies":
        return (not R(f[1], tr, i)) or R(f[2], tr, i)
    if op == "next":
        return i + 1 < n and R(f[1], tr, i + 1)
    if op == "always":
        return all(R(f[1], tr, k) for k in range(i, n))
    if op == "eventually":
        return any(R(f[1], tr, k) for k in range(i, n))
    if op == "until":
        for k in range(i, n):
            if R(f[2], tr, k):
                return all(R(f[1], tr, j) for j in range(i, min(i + k, last)))
        return False
    raise ValueError(op)


def natoms(f):
    if f[0] == "a":
        return f[1] + 1
    return max(natoms(x) for x in f[1:])


def depth(f):
    if f[0] == "a":
        return 0
    return 1 + max(depth(x) for x in f[1:])


def is_temporal(f):
    if f[0] == "a":
        return False
    return f[0] in TEMPORAL or any(is_temporal(x) for x in f[1:])


def has_until_under_offset(f, under=False):
    """explicit `until` (non-trivial left operand) nested below a temporal operator"""
    if f[0] == "a":
        return False
    if f[0] == "until" and under:
        return True
    u = under or f[0] in TEMPORAL
    return any(has_until_under_offset(x, u) for x in f[1:])


def satisfiable_extension(f, prefix, n_atoms, extra=3):
    """Is there a continuation (possibly empty) of `prefix`, up to `extra` more states, satisfying f?"""
    if holds(f, prefix):
        return True
    states = list(itertools.product((False, True), repeat=n_atoms))
    for k in range(1, extra + 1):
        for ext in itertools.product(states, repeat=k):
            if holds(f, list(prefix) + list(ext)):
                return True
    return False


def enumerate_formulas(max_depth, n_atoms):
    """All formulas of depth <= max_depth (by exact depth levels)."""
    levels = [[("a", i) for i in range(n_atoms)]]
    for d in range(1, max_depth + 1):
        prev_all = [f for lv in levels for f in lv]
        top = levels[-1]
        new = []
        for op in UNARY:
            for f in top:
                new.append((op, f))
        for op in BINARY:
            for f in prev_all:
                for g in prev_all:
                    if depth(f) == d - 1 or depth(g) == d - 1:
                        new.append((op, f, g))
        levels.append(new)
    return [f for lv in levels for f in lv]


# ---- printing in Scenic concrete syntax -----------------------------------------------------------
# Documented grammar (scenic.gram): until (non-assoc, lowest) < {next, always, eventually prefix whose
# operand extends as far as possible but stops at `until`; implies (non-assoc)} < or < and < not < atom.

PREFIX = ("next", "always", "eventually")


def fmt(f, atom=lambda i: f"V.a({i})", style="min", tail=True):
    """style 'min': minimal parentheses; 'full': every compound operand parenthesised."""

    def paren(x):
        return "(" + fmt(x, atom, style, True) + ")"

    def operand(x, allowed, t):
        # allowed: set of operator names that may appear unparenthesised here
        if x[0] == "a":
            return fmt(x, atom, style, t)
        if style == "full":
            return paren(x)
        if x[0] in PREFIX:
            # a prefix operator swallows everything to its right (up to `until`): only safe in tail position
            if "prefix" in allowed and t:
                return fmt(x, atom, style, True)
            return paren(x)
        if x[0] in allowed:
            return fmt(x, atom, style, t)
        return paren(x)

    op = f[0]
    if op == "a":
        return atom(f[1])
    if op in PREFIX:
        # operand: scenic_above_until = prefix | implication  (anything but until)
        return f"{op} " + operand(f[1], {"prefix", "implies", "or", "and", "not"}, True)
    if op == "not":
        return "not " + operand(f[1], {"prefix", "not"}, tail)
    if op == "and":
        return (
            operand(f[1], {"not", "and"}, False) + " and " + operand(f[2], {"prefix", "not"}, tail)
        )
    if op == "or":
        return (
            operand(f[1], {"and", "not", "or"}, False)
            + " or "
            + operand(f[2], {"prefix", "and", "not"}, tail)
        )
    if op == "implies":
        return (
            operand(f[1], {"or", "and", "not"}, False)
            + " implies "
            + operand(f[2], {"prefix", "or", "and", "not"}, tail)
        )
    if op == "until":
        return (
            operand(f[1], {"prefix", "implies", "or", "and", "not"}, True)
            + " until "
            + operand(f[2], {"prefix", "implies", "or", "and", "not"}, tail)
        )
    raise ValueError(op)
