"""C15 fresh-process worker:  python -m rt.c15_worker  < spec.json  > dump.json

spec: {source, options:{mode2D, params}, seed, junk, clock_seed, k, batch, steps, scenario}
The process perturbs its heap layout (seed-dependent number of junk allocations before and after
importing scenic), installs a jittered fake clock into scenic.core.sample_checking, seeds the global
generators, compiles, samples and simulates; prints one canonical JSON dump.
PYTHONHASHSEED is chosen by the parent (environment).
"""

import json
import random
import re
import sys

_KEEP = []


class _Junk:
    __slots__ = ("a", "b", "__dict__")

    def __init__(self, i):
        self.a = i
        self.b = None
        self.payload = i


def perturb_heap(n, rng):
    """Allocate n small objects of assorted size classes; keep a random third alive, free the rest
    in random order (so the allocator's free lists, hence later id()s and id-ordered sets, differ)."""
    tmp = []
    for i in range(n):
        r = rng.random()
        if r < 0.4:
            o = _Junk(i)
        elif r < 0.6:
            o = {"k": i}
        elif r < 0.75:
            o = [i] * rng.randrange(1, 9)
        elif r < 0.9:
            o = (i, str(i) * rng.randrange(1, 5))
        else:
            o = {i, i + 1}
        tmp.append(o)
    rng.shuffle(tmp)
    cut = len(tmp) // 3
    _KEEP.extend(tmp[:cut])
    del tmp[:]


class FakeTime:
    """Stands in for the `time` module inside scenic.core.sample_checking: perf_counter() advances by
    random, heavy-tailed increments, so the time-weighted requirement order differs between processes."""

    def __init__(self, seed):
        import time as _t

        self._t = _t
        self._rng = random.Random(seed)
        self._now = 0.0
        self.calls = 0

    def perf_counter(self):
        self.calls += 1
        r = self._rng.random()
        self._now += (10.0 ** self._rng.uniform(-7, 0)) if r < 0.9 else self._rng.uniform(0, 5)
        return self._now

    def __getattr__(self, name):
        return getattr(self._t, name)


def _exc(e):
    return [type(e).__name__, re.sub(r"0x[0-9a-fA-F]+", "0x?", str(e))[:300]]


def _namespaces(scenario):
    ds = scenario.dynamicScenario
    out = []
    if ds._dummyNamespace:
        out.append(ds._dummyNamespace)
    for f in (getattr(type(ds), "_setup", None), getattr(type(ds), "_compose", None)):
        g = getattr(f, "__globals__", None)
        if g is not None and all(g is not o for o in out):
            out.append(g)
    for ns in (scenario.behaviorNamespaces or {}).values():
        if all(ns is not o for o in out):
            out.append(ns)
    return out


def dep_labels(scenario):
    """Stable labels for Scenario.dependencies (to attribute differences to their order)."""
    from rt import canon

    names = {}
    for ns in _namespaces(scenario):
        for k, v in list(ns.items()):
            if not k.startswith("_"):
                names.setdefault(id(v), k)
    objs = {id(o): i for i, o in enumerate(scenario.objects)}
    out = []
    for d in scenario.dependencies:
        lab = names.get(id(d))
        if lab is None and id(d) in objs:
            lab = f"object#{objs[id(d)]}"
        if lab is None:
            try:
                lab = json.dumps(canon.canon(d))
            except Exception:
                lab = type(d).__name__
        out.append(lab)
    return out


def normalize_deps(scenario):
    """Diagnostic mode: put the requirement-dependency segment of Scenario.dependencies (built from a
    set in the code under test) into a canonical order, so that any remaining difference between
    processes has another cause."""
    from scenic.core.distributions import Samplable

    deps = list(scenario.dependencies)
    labels = dep_labels(scenario)
    lo = len(scenario._instances) + sum(1 for p in scenario.params.values() if isinstance(p, Samplable))
    nb = 0
    for ns in scenario.behaviorNamespaces.values():
        nb += sum(1 for v in ns.values() if isinstance(v, Samplable))
    hi = len(deps) - nb
    if hi - lo < 2:
        return 0
    seg = sorted(zip(labels[lo:hi], range(lo, hi)))
    deps[lo:hi] = [scenario.dependencies[i] for _, i in seg]
    scenario.dependencies = tuple(deps)
    return hi - lo


def last_per_tag(log):
    d = {}
    for tag, val in log:
        d[tag] = val
    return [[k, d[k]] for k in sorted(d)]


def main():
    spec = json.load(sys.stdin)
    jrng = random.Random(spec.get("junk", 0) * 7919 + 13)
    perturb_heap(spec.get("junk", 0), jrng)

    from rt import bootstrap

    bootstrap.install()
    if spec.get("import_extra"):
        for m in spec["import_extra"]:
            try:
                __import__(m)
            except Exception:
                pass
    import numpy
    import scenic
    import scenic.core.sample_checking as sc

    from rt import canon, vfault

    F = vfault.late_init()
    perturb_heap(spec.get("junk", 0) * 3 + 1, jrng)
    clock = FakeTime(spec.get("clock_seed", 0))
    if spec.get("clock_seed") is not None:
        sc.time = clock

    out = {"A": None, "B": None}
    meta = {}
    seed = spec["seed"]
    opts = spec.get("options") or {}

    def seed_all(s):
        random.seed(s)
        numpy.random.seed(s % (2**32))

    seed_all(seed)
    try:
        scenario = scenic.scenarioFromString(
            spec["source"], mode2D=bool(opts.get("mode2D")), params=opts.get("params") or {}, scenario=spec.get("scenario")
        )
    except Exception as e:
        out["compile_error"] = _exc(e)
        json.dump({"dump": out, "meta": meta}, sys.stdout)
        return
    # compilation (geometry building, pruning) must not draw from the user-visible generators
    st, nst = random.getstate(), numpy.random.get_state()
    post = [random.random().hex(), float(numpy.random.random()).hex()]
    random.setstate(st)
    numpy.random.set_state(nst)
    pure = [random.Random(seed).random().hex(), float(numpy.random.RandomState(seed % (2**32)).random_sample()).hex()]
    meta["compile_consumed_rng"] = [a != b for a, b in zip(post, pure)]
    meta["deps_raw"] = dep_labels(scenario)
    if spec.get("normalize_deps"):
        meta["normalized_segment"] = normalize_deps(scenario)
    meta["deps"] = dep_labels(scenario)
    meta["n_user_reqs"] = len(scenario.userRequirements)
    meta["n_default_reqs"] = len(scenario.defaultRequirements)

    def gen_one(tag):
        F.LOG.clear()
        try:
            scene, its = scenario.generate(maxIterations=spec.get("maxIterations", 400), verbosity=0)
        except Exception as e:
            # (values seen by requirements are only deterministic for the accepted sample: which requirement is
            # evaluated last on a rejected sample legitimately depends on the time-weighted check order)
            return None, {"error": _exc(e)}
        return scene, {"scene": canon.dump_scene(scene), "iterations": its, "obs": last_per_tag(F.LOG)}

    def sim_one(scene):
        from scenic.core.simulators import DummySimulator

        F.LOG.clear()
        try:
            sim = DummySimulator(drift=spec.get("drift", 0)).simulate(
                scene, maxSteps=spec.get("steps", 4), maxIterations=2, verbosity=0
            )
        except Exception as e:
            return {"error": _exc(e), "log": list(F.LOG)}
        return {"result": canon.dump_result(sim), "log": list(F.LOG)}

    # Phase A: straight after compilation, no history
    A = {"scenes": []}
    first = None
    for i in range(2):
        scene, d = gen_one("A")
        A["scenes"].append(d)
        if first is None:
            first = scene
    A["next_random"] = [random.random().hex(), float(numpy.random.random()).hex()]
    if first is not None and spec.get("steps", 4) > 0:
        A["sim"] = sim_one(first)
        A["next_random_after_sim"] = [random.random().hex(), float(numpy.random.random()).hex()]
    out["A"] = A

    # history: k more scenes (and their simulations for a few), then re-seed
    k = spec.get("k", 0)
    warm_ok = 0
    for i in range(k):
        scene, d = gen_one("W")
        if scene is not None:
            warm_ok += 1
            if i < 2 and spec.get("steps", 4) > 0:
                sim_one(scene)
    meta["warm_ok"] = warm_ok
    def stale_binding():
        ds = scenario.dynamicScenario
        objs = list(scenario.objects)
        return any(all(o is not p for p in objs) for o in ds._objects) or (ds._ego is not scenario.egoObject)

    def phase_B():
        seed_all(seed + 1)
        B = {"scenes": []}
        first = None
        for i in range(spec.get("batch", 3)):
            scene, d = gen_one("B")
            B["scenes"].append(d)
            if first is None:
                first = scene
        B["next_random"] = [random.random().hex(), float(numpy.random.random()).hex()]
        F.LOG.clear()
        try:
            scenes, total = scenario.generateBatch(2, maxIterations=spec.get("maxIterations", 400))
            B["batch"] = {"scenes": [canon.dump_scene(s) for s in scenes], "iterations": total}
        except Exception as e:
            B["batch"] = {"error": _exc(e)}
        if first is not None and spec.get("steps", 4) > 0:
            seed_all(seed + 2)
            B["sim"] = sim_one(first)
            B["next_random_after_sim"] = [random.random().hex(), float(numpy.random.random()).hex()]
        return B

    meta["stale_binding_before_B"] = stale_binding()
    out["B"] = phase_B()
    # diagnostic only (not part of the compared dump): the same phase again after undoing what
    # DynamicScenario._bindTo left behind from the last simulation
    diag = {}
    if spec.get("diag_unbind", True):
        ds = scenario.dynamicScenario
        ds._objects = list(scenario.objects)
        ds._ego = scenario.egoObject
        diag["B_unbound"] = phase_B()
    meta["clock_calls"] = clock.calls
    json.dump({"dump": out, "meta": meta, "diag": diag}, sys.stdout)


if __name__ == "__main__":
    main()
