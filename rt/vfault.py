"""`verif_fault` — module imported by generated Scenic programs (`import verif_fault as F`).

Provides
  * fault points:   F.fp(tag, default=True) / F.fpv(tag, value) / F.dfp(tag, value) (evaluated at sample time)
                    The evaluation counter of `tag` is bumped; when (tag, count) == the armed fault the fault
                    action is performed: raise Boom / raise RejectionException / return `not default`.
  * observations:   F.obs(tag, *values) appends (tag, canonical values) to F.LOG and returns True.
  * an Action:      F.SetProp(name, value) whose applyTo is a fault point ('apply') and then sets a property.
  * FaultySimulator: DummySimulator whose createObjectInSimulator / step / getProperties are fault points
                    and whose executeActions really applies Action instances.
Import after bootstrap.install().
"""

import sys
import types

_mod = types.ModuleType("verif_fault")
_mod.LOG = []
_mod.COUNTS = {}
_mod.FAULT = None  # (tag, k, mode) ; mode in raise | reject | flip
_mod.FIRED = []
_mod.PHASE = "idle"
_mod.PHASE_COUNTS = {}


class Boom(Exception):
    """The injected user-code / simulator exception."""


def reset(fault=None):
    _mod.LOG.clear()
    _mod.COUNTS.clear()
    _mod.PHASE_COUNTS.clear()
    _mod.FIRED.clear()
    _mod.FAULT = tuple(fault) if fault else None


def _hit(tag):
    c = _mod.COUNTS.get(tag, 0) + 1
    _mod.COUNTS[tag] = c
    key = f"{_mod.PHASE}:{tag}"
    _mod.PHASE_COUNTS[key] = _mod.PHASE_COUNTS.get(key, 0) + 1
    f = _mod.FAULT
    if f is not None and f[0] == tag and f[1] == c:
        _mod.FIRED.append((tag, c, f[2], _mod.PHASE))
        return f[2]
    return None


def _act(mode, tag):
    if mode == "raise":
        raise Boom(f"injected at {tag}")
    if mode == "reject":
        from scenic.core.distributions import RejectionException

        raise RejectionException(f"injected rejection at {tag}")
    if mode == "rejectsim":
        from scenic.core.dynamics.utils import RejectSimulationException

        raise RejectSimulationException(f"injected simulation rejection at {tag}")


def fp(tag, default=True):
    mode = _hit(tag)
    if mode is None:
        return default
    if mode == "flip":
        return not default
    _act(mode, tag)
    return default


def fpv(tag, value):
    """Fault point returning `value` (flip has no meaning here: behaves like raise)."""
    mode = _hit(tag)
    if mode is not None:
        _act("raise" if mode == "flip" else mode, tag)
    return value


def obs(tag, *values):
    from rt.canon import canon

    _mod.LOG.append([tag, canon(values)])
    return True


def running():
    """Names of the currently running scenarios (observation only)."""
    import scenic.syntax.veneer as veneer

    return tuple(type(s).__name__ for s in veneer.runningScenarios)


def now():
    import scenic.syntax.veneer as veneer

    sim = veneer.currentSimulation
    return sim.currentTime if sim is not None else -1


def rnd():
    """Consumes the global generators (legitimate inside a requirement: Scenic promises to restore them)."""
    import random

    import numpy

    return random.random() + float(numpy.random.random()) + random.gauss(0, 1e-9)


def rej_if(cond):
    """A requirement helper that *rejects the sample by raising* (as an undefined vector field or an empty
    range would) when cond holds; otherwise True."""
    if cond:
        from scenic.core.distributions import RejectionException

        raise RejectionException("scripted rejection raised inside a requirement")
    return True


_mod.rej_if = rej_if
_mod.rnd = rnd
_mod.now = now
_mod.Boom = Boom
_mod.reset = reset
_mod.fp = fp
_mod.fpv = fpv
_mod.obs = obs
_mod.running = running
sys.modules["verif_fault"] = _mod
mod = _mod

_late_done = False


def late_init():
    """Things needing scenic imported."""
    global _late_done
    if _late_done:
        return _mod
    _late_done = True
    from scenic.core.distributions import distributionFunction
    from scenic.core.dynamics.actions import Action
    from scenic.core.simulators import DummySimulation, DummySimulator, Simulation

    @distributionFunction
    def dfp(tag, value):
        return fpv(tag, value)

    class SetProp(Action):
        def __init__(self, name, value):
            self.name = name
            self.value = value

        def applyTo(self, agent, simulation):
            fp("apply")
            setattr(agent, self.name, self.value)

        def __repr__(self):
            return f"SetProp({self.name!r}, {self.value!r})"

        def _verif_canon(self):
            from rt.canon import canon

            return ["SetProp", self.name, canon(self.value)]

    class FaultySimulation(DummySimulation):
        def createObjectInSimulator(self, obj):
            fp("sim_create")
            return super().createObjectInSimulator(obj)

        def executeActions(self, allActions):
            for agent, actions in allActions.items():
                for action in actions:
                    if isinstance(action, Action):
                        action.applyTo(agent, self)

        def step(self):
            fp("sim_step")
            return super().step()

        def getProperties(self, obj, properties):
            fp("sim_get")
            return super().getProperties(obj, properties)

    class FaultySimulator(DummySimulator):
        def createSimulation(self, scene, **kwargs):
            return FaultySimulation(scene, drift=self.drift, **kwargs)

    _mod.dfp = dfp
    _mod.SetProp = SetProp
    _mod.FaultySimulation = FaultySimulation
    _mod.FaultySimulator = FaultySimulator
    return _mod
