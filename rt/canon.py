"""Canonical, address-free, bit-exact dumps of Scenic values (used by C14 and C15).

Floats are dumped as hex strings, quaternions up to sign, containers in the order given (sets sorted by
their canonical text), behaviours by class + arguments, everything else by type name.  Nothing in a dump
may depend on object addresses or on hash seeds.
"""

import enum
import hashlib
import json
import types
import weakref


def _hex(x):
    return float(x).hex()


def canon(x, depth=0, full_objects=False):
    import numpy

    from scenic.core.distributions import Distribution, Samplable
    from scenic.core.dynamics.behaviors import Behavior
    from scenic.core.object_types import Constructible
    from scenic.core.regions import Region
    from scenic.core.shapes import Shape
    from scenic.core.vectors import Orientation, Vector

    if depth > 12:
        return ["deep", type(x).__name__]
    if x is None or isinstance(x, (bool, str)):
        return x
    if isinstance(x, enum.Enum):
        return ["enum", type(x).__name__, x.name]
    if isinstance(x, int):
        return x
    if isinstance(x, float):
        return _hex(x)
    if isinstance(x, numpy.floating):
        return _hex(x)
    if isinstance(x, numpy.integer):
        return int(x)
    if isinstance(x, numpy.bool_):
        return bool(x)
    if isinstance(x, Vector):
        try:
            return ["V", _hex(x.x), _hex(x.y), _hex(x.z)]
        except TypeError:  # unsampled vector with random coordinates
            return ["Vlazy"] + [canon(c, depth + 1) for c in (x.x, x.y, x.z)]
    if isinstance(x, Orientation):
        try:
            q = [float(c) for c in x.q]
        except TypeError:
            return ["Olazy"]
        for c in q:
            if abs(c) > 1e-12:
                if c < 0:
                    q = [-d for d in q]
                break
        return ["O"] + [_hex(c) for c in q]
    if isinstance(x, bytes):
        return ["bytes", hashlib.sha1(x).hexdigest()]
    if isinstance(x, numpy.ndarray):
        if x.size <= 16 and x.dtype.kind in "fiub":
            return ["nd", list(x.shape), [canon(v, depth + 1) for v in x.ravel().tolist()]]
        return ["nd", list(x.shape), str(x.dtype), hashlib.sha1(numpy.ascontiguousarray(x).tobytes()).hexdigest()]
    if isinstance(x, (tuple, list)):
        tag = "t" if isinstance(x, tuple) else "l"
        if hasattr(x, "_fields"):
            tag = "nt:" + type(x).__name__
        return [tag] + [canon(v, depth + 1) for v in x]
    if isinstance(x, (dict, types.MappingProxyType)):
        return ["d"] + [[canon(k, depth + 1), canon(v, depth + 1)] for k, v in x.items()]
    if isinstance(x, (set, frozenset)):
        items = [canon(v, depth + 1) for v in x]
        items.sort(key=lambda c: json.dumps(c, sort_keys=True, default=str))
        return ["s"] + items
    if isinstance(x, weakref.ReferenceType):
        r = x()
        return ["weakref", None if r is None else type(r).__name__]
    if isinstance(x, Behavior):
        return [
            "beh",
            type(x).__name__,
            [canon(a, depth + 1) for a in x._args],
            [[k, canon(v, depth + 1)] for k, v in x._kwargs.items()],
        ]
    if isinstance(x, Constructible):
        if full_objects:
            return dump_object(x, depth + 1)
        # reference from inside another value: class + position only
        try:
            pos = canon(x.position, depth + 1)
        except Exception:
            pos = None
        return ["ref", type(x).__name__, pos]
    if isinstance(x, Shape):
        try:
            dims = canon(tuple(x.dimensions), depth + 1)
        except Exception:
            dims = None
        return ["shape", type(x).__name__, dims]
    if isinstance(x, Region):
        return ["region", type(x).__name__, getattr(x, "name", None) if isinstance(getattr(x, "name", None), str) else None]
    if isinstance(x, Distribution):
        deps = [canon(d, depth + 1) for d in getattr(x, "_dependencies", ())]
        return ["dist", type(x).__name__, deps]
    if isinstance(x, Samplable):
        return ["samplable", type(x).__name__]
    if hasattr(x, "_verif_canon"):
        return x._verif_canon()
    if isinstance(x, type):
        return ["type", x.__name__]
    if isinstance(x, (types.FunctionType, types.BuiltinFunctionType, types.MethodType)):
        return ["func", getattr(x, "__name__", "?")]
    if isinstance(x, types.ModuleType):
        return ["module", x.__name__]
    return ["other", type(x).__name__]


def dump_object(obj, depth=0, extra=True):
    """All declared properties of a Scenic object (sampled or not)."""
    props = {}
    for p in sorted(obj.properties):
        try:
            v = getattr(obj, p)
        except Exception as e:  # property not readable: that is itself part of the dump
            props[p] = ["unreadable", type(e).__name__]
            continue
        props[p] = canon(v, depth + 1)
    out = ["obj", type(obj).__name__, props]
    if extra:
        ex = {}
        try:
            ex["proxyIsSelf"] = object.__getattribute__(obj, "_dynamicProxy") is obj
        except AttributeError:
            ex["proxyIsSelf"] = None
        b = props.get("behavior") and getattr(obj, "behavior", None)
        if b is not None and b is not False:
            ex["behRunning"] = bool(getattr(b, "_isRunning", False))
            ex["behAgent"] = getattr(b, "_agent", None) is not None
            ex["behIter"] = getattr(b, "_runningIterator", None) is not None
        out.append(ex)
    return out


def dump_scene(scene):
    return {
        "params": canon(dict(scene.params)),
        "objects": [dump_object(o) for o in scene.objects],
        "ego": None if scene.egoObject is None else list(scene.objects).index(scene.egoObject),
    }


def dump_result(sim):
    """Canonical dump of a finished Simulation (None if rejected)."""
    if sim is None:
        return None
    r = sim.result
    acts = []
    for step in r.actions:
        acts.append([[canon(agent), canon(tuple(a) if isinstance(a, (tuple, list)) else a)] for agent, a in step.items()])
    return {
        "trajectory": [canon(tuple(st)) for st in r.trajectory],
        "orientations": [canon(tuple(getattr(st, "orientations", ()))) for st in r.trajectory],
        "actions": acts,
        "terminationType": r.terminationType.name,
        "terminationReason": r.terminationReason,
        "records": canon(dict(r.records)),
        "steps": sim.currentTime,
    }


def digest(obj):
    return hashlib.sha1(json.dumps(obj, sort_keys=True, default=str).encode()).hexdigest()[:16]


def first_diff(a, b, path=""):
    """Path of the first difference between two JSON-able dumps (None if equal)."""
    if type(a) != type(b):
        return f"{path}: {json.dumps(a, default=str)[:120]} != {json.dumps(b, default=str)[:120]}"
    if isinstance(a, dict):
        for k in sorted(set(a) | set(b), key=str):
            if k not in a or k not in b:
                return f"{path}.{k}: present in one dump only"
            d = first_diff(a[k], b[k], f"{path}.{k}")
            if d:
                return d
        return None
    if isinstance(a, list):
        if len(a) != len(b):
            return f"{path}: length {len(a)} != {len(b)}: {json.dumps(a, default=str)[:100]} vs {json.dumps(b, default=str)[:100]}"
        for i, (x, y) in enumerate(zip(a, b)):
            d = first_diff(x, y, f"{path}[{i}]")
            if d:
                return d
        return None
    if a != b:
        return f"{path}: {json.dumps(a, default=str)[:120]} != {json.dumps(b, default=str)[:120]}"
    return None


def all_diffs(a, b, path="", out=None, limit=40):
    """Paths of all leaf differences (bounded)."""
    if out is None:
        out = []
    if len(out) >= limit:
        return out
    if type(a) != type(b):
        out.append(path)
        return out
    if isinstance(a, dict):
        for k in sorted(set(a) | set(b), key=str):
            if k not in a or k not in b:
                out.append(f"{path}.{k}")
            else:
                all_diffs(a[k], b[k], f"{path}.{k}", out, limit)
        return out
    if isinstance(a, list):
        if len(a) != len(b):
            out.append(path + "[len]")
            return out
        for i, (x, y) in enumerate(zip(a, b)):
            all_diffs(x, y, f"{path}[{i}]", out, limit)
        return out
    if a != b:
        out.append(path)
    return out
