"""Small helpers around the real Scenic API used by several checks (import after bootstrap.install())."""

import hashlib
import inspect
import json
import math
import random
import sys
import types


def compile_scenic(code, **kw):
    import scenic

    return scenic.scenarioFromString(inspect.cleandoc(code) + "\n", **kw)


def h(obj):
    return hashlib.sha1(json.dumps(obj, sort_keys=True, default=str).encode()).hexdigest()[:16]


# --- scripted truth tables / event logs visible from generated Scenic programs -------------------

_script = types.ModuleType("verif_script")
_script.TABLE = {}
_script.LOG = []
_script.EXTRA = {}


def _now():
    import scenic.syntax.veneer as veneer

    sim = veneer.currentSimulation
    return sim.currentTime if sim is not None else -1


def _a(i):
    """Atom i at the current step (False beyond the end of the table)."""
    t = _now()
    if t < 0:
        t = 0  # scene generation: the scene is the state at step 0
    row = _script.TABLE[i]
    v = row[t] if 0 <= t < len(row) else False
    _script.LOG.append(("atom", i, t, v))
    if _script.EXTRA.get("mode") == "int":
        # truthy / falsy non-bool values with disjoint bit patterns (exposes bitwise and/or)
        return (2 << i) if v else 0
    return v


def _ev(kind, ident=None):
    _script.LOG.append((kind, ident, _now()))
    return True


def _rej(i):
    """guard helper: raises a rejection when atom i is false at the current step, else True"""
    from scenic.core.distributions import RejectionException

    if not _a(i):
        raise RejectionException("scripted rejection inside guard")
    return True


def _rec(i):
    """record expression: logs its evaluation, value = current step"""
    t = _now()
    _script.LOG.append(("rec", i, t))
    return t


class _K:
    """plain Python object used by generated programs (attribute access / method calls on random objects)"""

    def __init__(self, v):
        self.v = v

    def m(self, k):
        return self.v * 2 + k

    def __repr__(self):
        return f"K({self.v})"


_script.K = _K
_script.rec = _rec
_script.rej = _rej
_script.a = _a
_script.ev = _ev
_script.now = _now
sys.modules["verif_script"] = _script
script = _script


def veneer_state():
    import scenic.syntax.veneer as v

    return {
        "isActive": v.isActive(),
        "activity": v.activity,
        "currentScenario": repr(v.currentScenario),
        "scenarioStack": len(v.scenarioStack),
        "evaluatingRequirement": v.evaluatingRequirement,
        "evaluatingGuard": v.evaluatingGuard,
        "currentSimulation": repr(v.currentSimulation),
        "currentBehavior": repr(v.currentBehavior),
        "runningScenarios": len(v.runningScenarios),
        "lockedParameters": len(v.lockedParameters),
        "lockedModel": repr(v.lockedModel),
        "mode2D": v.mode2D,
    }


def seed_all(seed):
    import numpy

    random.seed(seed)
    numpy.random.seed(seed % (2**32))
