"""C18 support: helper module visible to generated programs, canonical dumps, program generator,
serializer monitors, short-read recording stream, deterministic state simulator with offsets."""

import io
import math
import random
import struct
import sys
import types
import zlib

# ------------------------------------------------------------------------------------------------
# helper module `verif_c18` importable from generated Scenic programs


def install_helper():
    if "verif_c18" in sys.modules:
        return sys.modules["verif_c18"]
    from scenic.core.distributions import Distribution

    m = types.ModuleType("verif_c18")

    class Pick(Distribution):
        """Primitive (non-deterministic) distribution with an explicit value type: its sampled value
        is what gets encoded, through the codec of `ty`."""

        def __init__(self, ty, values):
            super().__init__(valueType=ty)
            self.ty = ty
            self.values = tuple(values)

        def clone(self):
            return Pick(self.ty, self.values)

        def sampleGiven(self, value):
            return random.choice(self.values)

    def ok(v, mod=5):
        """Deterministic, total predicate of a value (false for about 1/mod of the values)."""
        try:
            r = repr(canon(v))
        except Exception:
            r = "?"
        return zlib.crc32(r.encode()) % mod != 0

    m.NOTES = []

    def note(v):
        import scenic.syntax.veneer as veneer

        sim = veneer.currentSimulation
        sim.__dict__.setdefault("_verif_notes", []).append(canon(v))
        return True

    def notes_of(sim):
        return list(getattr(sim, "_verif_notes", ()))

    m.notes_of = notes_of

    from scenic.core.vectors import Orientation, Vector

    m.S = [eval(x) for x in STRS]
    m.Y = [eval(x) for x in BYTESS]
    m.F = [eval(x) for x in FLOATS]
    m.I = list(INT_EDGES)
    m.VEC = [Vector(1, 2, 3), Vector(-1e300, 5e-324, 0), Vector(0.1, -0.2, 1e-9)]
    m.ORI = [Orientation.fromEuler(0.3, 0.2, 0.1), Orientation.fromEuler(-2.5, 1.0, 3.0), Orientation.fromEuler(0, 0, 0)]
    m.Pick = Pick
    m.ok = ok
    m.note = note
    sys.modules["verif_c18"] = m
    return m


# ------------------------------------------------------------------------------------------------
# canonical dumps


def _f(x):
    x = float(x)
    if x != x:
        return "nan"
    return struct.pack("<d", x).hex()


def canon(v, objs=None, depth=0):
    """Canonical JSON-able form of a value (exact for the types the codecs handle)."""
    import numbers

    import numpy

    from scenic.core.vectors import Orientation, Vector

    if depth > 8:
        return ["deep"]
    if v is None:
        return ["N"]
    if isinstance(v, (bool, numpy.bool_)):
        return ["b", bool(v)]
    if isinstance(v, (int, numpy.integer)):
        return ["i", str(int(v))]
    if isinstance(v, (float, numpy.floating)):
        return ["f", _f(v)]
    if isinstance(v, str):
        return ["s", v]
    if isinstance(v, (bytes, bytearray)):
        return ["y", bytes(v).hex()]
    if isinstance(v, Vector):
        return ["V"] + [_f(c) for c in v.coordinates]
    if isinstance(v, Orientation):
        q = [float(c) for c in v.q]
        # q and -q are the same rotation; normalise the sign on the first non-negligible entry
        for c in q:
            if abs(c) > 1e-12:
                if c < 0:
                    q = [-x for x in q]
                break
        return ["O"] + [round(c, 12) + 0.0 for c in q]
    if isinstance(v, (tuple, list)):
        return ["t" if isinstance(v, tuple) else "l"] + [canon(x, objs, depth + 1) for x in v]
    if isinstance(v, (set, frozenset)):
        return ["S"] + sorted((canon(x, objs, depth + 1) for x in v), key=repr)
    if isinstance(v, dict):
        items = [[canon(k, objs, depth + 1), canon(x, objs, depth + 1)] for k, x in v.items()]
        return ["d"] + sorted(items, key=repr)
    if isinstance(v, numpy.ndarray):
        return ["a"] + [canon(x, objs, depth + 1) for x in v.tolist()]
    if objs is not None and id(v) in objs:
        return ["obj", objs[id(v)]]
    from scenic.core.shapes import Shape

    if isinstance(v, Shape):
        return ["shape", type(v).__name__, canon(tuple(v.dimensions), objs, depth + 1)]
    from scenic.core.dynamics.behaviors import Behavior

    if isinstance(v, Behavior):
        return [
            "B",
            type(v).__name__,
            canon(tuple(v._args), objs, depth + 1),
            canon(dict(v._kwargs), objs, depth + 1),
        ]
    if isinstance(v, numbers.Real):
        return ["f", _f(v)]
    from scenic.core.object_types import Point

    if isinstance(v, Point):  # an object which is not in the scene's object list
        return ["point", type(v).__name__, canon(v.position, objs, depth + 1)]
    return ["T", type(v).__name__]


def dump_scene(scene):
    objs = {id(o): i for i, o in enumerate(scene.objects)}
    out = {"objects": [], "params": canon(dict(scene.params), objs)}
    out["ego"] = objs.get(id(scene.egoObject))
    for o in scene.objects:
        d = {"__class__": type(o).__name__}
        for p in sorted(o.properties):
            try:
                val = getattr(o, p)
            except Exception as e:  # noqa
                val = f"<{type(e).__name__}>"
            d[p] = canon(val, objs)
        out["objects"].append(d)
    return out


def dump_sim(sim):
    """Trajectory, actions, records and termination of a finished simulation."""
    res = sim.result
    objs = {id(o): i for i, o in enumerate(sim.objects)}
    traj = []
    for st in res.trajectory:
        traj.append([canon(tuple(st.positions)), canon(tuple(st.orientations))])
    acts = []
    for step in res.actions:
        acts.append([[objs.get(id(a), -1), canon(x, objs)] for a, x in step.items()])
    recs = {k: canon(v, objs) for k, v in res.records.items()}
    return {
        "trajectory": traj,
        "actions": acts,
        "records": recs,
        "terminationType": res.terminationType.name,
        "terminationReason": str(res.terminationReason),
        "steps": sim.currentTime,
        "nobjects": len(sim.objects),
    }


def first_diff(a, b, path=""):
    """Short description of the first difference between two canonical dumps."""
    if type(a) is not type(b):
        return f"{path}: {str(a)[:80]} != {str(b)[:80]}"
    if isinstance(a, dict):
        for k in sorted(set(a) | set(b), key=str):
            if k not in a or k not in b:
                return f"{path}.{k}: present on one side only"
            d = first_diff(a[k], b[k], f"{path}.{k}")
            if d:
                return d
        return None
    if isinstance(a, list):
        if len(a) != len(b):
            return f"{path}: length {len(a)} != {len(b)}"
        for i, (x, y) in enumerate(zip(a, b)):
            d = first_diff(x, y, f"{path}[{i}]")
            if d:
                return d
        return None
    return None if a == b else f"{path}: {str(a)[:80]} != {str(b)[:80]}"


# ------------------------------------------------------------------------------------------------
# monitors on the Serializer


class SerializerMonitor:
    """Wraps Serializer.__init__/writeValue/readValue; each Serializer instance gets a `_vlog` list of
    (op, type name, canonical value)."""

    def __init__(self):
        from scenic.core.serialization import Serializer

        self.S = Serializer
        self.created = []
        self.writes = 0
        self.reads = 0
        self.types_written = {}
        self._orig = (Serializer.__init__, Serializer.writeValue, Serializer.readValue)
        mon = self
        o_init, o_w, o_r = self._orig

        def __init__(ser, *a, **k):
            ser._vlog = []
            mon.created.append(ser)
            if len(mon.created) > 64:
                del mon.created[:-64]
            o_init(ser, *a, **k)

        def writeValue(ser, value, ty):
            o_w(ser, value, ty)
            mon.writes += 1
            n = getattr(ty, "__name__", str(ty))
            mon.types_written[n] = mon.types_written.get(n, 0) + 1
            ser._vlog.append(("v", n, canon(value)))
            try:
                ser.__dict__.setdefault("_wpos", [6]).append(ser.stream.tell())
            except Exception:
                pass
            mon.note_write(ser, n, value)

        def readValue(ser, ty):
            value = o_r(ser, ty)
            mon.reads += 1
            ser._vlog.append(("v", getattr(ty, "__name__", str(ty)), canon(value)))
            return value

        Serializer.__init__ = __init__
        Serializer.writeValue = writeValue
        Serializer.readValue = readValue
        self.int_classes = {}

    def note_write(self, ser, n, value):
        if n == "int" and isinstance(value, int) and not isinstance(value, bool):
            if 0 <= value <= 252:
                c = "int_1byte"
            elif -32768 <= value <= 32767:
                c = "int_2byte"
            elif -(2**31) <= value < 2**31:
                c = "int_4byte"
            else:
                c = "int_big"
            if value < 0:
                c += "_neg"
            self.int_classes[c] = self.int_classes.get(c, 0) + 1

    def uninstall(self):
        self.S.__init__, self.S.writeValue, self.S.readValue = self._orig

    def last(self):
        return self.created[-1] if self.created else None


class RecordingStream(io.BytesIO):
    """BytesIO which records reads that returned fewer bytes than requested."""

    def __init__(self, data):
        super().__init__(data)
        self.short_reads = []
        self.neg_reads = 0

    def read(self, n=-1):
        r = super().read(n)
        if n is not None and n >= 0 and len(r) < n:
            self.short_reads.append((n, len(r)))
        elif n is not None and n < 0:
            self.neg_reads += 1
        return r


# ------------------------------------------------------------------------------------------------
# deterministic state simulator (for replay and divergence tests)

DYN_DEFAULT = ("position", "velocity", "speed", "angularVelocity", "angularSpeed", "yaw", "pitch", "roll")


def make_state_simulator(offset=None, drift=(1.0, 0.5, 0.25)):
    """A DummySimulator whose Simulation computes every dynamic property as a deterministic function of
    (object index, time step); `offset` = {"obj": i, "prop": name, "delta": d, "dir": [x,y,z], "from": t}
    adds d (scalars) or d*dir (vectors) to what getProperties returns for that property from step t on."""
    from scenic.core.simulators import DummySimulation, DummySimulator
    from scenic.core.vectors import Vector

    class StateSimulation(DummySimulation):
        def _base(self, obj, prop, ty):
            i = self.objects.index(obj)
            t = self.currentTime
            if prop == "position":
                # a simulator reports floats (ints beyond 2^53 would not survive the <d codec)
                p0 = self._p0.setdefault(i, Vector(*(float(c) for c in obj.position)))
                return p0 + Vector(drift[0] * t, drift[1] * t, drift[2] * t)
            if ty is Vector:
                k = sum(map(ord, prop)) % 7
                return Vector(1.5 + i + k, -2.25 * (t + 1), 0.5 * k - t)
            if ty is float:
                k = sum(map(ord, prop)) % 5
                if prop in ("yaw", "pitch", "roll"):
                    return 0.125 * (k + 1) + 0.0625 * t * (1 if k % 2 else -1)
                return 5.0 + k + 0.75 * t - 2 * i
            if ty is int:
                return 3 + 2 * t + i
            if ty is bool:
                return (t + i) % 2 == 0
            if ty is str:
                return f"s{t % 3}"
            return None

        def setup(self):
            self._p0 = {}
            super().setup()

        def step(self):
            pass

        def getProperties(self, obj, properties):
            types_ = obj._simulatorProvidedProperties
            vals = {}
            i = self.objects.index(obj)
            for prop in properties:
                ty = types_[prop]
                v = self._base(obj, prop, ty)
                if offset and offset["obj"] == i and offset["prop"] == prop and self.currentTime >= offset["from"]:
                    d = offset["delta"]
                    if isinstance(v, Vector):
                        dx, dy, dz = offset["dir"]
                        v = Vector(v.x + d * dx, v.y + d * dy, v.z + d * dz)
                    elif isinstance(v, bool):
                        v = not v
                    elif isinstance(v, (int, float)):
                        v = type(v)(v + d)
                    elif isinstance(v, str):
                        v = v + "!"
                vals[prop] = v
            return vals

    class StateSimulator(DummySimulator):
        def createSimulation(self, scene, **kwargs):
            return StateSimulation(scene, drift=0, **kwargs)

    return StateSimulator()


# ------------------------------------------------------------------------------------------------
# program generator

STRS = ['"a"', '"héllo wörld"', '"日本語テキスト"', '""', '"x" * 300', '"tab\\tnl\\n"', '"𝔘𝔫𝔦"']
BYTESS = ['b""', 'b"\\x00"', 'b"\\xff\\xfe\\xfd"', 'b"ab" * 200', 'bytes(range(256))']
INT_EDGES = [0, 1, 252, 253, 254, 255, 256, 32767, 32768, -1, -32768, -32769, 2**31 - 1, 2**31, -(2**31), -(2**31) - 1,
             2**63 - 1, 2**63, -(2**63), -(2**63) - 1, 2**64, 2**64 + 1, 3**80, -(5**90), 65535, 65536, -253, -255, -256]
DR_EDGES = [(250, 256), (0, 3), (32765, 32770), (-32771, -32765), (2**31 - 3, 2**31 + 3), (-(2**31) - 3, -(2**31) + 3),
            (2**63 - 3, 2**63 + 3), (-(2**63) - 3, -(2**63) + 3), (2**64 - 2, 2**64 + 2), (-3, 3), (65533, 65538),
            (2**32 - 2, 2**32 + 2), (-255, -250), (2**15 - 1, 2**15), (2**100, 2**100 + 4)]
FLOATS = ["0.0", "-0.0", "1e308", "5e-324", "-2.5", "3.141592653589793", "1e-300", "float('inf')", "float('-inf')", "float('nan')"]


class Gen:
    def __init__(self, rng, idx):
        self.rng = rng
        self.idx = idx
        self.features = set()

    def f(self, name):
        self.features.add(name)

    def sl(self, n):
        a = self.rng.randrange(n)
        return f"{a}:{a + self.rng.randint(1, 3)}"

    def num(self):
        r = self.rng
        a = round(r.uniform(-5, 5), 2)
        return a, round(a + r.uniform(0.1, 4), 2)

    def scalar(self, depth=0):
        """random scalar-valued expression (float/int)"""
        r = self.rng
        k = r.randrange(9 if depth < 2 else 5)
        if k == 0:
            a, b = self.num()
            self.f("Range")
            return f"Range({a}, {b})"
        if k == 1:
            self.f("Normal")
            return f"Normal({round(r.uniform(-3, 3), 2)}, {round(r.uniform(0.1, 2), 2)})"
        if k == 2:
            self.f("TruncatedNormal")
            m = round(r.uniform(-3, 3), 2)
            return f"TruncatedNormal({m}, {round(r.uniform(0.1, 2), 2)}, {m - 1}, {m + 1})"
        if k == 3:
            lo, hi = r.choice(DR_EDGES)
            self.f("DiscreteRange")
            return f"DiscreteRange({lo}, {hi})"
        if k == 4:
            self.f("Pick_int")
            return f"VD.Pick(int, VD.I[{self.sl(len(INT_EDGES))}])"
        if k == 5:
            self.f("arith")
            return f"({self.scalar(depth + 1)} {r.choice('+-*')} {self.scalar(depth + 1)})"
        if k == 6:
            n = r.randint(2, 4)
            self.f("Uniform_scalar")
            return "Uniform(" + ", ".join(self.scalar(depth + 1) if r.random() < 0.7 else str(r.randint(-9, 300)) for _ in range(n)) + ")"
        if k == 7:
            self.f("Options_weighted")
            n = r.randint(2, 3)
            return "Options({" + ", ".join(f"{self.scalar(depth + 1)}: {r.randint(1, 3)}" for _ in range(n)) + "})"
        self.f("DiscreteRange_randbounds")
        return f"DiscreteRange(Range(0, 2), Range(250, 260))"

    def anyval(self, depth=0):
        """random expression of any encodable type"""
        r = self.rng
        k = r.randrange(16 if depth < 2 else 12)
        if k <= 2:
            return self.scalar(depth)
        if k == 3:
            self.f("Pick_str")
            return f"VD.Pick(str, VD.S[{self.sl(len(STRS))}])"
        if k == 4:
            self.f("Pick_bytes")
            return f"VD.Pick(bytes, VD.Y[{self.sl(len(BYTESS))}])"
        if k == 5:
            self.f("Pick_bool")
            return "VD.Pick(bool, [True, False])"
        if k == 6:
            self.f("Pick_None")
            return "VD.Pick(type(None), [None])"
        if k == 7:
            self.f("Pick_float")
            return f"VD.Pick(float, VD.F[{self.sl(len(FLOATS))}])"
        if k == 8:
            self.f("Pick_Vector")
            return "VD.Pick(Vector, VD.VEC)"
        if k == 9:
            self.f("Pick_Orientation")
            return "VD.Pick(Orientation, VD.ORI)"
        if k == 10:
            self.f("vector_expr")
            return f"({self.scalar(depth + 1)} @ {self.scalar(depth + 1)})"
        if k == 11:
            self.f("const")
            return r.choice(STRS[:3] + ["7", "None", "True", "2.5", "(1, 'x')"])
        if k == 12:
            n = r.randint(2, 4)
            self.f("Uniform_nested")
            return "Uniform(" + ", ".join(self.anyval(depth + 1) for _ in range(n)) + ")"
        if k == 13:
            self.f("Options_list")
            n = r.randint(2, 3)
            return "Options([" + ", ".join(self.anyval(depth + 1) for _ in range(n)) + "])"
        if k == 14:
            self.f("tuple")
            n = r.randint(2, 3)
            return "(" + ", ".join(self.anyval(depth + 1) for _ in range(n)) + ")"
        self.f("Uniform_starred")
        return "Uniform(*Uniform([1, 2], [3, 4, 5], [6], [7, 8, 9, 300]))"

    def region(self, i, three_d):
        r = self.rng
        c = f"({40 * i} @ {40 * (i % 3)})"
        k = r.randrange(4 if three_d else 3)
        if k == 0:
            self.f("in_rect")
            return f"in RectangularRegion({c}, {round(r.uniform(0, 3), 2)}, 6, 4)"
        if k == 1:
            self.f("in_circle")
            return f"in CircularRegion({c}, 5)"
        if k == 2:
            self.f("on_line")
            return f"in PolylineRegion([{40 * i} @ 0, {40 * i + 5} @ 5, {40 * i + 10} @ 0])"
        self.f("in_box3d")
        return f"in BoxRegion(position=({40 * i}, {40 * (i % 3)}, 3), dimensions=(4, 4, 4))"


def gen_program(seed, idx):
    """Returns {text, dynamic(bool), steps, modular(bool), param_names}"""
    rng = random.Random(seed * 1000003 + idx * 7919 + 5)
    g = Gen(rng, idx)
    r = rng
    three_d = r.random() < 0.6
    dynamic = idx % 4 != 3  # three quarters of the programs have behaviours
    L = ["import verif_c18 as VD"]
    nobj = r.randint(1, 3)
    use_gadget = r.random() < 0.35
    if use_gadget:
        g.f("custom_class_dynamic_props")
        L += [
            "class Gadget:",
            "    charge[dynamic]: 3",
            '    label[dynamic]: "idle"',
            "    flag[dynamic]: False",
            "    temp[dynamic]: 20.5",
            f"    extra: {g.anyval(1)}",
        ]
    steps = r.randint(2, 5)
    # behaviours
    beh_names = []
    if dynamic:
        nsub = r.randint(1, 2)
        for b in range(nsub):
            L.append(f"behavior Sub{b}(k):")
            for _ in range(r.randint(1, 2)):
                L.append(f"    take ({g.anyval(1)}, k)")
            if r.random() < 0.3:
                g.f("runtime_soft_require")
                L.append(f"    require[{r.choice((0.5, 0.8, 0.95))}] VD.ok({g.scalar(1)}, 3)")
        L.append("behavior Main(arg):")
        L.append("    n = 0")
        L.append("    while True:")
        L.append(f"        a = {g.anyval()}")
        L.append(f"        b = {g.scalar()}")
        g.f("runtime_draws")
        kind = r.randrange(7)
        if kind == 0:
            g.f("runtime_soft_require")
            L.append(f"        require[{r.choice((0.3, 0.7, 0.9))}] VD.ok(a)")
        elif kind == 1:
            g.f("runtime_hard_require")
            L.append("        require VD.ok(b, 9)")
        if nsub >= 2 and r.random() < 0.6:
            which = r.randrange(3)
            subs = ", ".join(f"Sub{b}({r.randint(0, 9)})" for b in range(nsub))
            if which == 0:
                g.f("do_choose")
                L.append(f"        do choose {subs}")
            elif which == 1:
                g.f("do_shuffle")
                L.append(f"        do shuffle {subs}")
            else:
                g.f("do_choose_weighted")
                w = ", ".join(f"Sub{b}({r.randint(0, 9)}): {r.randint(1, 3)}" for b in range(nsub))
                L.append("        do choose {" + w + "}")
        elif r.random() < 0.5:
            g.f("do_sub")
            L.append(f"        do Sub0({g.scalar(1)})")
        if r.random() < 0.3:
            g.f("behavior_random_terminate")
            L.append("        if Range(0, 1) < 0.15:")
            L.append("            terminate")
        L.append("        take (a, b, arg, n)")
        L.append("        n += 1")
        beh_names.append("Main")
        if r.random() < 0.4:
            g.f("monitor_draws")
            L += ["monitor Mon():", "    while True:", f"        VD.note({g.anyval(1)})", "        wait"]
            beh_names.append("Mon")
    # modular?
    modular = r.random() < 0.2
    ind = ""
    if modular:
        g.f("modular")
        L += ["scenario Other():", "    setup:", "        ego = new Object at (900, 900, 0)", "scenario Main_():", "    setup:"]
        ind = "        "
    params = []
    for i in range(nobj):
        name = "ego" if i == 0 else f"o{i}"
        cls = "Gadget" if (use_gadget and i == nobj - 1) else "Object"
        specs = []
        k = r.randrange(4)
        if k == 0:
            specs.append(f"at ({40 * i} + {g.scalar(1)}, {g.scalar(1)}" + (f", {g.scalar(1)})" if three_d else ")"))
            g.f("at_expr")
        else:
            specs.append(g.region(i, three_d))
        k = r.randrange(4)
        if k == 0:
            g.f("facing_scalar")
            specs.append(f"facing {g.scalar(1)} deg")
        elif k == 1 and three_d:
            g.f("facing_3d")
            specs.append("facing (Range(0, 360) deg, Range(-80, 80) deg, Range(0, 360) deg)")
        elif k == 2 and i > 0:
            g.f("facing_toward")
            specs.append("facing toward ego")
        for j in range(r.randint(1, 2)):
            specs.append(f"with p{j} {g.anyval(1 if j else 0)}")
        if r.random() < 0.4:
            g.f("random_shape")
            specs.append(r.choice([
                "with shape Uniform(BoxShape(), CylinderShape(), ConeShape(), SpheroidShape())",
                "with shape Options({BoxShape(dimensions=(1, 2, 3)): 1, CylinderShape(): 2})",
            ]))
        if r.random() < 0.4:
            g.f("random_dimensions")
            specs.append(f"with width Range(0.5, 2), with length {r.choice(('Range(1, 3)', 'Uniform(1, 2, Range(3, 4))'))}")
        specs.append("with allowCollisions True")
        if dynamic and (i == 0 or r.random() < 0.3):
            specs.append(f"with behavior Main({g.anyval(1)})")
            g.f("behavior_random_arg")
        L.append(f"{ind}{name} = new {cls} " + ", ".join(specs))
    for j in range(r.randint(0, 2)):
        params.append(f"q{j}")
        L.append(f"{ind}param q{j} = {g.anyval()}")
    if r.random() < 0.5:
        g.f("param_object_ref")
        L.append(f"{ind}param qpos = ego.position")
    L.append(f"{ind}param fixed = 1")
    if r.random() < 0.35:
        g.f("mutate")
        L.append(ind + r.choice(("mutate", "mutate ego", "mutate ego by 2")))
    if r.random() < 0.3:
        g.f("static_require")
        L.append(f"{ind}require VD.ok(ego.p0, 6)")
    if dynamic:
        if "Mon" in beh_names:
            L.append(f"{ind}require monitor Mon()")
        L.append(f"{ind}record ego.position as pos")
        if r.random() < 0.5:
            g.f("record_initial_final")
            L.append(f"{ind}record initial ego.p0 as p0_initial")
            L.append(f"{ind}record final ego.lastActions as last")
        k = r.randrange(4)
        if k == 0:
            g.f("terminate_after")
            L.append(f"{ind}terminate after {r.randint(1, steps)} steps")
        elif k == 1:
            g.f("terminate_when")
            L.append(f"{ind}terminate when simulation().currentTime >= {r.randint(1, steps)}")
    text = "\n".join(L) + "\n"
    return {
        "text": text,
        "dynamic": dynamic,
        "steps": steps,
        "modular": modular,
        "three_d": three_d,
        "features": sorted(g.features),
        "gadget": use_gadget,
    }
