"""Workload vocabulary shared by C04 / C02: shapes and regions generated *by construction* as unions of
convex pieces.  Each item carries (a) what Scenic is given -- a Shape expression / a Region object built
with the real Scenic classes from a trimesh mesh or a shapely polygon -- and (b) what the oracle is given --
the convex pieces (rt.geomoracle).  Import after bootstrap.install().

Generated Scenic programs reach the Python objects through the module `verif_geom`
(`import verif_geom as G` then `G.mesh(3)`, `G.region(1)`).
"""

import math
import sys
import types

import numpy as np

from . import geomoracle as go

_geom = types.ModuleType("verif_geom")
_geom.MESHES = {}
_geom.REGIONS = {}
_geom.mesh = lambda k: _geom.MESHES[k]
_geom.region = lambda k: _geom.REGIONS[k]
sys.modules["verif_geom"] = _geom
registry = _geom

CONVEX_KINDS = ("box", "cyl", "cone", "sph", "hull")
NONCONVEX_KINDS = ("L", "U", "frame", "cross", "twobody", "shell", "vee")
ONE_BODY_NONCONVEX = ("L", "U", "frame", "cross", "vee")


def reset():
    _geom.MESHES.clear()
    _geom.REGIONS.clear()


# ---------------------------------------------------------------------------------------------
# meshes from pieces (input construction; validated against the pieces)
# ---------------------------------------------------------------------------------------------
def _piece_mesh(P):
    import trimesh

    m = trimesh.convex.convex_hull(P.V)
    return m


def mesh_from_pieces(pieces, disjoint=False, rng=None):
    """trimesh mesh of the union of convex pieces + validation that it is that union."""
    import trimesh

    ms = [_piece_mesh(P) for P in pieces]
    if len(ms) == 1:
        mesh = ms[0]
    elif disjoint:
        mesh = trimesh.util.concatenate(ms)
    else:
        mesh = trimesh.boolean.union(ms, engine="manifold")
    allv = np.vstack([P.V for P in pieces])
    if len(ms) > 1 and not disjoint:
        # manifold works in single precision: vertices come back rounded to ~1e-7.  For unions of axis-aligned
        # boxes every vertex coordinate of the exact union is one of the pieces' coordinates: snap to them.
        # (Other unions -- `vee` -- keep the 1e-7 rounding, three orders of magnitude below eps.)
        if all(np.all((np.abs(P.A) < 1e-12) | (np.abs(np.abs(P.A) - 1) < 1e-12)) for P in pieces):
            verts = np.array(mesh.vertices, dtype=float)
            for k in range(3):
                grid = np.unique(allv[:, k])
                idx = np.clip(np.searchsorted(grid, verts[:, k]), 1, len(grid) - 1)
                lo_, hi_ = grid[idx - 1], grid[idx]
                near = np.where(np.abs(verts[:, k] - lo_) < np.abs(verts[:, k] - hi_), lo_, hi_)
                # (vertices that manifold introduced inside a face, where triangle diagonals cross the other
                # box, keep their in-plane coordinate; the coordinates that lie on face planes are snapped)
                close = np.abs(near - verts[:, k]) <= 1e-6 * max(1.0, np.abs(grid).max())
                verts[close, k] = near[close]
            mesh = trimesh.Trimesh(vertices=verts, faces=np.array(mesh.faces), process=False)
    if not mesh.is_volume:
        raise ValueError("generated mesh is not a volume")
    tolb = 1e-9 if (len(ms) == 1 or disjoint) else 1e-6 * max(1.0, float(np.abs(allv).max()))
    if np.abs(mesh.bounds[0] - allv.min(axis=0)).max() > tolb or np.abs(mesh.bounds[1] - allv.max(axis=0)).max() > tolb:
        raise ValueError("generated mesh has other bounds than its pieces")
    # membership agreement on probe points away from the boundary
    rng = rng or np.random.default_rng(12345)
    lo, hi = allv.min(axis=0), allv.max(axis=0)
    pts = rng.uniform(lo - 0.05 * (hi - lo), hi + 0.05 * (hi - lo), size=(120, 3))
    marg = np.array([max(P.contains_point_margin(p) for P in pieces) for p in pts])
    sure = np.abs(marg) > 1e-3 * float((hi - lo).max())
    if sure.any():
        inside = mesh.contains(pts[sure])
        if (inside != (marg[sure] > 0)).any():
            raise ValueError("generated mesh disagrees with its pieces on probe points")
    return mesh


# ---------------------------------------------------------------------------------------------
# shapes
# ---------------------------------------------------------------------------------------------
class ShapeSpec:
    """kind, pieces in raw coordinates (oracle), Scenic source expression, convexity, body count."""

    def __init__(self, kind, solid, src, convex, bodies=1, mesh_id=None, params=None):
        self.kind = kind
        self.solid = solid  # raw coordinates
        self.unit = solid.unit()  # what the docs say a Shape is: centred, unit bounding box
        self.src = src
        self.convex = convex
        self.bodies = bodies
        self.mesh_id = mesh_id
        self.params = params or {}

    def world(self, dims, pos, ypr):
        return self.unit.placed(dims, pos, go.rotation(*ypr))

    def make_shape(self):
        """What the Scenic expression `self.src` evaluates to (a fresh instance)."""
        import scenic.core.shapes as sh

        if self.mesh_id is not None:
            return sh.MeshShape(_geom.MESHES[self.mesh_id])
        cls = {"box": sh.BoxShape, "cyl": sh.CylinderShape, "cone": sh.ConeShape, "sph": sh.SpheroidShape}[self.kind]
        if "initial_rotation" in self.params:
            return cls(initial_rotation=self.params["initial_rotation"])
        return cls()


_PRIMS = {}


def _primitive(kind):
    if kind in _PRIMS:
        return _PRIMS[kind]
    import trimesh

    if kind == "box":
        solid = go.Solid([go.box([-0.5] * 3, [0.5] * 3)])
        ref = trimesh.creation.box((1, 1, 1)).vertices
        src = "BoxShape()"
    elif kind == "cyl":
        solid = go.Solid([go.prism_vertices(24)])
        ref = trimesh.creation.cylinder(radius=0.5, height=1, sections=24).vertices
        src = "CylinderShape()"
    elif kind == "cone":
        solid = go.Solid([go.cone_vertices(32, z0=0.0, z1=1.0)])
        ref = trimesh.creation.cone(radius=0.5, height=1).vertices
        src = "ConeShape()"
    elif kind == "sph":
        ref = np.array(trimesh.creation.icosphere(radius=1).vertices)
        solid = go.Solid([ref])
        src = "SpheroidShape()"
    else:
        raise ValueError(kind)
    # documented primitive == the polytope the oracle knows: every reference vertex lies in the oracle's
    # hull and every oracle vertex is a reference vertex
    P = solid.pieces[0]
    assert max(-P.contains_point_margin(v) for v in ref) < 1e-9, kind
    d = np.abs(P.V[:, None, :] - np.asarray(ref)[None]).sum(-1).min(axis=1)
    assert d.max() < 1e-9, kind
    _PRIMS[kind] = (solid, src)
    return _PRIMS[kind]


def _boxes(*bs):
    return [go.box(lo, hi) for lo, hi in bs]


def random_shape(rng, kind):
    """rng: numpy Generator.  Returns ShapeSpec (registering a mesh in verif_geom if needed)."""
    if kind in ("box", "cyl", "cone", "sph"):
        solid, src = _primitive(kind)
        if kind in ("box", "cyl") and rng.random() < 0.15:
            # `initial_rotation` (applied to the mesh when loading it, about the centre of these point-symmetric
            # shapes); the rotated mesh is then what gets scaled to width x length x height
            r0 = tuple(float(x) for x in rng.uniform(-math.pi, math.pi, 3))
            rot = go.Solid([solid.unit().pieces[0].affine(go.rotation(*r0), (0, 0, 0))])
            cls = src[:-2]
            spec = ShapeSpec(kind, rot, f"{cls}(initial_rotation={r0!r})", True, params={"initial_rotation": r0})
            return spec
        return ShapeSpec(kind, solid, src, True)
    u = lambda a, b: float(rng.uniform(a, b))
    disjoint = False
    bodies = 1
    if kind == "hull":
        n = int(rng.integers(5, 14))
        pts = rng.normal(size=(n, 3)) * rng.uniform(0.3, 1.0, size=3)
        pieces = [go.Convex(pts)]
    elif kind == "L":
        t1, t2, h = u(0.2, 0.5), u(0.2, 0.5), u(0.3, 1.0)
        a, b = u(0.8, 2.0), u(0.8, 2.0)
        pieces = _boxes(((0, 0, 0), (a, t1, h)), ((0, 0, 0), (t2, b, h)))
    elif kind == "U":
        t, h, a, b = u(0.15, 0.4), u(0.3, 1.0), u(1.0, 2.0), u(0.8, 2.0)
        pieces = _boxes(((0, 0, 0), (a, t, h)), ((0, 0, 0), (t, b, h)), ((a - t, 0, 0), (a, b, h)))
    elif kind == "frame":
        t, h, a, b = u(0.15, 0.4), u(0.2, 0.8), u(1.0, 2.0), u(1.0, 2.0)
        pieces = _boxes(
            ((0, 0, 0), (a, t, h)),
            ((0, b - t, 0), (a, b, h)),
            ((0, 0, 0), (t, b, h)),
            ((a - t, 0, 0), (a, b, h)),
        )
    elif kind == "cross":
        t, L = u(0.15, 0.4), u(0.8, 1.5)
        pieces = _boxes(((-L, -t, -t), (L, t, t)), ((-t, -L, -t), (t, L, t)), ((-t, -t, -L), (t, t, L)))
    elif kind == "twobody":
        a, g = u(0.3, 1.0), u(0.2, 1.0)
        b1 = u(0.3, 1.0)
        pieces = _boxes(((0, 0, 0), (a, u(0.3, 1), u(0.3, 1))), ((a + g, 0, 0), (a + g + b1, u(0.3, 1), u(0.3, 1))))
        disjoint = True
        bodies = 2
    elif kind == "shell":
        a, t = u(1.0, 2.0), u(0.1, 0.3)
        pieces = _boxes(
            ((0, 0, 0), (a, a, t)),
            ((0, 0, a - t), (a, a, a)),
            ((0, 0, 0), (t, a, a)),
            ((a - t, 0, 0), (a, a, a)),
            ((0, 0, 0), (a, t, a)),
            ((0, a - t, 0), (a, a, a)),
        )
        bodies = 2  # outer skin + cavity skin
    elif kind == "vee":
        # two bars meeting at an angle (pieces not axis-aligned)
        L, t, h = u(0.8, 1.6), u(0.15, 0.35), u(0.2, 0.8)
        ang = u(0.5, 2.4)
        bar = go.box((0, -t, 0), (L, t, h))
        R = go.rotation(ang, 0, 0)
        pieces = [bar, bar.affine(R, (0, 0, 0))]
    else:
        raise ValueError(kind)
    solid = go.Solid(pieces)
    mesh = mesh_from_pieces(pieces, disjoint=disjoint, rng=rng)
    if kind not in ("vee", "hull"):
        vol = solid.union_volume_axis_aligned()
        if abs(mesh.volume - vol) > 1e-7 * max(1.0, vol):
            raise ValueError(f"union mesh volume {mesh.volume} != exact {vol}")
    if mesh.body_count != bodies:
        raise ValueError(f"{kind}: body count {mesh.body_count}")
    mid = len(_geom.MESHES)
    _geom.MESHES[mid] = mesh
    convex = kind == "hull"
    return ShapeSpec(kind, solid, f"MeshShape(G.mesh({mid}))", convex, bodies, mid)


# cavity descriptions in *unit* coordinates for the "nested" stratum: a box region of free space that is
# enclosed (shell), a through hole (frame) or a notch (U)
def cavity_box(spec):
    """(lo, hi) in raw coordinates of an empty axis-aligned box surrounded by the shape, or None."""
    P = spec.solid.pieces
    if spec.kind == "frame":
        a = P[0].V[:, 0].max()
        b = P[2].V[:, 1].max()
        t = P[0].V[:, 1].max()
        h = P[0].V[:, 2].max()
        return np.array([t, t, 0.0]), np.array([a - t, b - t, h])
    if spec.kind == "shell":
        a = P[0].V[:, 0].max()
        t = P[0].V[:, 2].max()
        return np.array([t, t, t]), np.array([a - t, a - t, a - t])
    if spec.kind == "U":
        a = P[0].V[:, 0].max()
        t = P[0].V[:, 1].max()
        b = P[1].V[:, 1].max()
        h = P[0].V[:, 2].max()
        return np.array([t, t, 0.0]), np.array([a - t, b, h])
    return None


def raw_to_world(spec, dims, pos, ypr):
    """Affine map taking raw shape coordinates to world coordinates: x -> M x + t."""
    lo, hi = spec.solid.bounds()
    c = (lo + hi) / 2
    ext = hi - lo
    S = np.diag(np.asarray(dims, dtype=float) / ext)
    R = go.rotation(*ypr)
    M = R @ S
    return M, np.asarray(pos, dtype=float) - M @ c


# ---------------------------------------------------------------------------------------------
# regions (containers)
# ---------------------------------------------------------------------------------------------
class RegionSpec:
    def __init__(self, kind, tree, region, desc):
        self.kind = kind
        self.tree = tree  # geomoracle region tree in world coordinates
        self.region = region  # the real Scenic region
        self.desc = desc  # JSON-able description (for witnesses / replay)


def _orient(ypr):
    from scenic.core.vectors import Orientation

    return Orientation.fromEuler(*ypr)


def vol_region(rng, kind, centre, size):
    """A MeshVolumeRegion-family container.  kind: boxregion | spheroidregion | hullmesh | L | U | cross | frame | vee
    Returns (tree, scenic region, desc)."""
    from scenic.core.regions import BoxRegion, MeshVolumeRegion, SpheroidRegion

    ypr = tuple(float(x) for x in rng.uniform(-math.pi, math.pi, 3)) if rng.random() < 0.6 else (0.0, 0.0, 0.0)
    dims = tuple(float(x) for x in size * rng.uniform(0.6, 1.4, 3))
    pos = tuple(float(x) for x in centre)
    if kind == "boxregion":
        solid, _ = _primitive("box")
        reg = BoxRegion(dimensions=dims, position=pos, rotation=_orient(ypr))
        pieces = solid.unit().placed(dims, pos, go.rotation(*ypr))
    elif kind == "spheroidregion":
        solid, _ = _primitive("sph")
        reg = SpheroidRegion(dimensions=dims, position=pos, rotation=_orient(ypr))
        pieces = solid.unit().placed(dims, pos, go.rotation(*ypr))
    else:
        spec = random_shape(rng, "hull" if kind == "hullmesh" else kind)
        mesh = _geom.MESHES[spec.mesh_id]
        use_dims = rng.random() < 0.6
        if rng.random() < 0.15:
            # centerMesh=False: the mesh keeps its own coordinates, is rotated about the origin and translated
            # by `position` (documented: "scaling and rotation ... are performed around the origin")
            lo_, hi_ = spec.solid.bounds()
            # choose `position` so that the region ends up around `centre` (position itself is then off the mesh)
            # (and keep it near the world origin: that is where measuring radii about the origin and centre
            # distances about `position` disagree most)
            pos = tuple(float(x) for x in 0.15 * np.asarray(centre, dtype=float) - go.rotation(*ypr) @ ((lo_ + hi_) / 2))
            reg = MeshVolumeRegion(mesh=mesh, position=pos, rotation=_orient(ypr), centerMesh=False)
            pieces = [P.affine(go.rotation(*ypr), pos) for P in spec.solid.pieces]
            desc = {"kind": kind, "dims": None, "pos": pos, "ypr": ypr, "centerMesh": False}
            return ("vol", pieces), reg, desc
        if use_dims:
            reg = MeshVolumeRegion(mesh=mesh, dimensions=dims, position=pos, rotation=_orient(ypr))
            pieces = spec.unit.placed(dims, pos, go.rotation(*ypr))
        else:
            # no dimensions: the mesh keeps its size, is centred on its bounding box and moved to `position`
            reg = MeshVolumeRegion(mesh=mesh, position=pos, rotation=_orient(ypr))
            pieces = spec.solid.centered().placed((1, 1, 1), pos, go.rotation(*ypr))
            dims = None
    desc = {"kind": kind, "dims": dims, "pos": pos, "ypr": ypr}
    return ("vol", pieces), reg, desc


def foot_region(rng, centre, size, as_polygonal=False):
    """Footprint of (union of rotated rectangles) minus (convex holes); polygon assembled with shapely
    (input construction), pieces kept for the oracle."""
    import shapely
    import shapely.geometry as sg
    import shapely.ops
    from scenic.core.regions import PolygonalFootprintRegion, PolygonalRegion

    cx, cy = float(centre[0]), float(centre[1])
    n = int(rng.integers(1, 4))
    outers = []
    for k in range(n):
        w, l = size * rng.uniform(0.5, 1.2), size * rng.uniform(0.5, 1.2)
        a = float(rng.uniform(0, math.pi)) if rng.random() < 0.7 else 0.0
        ox, oy = (0.0, 0.0) if k == 0 else tuple(rng.uniform(-0.35, 0.35, 2) * size)
        ca, sa = math.cos(a), math.sin(a)
        R = np.array([[ca, -sa], [sa, ca]])
        V = (go.box_vertices((-w / 2, -l / 2), (w / 2, l / 2)) @ R.T) + np.array([cx + ox, cy + oy])
        outers.append(go.Convex(V))
    holes = []
    for k in range(int(rng.integers(0, 3))):
        m = int(rng.integers(3, 7))
        ang = np.sort(rng.uniform(0, 2 * math.pi, m))
        if np.diff(np.concatenate([ang, [ang[0] + 2 * math.pi]])).max() > math.pi * 0.95:
            continue
        r = size * rng.uniform(0.05, 0.15)
        c = np.array([cx, cy]) + rng.uniform(-0.3, 0.3, 2) * size
        V = c + r * np.stack([np.cos(ang), np.sin(ang)], axis=1)
        holes.append(go.Convex(V))

    def poly(P):
        import scipy.spatial

        h = scipy.spatial.ConvexHull(P.V)
        return sg.Polygon(P.V[h.vertices])

    outer = shapely.ops.unary_union([poly(P) for P in outers])
    shp = outer
    if holes:
        shp = outer.difference(shapely.ops.unary_union([poly(H) for H in holes]))
    if shp.is_empty or not shp.is_valid:
        return None
    if isinstance(shp, sg.Polygon):
        pass
    elif not isinstance(shp, sg.MultiPolygon):
        return None
    z = float(rng.uniform(-1, 1))
    if as_polygonal:
        reg = PolygonalRegion(polygon=shp, z=z)
    else:
        reg = PolygonalFootprintRegion(shp)
    desc = {"kind": "polygonal" if as_polygonal else "footprint", "outer": [P.V.tolist() for P in outers], "holes": [H.V.tolist() for H in holes], "nholes": len(holes), "z": z}
    # (for `obj intersects region`: a PolygonalRegion is the flat set at height z, a footprint is the prism)
    desc["flat_tree_z"] = z if as_polygonal else None
    return ("foot", outers, holes), reg, desc


def ring_foot_region(rng, centre, size):
    """A rectangle with one small convex hole near its centre (for objects that wrap around the hole: their
    convex hull covers the hole, their exact projection does not)."""
    import shapely.geometry as sg
    from scenic.core.regions import PolygonalFootprintRegion

    cx, cy = float(centre[0]), float(centre[1])
    a = float(rng.uniform(0, math.pi))
    R = np.array([[math.cos(a), -math.sin(a)], [math.sin(a), math.cos(a)]])
    outer = go.Convex((go.box_vertices((-size / 2, -size / 2), (size / 2, size / 2)) @ R.T) + np.array([cx, cy]))
    m = int(rng.integers(3, 7))
    ang = np.sort(rng.uniform(0, 2 * math.pi, m))
    while np.diff(np.concatenate([ang, [ang[0] + 2 * math.pi]])).max() > math.pi * 0.9:
        ang = np.sort(rng.uniform(0, 2 * math.pi, m))
    rh = size * float(rng.uniform(0.03, 0.06))
    hole = go.Convex(np.array([cx, cy]) + rh * np.stack([np.cos(ang), np.sin(ang)], axis=1))

    def ring(P):
        import scipy.spatial

        h = scipy.spatial.ConvexHull(P.V)
        return [tuple(v) for v in P.V[h.vertices]]

    shp = sg.Polygon(ring(outer), [ring(hole)])
    if not shp.is_valid:
        return None
    reg = PolygonalFootprintRegion(shp)
    desc = {"kind": "footprint_ring", "outer": [outer.V.tolist()], "holes": [hole.V.tolist()], "nholes": 1, "hole_radius": rh, "hole_centre": [cx, cy]}
    return ("foot", [outer], [hole]), reg, desc


# ---------------------------------------------------------------------------------------------
# process hygiene
# ---------------------------------------------------------------------------------------------
def calm_thread_pools():
    """manifold3d (TBB) and HiGHS size their global worker pools from the CPU affinity mask the first time they
    are used; with 16 visible cores every tiny boolean / LP pays for waking (and spinning) workers -- measured
    10x on a box-sphere union.  Initialise both pools while the process is confined to one CPU, then restore the
    mask: all later calls run in the calling thread, the process itself may still migrate."""
    import os
    import warnings

    try:
        full = os.sched_getaffinity(0)
    except AttributeError:  # not on Linux
        return False
    try:
        os.sched_setaffinity(0, {sorted(full)[0]})
        import trimesh
        from scipy.optimize import linprog

        a = trimesh.creation.box((1, 1, 1))
        b = trimesh.creation.box((1, 1, 1))
        b.apply_translation((0.5, 0.5, 0.5))
        trimesh.boolean.union([a, b], engine="manifold")
        with warnings.catch_warnings():
            warnings.simplefilter("ignore")
            linprog([1, 1], A_ub=[[-1, 0], [0, -1]], b_ub=[0, 0], method="highs", options={"threads": 1})
    finally:
        os.sched_setaffinity(0, full)
    return True


def hang_dump(prop, spec, fraction=0.85):
    """Diagnostic for shard watchdog timeouts: shortly before the harness would kill the shard, dump the Python
    stacks to /verif/.build/hang-<prop>-<shard>.txt (removed again when the shard finishes normally)."""
    import faulthandler
    import os

    d = os.path.join(os.path.dirname(os.path.dirname(os.path.abspath(__file__))), ".build")
    os.makedirs(d, exist_ok=True)
    path = os.path.join(d, f"hang-{prop}-{spec.get('shard')}-seed{spec.get('seed')}.txt")
    f = open(path, "w")
    faulthandler.dump_traceback_later(max(30, int(spec.get("timeout", 1500) * fraction)), file=f, exit=False)
    return (path, f)


def hang_dump_done(h):
    import faulthandler
    import os

    faulthandler.cancel_dump_traceback_later()
    path, f = h
    f.close()
    try:
        os.remove(path)
    except OSError:
        pass
