import json,sys,collections
d=json.load(open(f'/verif/.build/last-{sys.argv[1]}.json'))
c=collections.Counter(v.get('key') for v in d['violations'])
print(c)
n=int(sys.argv[2]) if len(sys.argv)>2 else 3
seen=collections.Counter()
for v in d['violations']:
    k=v.get('key'); seen[k]+=1
    if seen[k]<=n: print(k,'|',v['what'][:500])
for p in d['problems'][:3]: print(json.dumps(p)[:2000])
