#!/bin/sh
# usage: tools_mutate.sh <name> <file-relative-to-repo> <python-expr-old> <new> <check ids...>
# applies a single textual replacement in a scratch worktree and runs the quick tier of the given checks
name=$1; file=$2; old=$3; new=$4; shift 4
wt=/tmp/wt-mut-$name
git -C /repo worktree add --detach $wt HEAD -q >/dev/null 2>&1 || { echo "worktree failed"; exit 2; }
/venv/bin/python - "$wt/$file" "$old" "$new" <<'PY'
import sys
p, old, new = sys.argv[1:4]
s = open(p).read()
if s.count(old) < 1:
    print("MUTATION-NOT-APPLIED: pattern not found"); sys.exit(3)
s = s.replace(old, new, 1)
open(p, 'w').write(s)
PY
rc=$?
if [ $rc -eq 0 ]; then
for c in "$@"; do
  out=$(VERIF_REPO=$wt /verif/check $c --tier quick --no-evidence 2>&1)
  code=$?
  echo "MUT $name $c exit=$code $(echo "$out" | grep -c '^VIOLATION') violations; $(echo "$out" | grep 'violation key' | head -1 | cut -c1-260) $(echo "$out" | grep '^INCONCLUSIVE' | head -1 | cut -c1-200)"
done
fi
git -C /repo worktree remove --force $wt
