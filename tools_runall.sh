#!/bin/sh
# usage: tools_runall.sh [tier] [seed] ids...   -> runs checks sequentially, one summary line each
tier=$1; seed=$2; shift 2
for c in "$@"; do
  s=$(date +%s)
  out=$(/verif/check $c --tier $tier --seed $seed 2>&1); code=$?
  e=$(date +%s)
  echo "RUN $c tier=$tier seed=$seed exit=$code wall=$((e-s))s nviol=$(echo "$out" | grep -c '^VIOLATION') known=$(echo "$out" | grep -c '^KNOWN-FINDING') :: $(echo "$out" | grep '^VIOLATION\|^INCONCLUSIVE' | head -2 | cut -c1-260 | tr '\n' ' ')"
done
