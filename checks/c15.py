"""C15 — same program, options and seed give identical scenes and runs, every time.

Differential observation of N fresh executions of the real code: every generated program is compiled,
sampled and simulated in N fresh subprocesses (rt/c15_worker.py) that get the same source, options and
seeds but differ in PYTHONHASHSEED, heap layout (seed-dependent junk allocations before/after importing
scenic), a jittered fake clock injected into scenic.core.sample_checking.time, and the number k of scenes
generated before the measured (re-seeded) batch.  The canonical dumps must be bit-identical.
"""

import json
import os
import random
import subprocess

PROPERTY = "C15"
LEVEL = "exploration"
RULE = (
    "programs assembled from 2-5 feature blocks out of: random values referenced only from a requirement / "
    "several requirements / a soft requirement / a record statement / a monitor / behaviour globals / behaviour "
    "arguments / run-time distributions in behaviours / sub-scenario setup; requirements drawing random numbers; mesh shapes and mesh-region sampling; "
    "visibility specifiers and `can see` requirements with an occluder; mutate; relative specifiers; 2D mode with "
    "polygonal workspace. Each program x N process instances (hash seed, heap perturbation, fake-clock seed, "
    "k in {0,5,50} earlier scenes). A program is non-trivial when every instance produced at least one scene and "
    "at least two instances differed in dependency order, requirement-check order (clock calls) or history k; "
    "distinct = distinct program texts."
)
ASSUMPTIONS = [
    "generated programs have no user-level global mutable state, so history (k earlier scenes) may not matter after re-seeding",
    "the canonical dump (rt/canon.py) contains no address- or hash-dependent text (floats as hex, sets sorted, objects by class)",
    "DummySimulator is an adequate stand-in for the simulator-independent part of a run",
]
MIN_COUNTERS = {
    "quick": {"instances_run": 120, "programs_all_instances_sampled": 12, "programs_with_simulation": 8, "instances_clock_used": 60, "programs_compile_rng_stream_checked": 12, "programs_with_normalized_group_nontrivial": 8},
    "thorough": {"instances_run": 4000, "programs_all_instances_sampled": 100, "programs_with_simulation": 80, "instances_clock_used": 2000, "programs_compile_rng_stream_checked": 100, "programs_with_normalized_group_nontrivial": 60},
}

PY = "/venv/bin/python"
VERIF = os.path.dirname(os.path.dirname(os.path.abspath(__file__)))

# ---------------------------------------------------------------------------------------------------
# program generator


def _rv(rng, lo=None):
    """A random-value expression with a distinctive support."""
    kind = rng.choice(["Range", "Range", "Range", "Normal", "Options", "DiscreteRange", "TruncatedNormal", "Uniform"])
    a = lo if lo is not None else rng.randrange(0, 90)
    if kind == "Range":
        return f"Range({a}, {a + 1})"
    if kind == "Normal":
        return f"Normal({a}.5, 0.1)"
    if kind == "Options":
        return "Options([" + ", ".join(f"{a}.{d}" for d in rng.sample(range(10), 3)) + "])"
    if kind == "DiscreteRange":
        return f"DiscreteRange({a}, {a + 3})"
    if kind == "TruncatedNormal":
        return f"TruncatedNormal({a}.5, 0.3, {a}, {a + 1})"
    return f"Uniform({a}.25, {a}.5, {a}.75)"


FEATURES = [
    "req_only", "req_multi", "req_soft", "record_only", "monitor_only", "beh_globals", "beh_args", "beh_runtime",
    "subscenario", "mesh_shape", "mesh_region", "visible", "cansee", "mutate", "relative", "params", "mode2d",
    "req_random", "req_random", "req_raises", "req_raises",
]
RISKY = ["req_only", "req_multi", "req_soft", "record_only", "monitor_only"]


def gen_program(rng, force=None):
    feats = set(force or [])
    feats.add(rng.choice(RISKY))
    n = rng.randint(1, 4)
    feats.update(rng.sample(FEATURES, n))
    if "mode2d" in feats:
        feats -= {"mesh_shape", "mesh_region"}
    if "subscenario" in feats:
        pass
    ctr = [0]

    def name(p):
        ctr[0] += 1
        return f"{p}{ctr[0]}"

    base = [0]

    def rv():
        base[0] += rng.randrange(4, 9)
        return _rv(rng, base[0])

    head = ["import verif_fault as F"]
    body = []  # top-level statements (or Main.setup if modular)
    defs = []  # behaviours / monitors / scenarios
    modular = "subscenario" in feats
    steps = 3
    if "mode2d" in feats:
        head.append("workspace = Workspace(PolygonalRegion([(-30,-30),(30,-30),(30,30),(0,10),(-30,30)]))")
    else:
        head.append("workspace = Workspace(RectangularRegion((0,0), 0, 80, 80))")
    ego_extra = ""
    behs = []
    if "beh_globals" in feats:
        g1, g2 = name("g"), name("g")
        head.append(f"{g1} = {rv()}")
        head.append(f"{g2} = {rv()}")
        b = name("Beh")
        defs.append(f"behavior {b}():\n    while True:\n        F.obs('{b}', {g1}, {g2})\n        take ({g1}, {g2})\n")
        behs.append(f"{b}()")
    if "beh_args" in feats:
        b = name("Beh")
        defs.append(f"behavior {b}(a, b):\n    while True:\n        take (a, b, self.position.x)\n")
        behs.append(f"{b}({rv()}, {rv()})")
    if "beh_runtime" in feats:
        b, s1, s2 = name("Beh"), name("Sub"), name("Sub")
        defs.append(f"behavior {s1}():\n    take ('s1', Range(0, 1))\n")
        defs.append(f"behavior {s2}():\n    take ('s2', Uniform(1, 2, 3))\n")
        defs.append(
            f"behavior {b}():\n    while True:\n        x = Range(0, 1)\n        y = Normal(0, 1)\n"
            f"        take ('rt', x, y)\n        do choose {s1}(), {s2}()\n        do shuffle {s1}(), {s2}()\n"
        )
        behs.append(f"{b}()")
        steps = 6
    ego_beh = f", with behavior {behs.pop(0)}" if behs else ""
    ego_shape = ""
    if "mesh_shape" in feats:
        ego_shape = ", with shape " + rng.choice(["ConeShape()", "CylinderShape()", "SpheroidShape()"])
    ego_view = ", with viewAngle 140 deg, with visibleDistance 25" if feats & {"visible", "cansee"} else ""
    body.append(f"ego = new Object at (Range(-4, 4), Range(-4, 4)), facing Range(-30, 30) deg{ego_view}{ego_shape}{ego_beh}")
    px = 8
    for bexpr in behs:
        body.append(f"new Object at ({px}, Range(-12, -10)), with behavior {bexpr}")
        px += 4
    if "relative" in feats:
        body.append("o_rel1 = new Object left of ego by Range(1, 2), facing Range(0, 360) deg")
        body.append("o_rel2 = new Object ahead of o_rel1 by Range(1, 3), with width Range(0.5, 1.5)")
        body.append("o_rel3 = new Object at ego offset by (Range(6, 7), Range(6, 7)), facing toward ego")
    if "mesh_region" in feats:
        r = name("reg")
        kind = rng.choice(["box", "sph", "diff"])
        if kind == "box":
            head.append(f"{r} = BoxRegion(dimensions=(6, 6, 6), position=(20, 20, 3))")
        elif kind == "sph":
            head.append(f"{r} = SpheroidRegion(dimensions=(8, 8, 8), position=(20, 20, 4))")
        else:
            head.append(
                f"{r} = BoxRegion(dimensions=(8, 8, 6), position=(20, 20, 3)).difference(BoxRegion(dimensions=(4, 4, 8), position=(20, 20, 3)))"
            )
        sh = rng.choice(["", ", with shape ConeShape()", ", with shape SpheroidShape()"])
        body.append(f"o_mesh = new Object in {r}, with width 0.5, with length 0.5, with height 0.5{sh}")
    if "visible" in feats:
        body.append("o_vis = new Object visible, with width 0.5, with length 0.5, with requireVisible False")
        if rng.random() < 0.5:
            body.append("o_nvis = new Object not visible, with width 0.5, with length 0.5, in RectangularRegion((0, -20), 0, 30, 10)")
    if "cansee" in feats:
        body.append("o_cs = new Object at (Range(-3, 3), Range(12, 16)), with width 0.7, with length 0.7")
        body.append("o_wall = new Object at (Range(-6, 6), 8), with width 3, with length 0.3, with height 3")
        body.append("require ego can see o_cs")
    if "params" in feats:
        head.append(f"param pa = {rv()}")
        head.append(f"param pb = ({rv()}, {rv()})")
    nreq = 0
    if "req_only" in feats:
        n = rng.randint(2, 5)
        ns = [name("r") for _ in range(n)]
        for x in ns:
            head.append(f"{x} = {rv()}")
        cond = f"{ns[0]} + {ns[1]} < 1000"
        if rng.random() < 0.6:
            # a real constraint so that iteration counts vary
            head.append("tight = Range(0, 1)")
            cond = f"tight < 0.6"
            ns = ns + ["tight"]
        body.append(f"require F.obs('rq{nreq}', {', '.join(ns)}) and {cond}")
        nreq += 1
    if "req_multi" in feats:
        a, b, c = name("m"), name("m"), name("m")
        for x in (a, b, c):
            head.append(f"{x} = {rv()}")
        body.append(f"require F.obs('rq{nreq}', {a}, {b}) and ego.position.x < 3")
        nreq += 1
        body.append(f"require F.obs('rq{nreq}', {c}, {b}) and ego.position.y > -3")
        nreq += 1
    if "req_soft" in feats:
        a, b = name("s"), name("s")
        head.append(f"{a} = {rv()}")
        head.append(f"{b} = {rv()}")
        body.append(f"require[0.5] F.obs('rq{nreq}', {a}, {b}) and ego.position.x > -2")
        nreq += 1
    if "req_random" in feats:
        # a requirement that itself draws from the global generators: Scenic restores them after checking
        body.append("require F.rnd() >= -1 and ego.position.x > -3.5")
        body.append("require ego.position.y < 3.5")
    if "req_raises" in feats:
        # one requirement consumes the global generators, another one rejects by RAISING for part of the samples:
        # whichever order the checker evaluates them in (it depends on measured wall-clock time), the user-visible
        # random stream must be the same afterwards
        body.append("require F.rnd() >= -1 and ego.position.y > -3.8")
        body.append("require F.rej_if(ego.position.x > 1.5)")
    if "record_only" in feats:
        a, b = name("c"), name("c")
        head.append(f"{a} = {rv()}")
        head.append(f"{b} = {rv()}")
        body.append(f"record ({a}, {b}) as rec_ab")
        body.append(f"record initial {b} as rec_b0")
        body.append(f"record final ({a}, ego.position) as rec_fin")
    if "monitor_only" in feats:
        a, b = name("u"), name("u")
        m = name("Mon")
        head.append(f"{a} = {rv()}")
        head.append(f"{b} = {rv()}")
        defs.append(f"monitor {m}(p, q):\n    while True:\n        F.obs('{m}', p, q)\n        wait\n")
        body.append(f"require monitor {m}({a}, {b})")
    if "mutate" in feats:
        body.append(rng.choice(["mutate", "mutate ego", "mutate ego by 2"]))
    if modular:
        sub = name("Scn")
        defs.append(
            f"scenario {sub}(d):\n    setup:\n        extra = new Object at (Range(-20, -18), Range(18, 20)), with tag d\n"
            f"        record extra.position as sub_pos\n    compose:\n        wait\n        wait\n"
        )
        src = "\n".join(head) + "\n" + "\n".join(defs) + "\n"
        src += "scenario Main():\n    setup:\n" + "\n".join("        " + l for l in body) + "\n"
        src += f"    compose:\n        do {sub}(Range(0, 1))\n        do {sub}(7)\n"
        steps = max(steps, 6)
    else:
        src = "\n".join(head) + "\n" + "\n".join(defs) + "\n" + "\n".join(body) + "\n"
    return {"source": src, "options": {"mode2D": "mode2d" in feats}, "features": sorted(feats), "steps": steps}


# ---------------------------------------------------------------------------------------------------


def plan(tier, seed):
    nshards = 16 if tier == "quick" else 64
    ninst = 6 if tier == "quick" else 10
    out = []
    for i in range(nshards):
        per = (2 if i % 2 == 0 else 1) if tier == "quick" else 2
        out.append({"shard": i, "programs": per, "instances": ninst, "timeout": 3000 if tier == "quick" else 9000})
    return out


HEAVY = {"visible", "cansee", "mesh_region", "mesh_shape"}


def _instance_params(rng, j, ninst, heavy=False):
    """Instances 0..n/2-1 run the code as is (0 = unperturbed baseline); the second half runs with the
    requirement-dependency segment of Scenario.dependencies put into a canonical order (diagnostic mode,
    first of them unperturbed), so that mechanisms other than that set order are not masked by it."""
    half = ninst // 2
    ks = (0, 2, 5) if heavy else (0, 5, 50)
    jj = j % half
    clean = jj == 0
    return {
        "hashseed": "0" if clean else str(rng.randrange(1, 2**31)),
        "junk": 0 if clean else rng.randrange(1, 4000),
        "clock_seed": None if clean else rng.randrange(1 << 30),
        "k": ks[jj % 3],
        "import_extra": [] if jj % 2 == 0 else ["decimal", "fractions", "xml.dom.minidom"],
        "env_pad": 0 if jj % 2 == 0 else rng.randrange(1, 3000),
        "normalize_deps": j >= half,
    }


def run_instance(prog, seed, inst, timeout=300):
    spec = {
        "source": prog["source"],
        "options": prog["options"],
        "seed": seed,
        "junk": inst["junk"],
        "clock_seed": inst["clock_seed"],
        "k": inst["k"],
        "batch": 3,
        "steps": prog["steps"],
        "import_extra": inst["import_extra"],
        "normalize_deps": inst.get("normalize_deps", False),
    }
    env = dict(os.environ)
    env["PYTHONHASHSEED"] = inst["hashseed"]
    env["PYTHONPATH"] = VERIF + os.pathsep + env.get("PYTHONPATH", "")
    for v in ("OMP_NUM_THREADS", "OPENBLAS_NUM_THREADS", "MKL_NUM_THREADS"):
        env[v] = "1"
    if inst.get("env_pad"):
        env["VERIF_PAD"] = "x" * inst["env_pad"]
    try:
        r = subprocess.run(
            [PY, "-W", "ignore", "-m", "rt.c15_worker"],
            input=json.dumps(spec),
            capture_output=True,
            text=True,
            env=env,
            cwd=VERIF,
            timeout=timeout,
        )
    except subprocess.TimeoutExpired:
        return None, "timeout"
    if r.returncode != 0:
        return None, "crash: " + (r.stderr or "")[-400:]
    try:
        return json.loads(r.stdout), None
    except Exception as e:  # noqa
        return None, f"bad output: {e}: {r.stdout[:200]}"


def _sampled_ok(dump):
    for ph in ("A", "B"):
        p = dump.get(ph)
        if not p or not any("scene" in s for s in p["scenes"]):
            return False
    return True


def _desc(inst):
    return (
        f"hashseed={inst['hashseed']}, junk={inst['junk']}, clock={inst['clock_seed']}, k={inst['k']}, "
        f"normalized={inst.get('normalize_deps', False)}"
    )


def judge_program(prog, seed, insts, outs):
    """outs: worker outputs aligned with insts.  Dumps must be identical within the group of instances
    running the code as is, and within the group running with canonical dependency order."""
    from rt import canon

    viols = []
    texts = [json.dumps(o["dump"], sort_keys=True) for o in outs]
    info = {
        "dep_orders": len({json.dumps(o["meta"].get("deps_raw")) for o in outs}),
        "all_sampled": all(_sampled_ok(o["dump"]) for o in outs),
        "any_sim": any(((o["dump"].get("B") or {}).get("sim") or {}).get("result") for o in outs),
        "normalized_nontrivial": any(o["meta"].get("normalized_segment", 0) >= 2 for o in outs),
    }
    consumed = outs[0]["meta"].get("compile_consumed_rng")
    info["compile_rng_checked"] = consumed is not None
    if consumed and any(consumed):
        which = " and ".join(n for n, c in zip(("random", "numpy.random"), consumed) if c)
        key = None
        if consumed == [False, True] and any(x in prog["source"] for x in ("ConeShape(", "CylinderShape(", "SpheroidShape(", "MeshShape(")):
            # MeshShape.__init__ scales its mesh with Trimesh.apply_transform, which draws from numpy.random
            # (flips_winding) -- the very thing regions.py avoids by using transform_points
            key = "shapes.MeshShape-apply_transform-consumes-numpy-rng"
        viols.append(
            {
                "key": key,
                "what": f"compiling the program consumed numbers from the user-visible global generator(s) {which}: the first draw after "
                f"seed+compile differs from the first draw of a freshly seeded generator; features={prog['features']}",
                "witness": {"program": prog, "seed": seed, "instances": [insts[0], insts[0]]},
            }
        )
    for normalized in (False, True):
        idx = [j for j, i in enumerate(insts) if bool(i.get("normalize_deps")) == normalized]
        if len(idx) < 2:
            continue
        r = idx[0]
        group = [texts[j] for j in idx]
        if len(set(group)) == 1:
            continue
        # is the dump a function of the dependency order within this group?
        by_order = {}
        for j in idx:
            by_order.setdefault(json.dumps(outs[j]["meta"].get("deps")), set()).add(texts[j])
        function_of_order = len(by_order) > 1 and all(len(v) == 1 for v in by_order.values())
        for j in idx[1:]:
            if texts[j] == texts[r]:
                continue
            d = canon.first_diff(outs[r]["dump"], outs[j]["dump"])
            eqA = json.dumps(outs[r]["dump"].get("A"), sort_keys=True) == json.dumps(outs[j]["dump"].get("A"), sort_keys=True)
            a, b = outs[r]["meta"].get("deps"), outs[j]["meta"].get("deps")
            key = None
            if not normalized and function_of_order and a != b and sorted(a) == sorted(b):
                key = "dependencies.requirement-deps-set-order"
            elif eqA and a == b and outs[r]["meta"].get("stale_binding_before_B") is not None:
                # history dependence: is it explained by the scenario staying bound to the last simulated scene?
                ub = [json.dumps((o.get("diag") or {}).get("B_unbound"), sort_keys=True) for o in (outs[r], outs[j])]
                if (
                    (outs[r]["meta"]["stale_binding_before_B"] or outs[j]["meta"]["stale_binding_before_B"])
                    and ub[0] == ub[1]
                    and ub[0] != "null"
                    and insts[r]["k"] != insts[j]["k"]
                ):
                    key = "simulation.scenario-stays-bound-to-simulated-scene"
            what = (
                f"instance {j} ({_desc(insts[j])}) differs from instance {r} ({_desc(insts[r])}) at {d}; "
                f"Scenario.dependencies order {b} vs {a}; no-history phase equal={eqA}; features={prog['features']}"
            )
            viols.append({"key": key, "what": what, "witness": {"program": prog, "seed": seed, "instances": [insts[r], insts[j]]}})
            break  # one violation per group and program
    return viols, info


def run_shard(spec):
    from rt import su

    tier = spec["tier"]
    rng = random.Random(spec["seed"] * 1000003 + spec["shard"] * 101 + 7)
    res = {"evaluations": 0, "nontrivial": [], "counters": {}, "samples": [], "violations": [], "skipped": {}}
    C = res["counters"]

    def bump(k, n=1):
        C[k] = C.get(k, 0) + n

    for pi in range(spec["programs"]):
        force = None
        if spec["shard"] % 4 == 0 and pi == 0:
            force = [RISKY[(spec["shard"] // 4) % len(RISKY)]]
        prog = gen_program(rng, force)
        seed = rng.randrange(1 << 20)
        heavy = bool(HEAVY & set(prog["features"]))
        insts = [_instance_params(rng, j, spec["instances"], heavy) for j in range(spec["instances"])]
        outs = []
        failed = None
        for j, inst in enumerate(insts):
            o, err = run_instance(prog, seed, inst)
            bump("instances_run")
            if o is None:
                failed = err
                res["skipped"]["instance-" + err.split(":")[0]] = res["skipped"].get("instance-" + err.split(":")[0], 0) + 1
                if err.startswith("crash"):
                    res["violations"].append(
                        {"key": None, "what": f"worker crashed: {err}", "witness": {"program": prog, "seed": seed, "instances": [insts[0], inst]}}
                    )
                break
            outs.append(o)
            if o["meta"].get("clock_calls"):
                bump("instances_clock_used")
            if inst["k"]:
                bump(f"instances_k{inst['k']}")
            if "compile_error" in o["dump"]:
                bump("compile_errors")
                if j == 0:
                    res["skipped"]["program-does-not-compile"] = res["skipped"].get("program-does-not-compile", 0) + 1
                    failed = "compile"
                    if len(res["samples"]) < 3:
                        res["samples"].append({"program": prog["source"], "compile_error": o["dump"]["compile_error"]})
                    break
        res["evaluations"] += 1
        if failed:
            continue
        bump("programs_run")
        for f in prog["features"]:
            bump("feature_" + f)
        viols, info = judge_program(prog, seed, insts, outs)
        if info["all_sampled"]:
            bump("programs_all_instances_sampled")
        if info["any_sim"]:
            bump("programs_with_simulation")
        if info["dep_orders"] > 1:
            bump("programs_with_differing_dependency_order")
        if info["normalized_nontrivial"]:
            bump("programs_with_normalized_group_nontrivial")
        if info.get("compile_rng_checked"):
            bump("programs_compile_rng_stream_checked")
        its = {json.dumps([s.get("iterations") for s in o["dump"]["B"]["scenes"]]) for o in outs if o["dump"].get("B")}
        if any(any((s.get("iterations") or 0) > 1 for s in o["dump"]["B"]["scenes"]) for o in outs if o["dump"].get("B")):
            bump("programs_with_rejections")
        if info["all_sampled"]:
            res["nontrivial"].append(su.h(prog["source"]))
        res["violations"].extend(viols)
        if viols:
            bump("programs_differing")
        if len(res["samples"]) < 2:
            res["samples"].append({"program": prog["source"], "options": prog["options"], "seed": seed, "instances": insts[:3]})
    return res


def replay(w):
    prog, seed, insts = w["program"], w["seed"], w["instances"]
    outs = []
    for inst in insts:
        o, err = run_instance(prog, seed, inst)
        if o is None:
            return [{"key": None, "what": f"worker failed: {err}", "witness": w}]
        outs.append(o)
    viols, _ = judge_program(prog, seed, insts, outs)
    return viols


MANIFEST_ENTRY = {
    "technique": "runtime monitoring: differential observation of N fresh executions of the real compiler/sampler/simulator under perturbed hidden inputs (hash seed, heap layout, fake clock, history)",
    "text": "Each generated program (biased to random values referenced only from requirements, records, monitors and behaviours; mesh shapes/regions; visibility; mutate) is compiled, sampled and simulated in 6 (thorough 24) fresh subprocesses with identical source/options/seeds but different PYTHONHASHSEED, heap-layout perturbation, jittered fake clock in sample_checking and k in {0,5,50} earlier scenes; canonical dumps (params, every object property, iteration counts, values seen by requirements/monitors, simulation results, next random.random()/numpy draw) must be bit-identical. Held only on the programs and instances driven.",
    "note": "Trusts rt/canon.py to be address-free and the generated programs to be free of user-level global state. A difference is attributed to the requirement-dependency set order only when the dump is a function of the observed Scenario.dependencies order across all instances of that program.",
}


# thorough-tier floors: the quick-tier floors scaled by a conservative fraction of the size ratio of the two tiers
# (counters of *distinct* things do not scale with the size and keep their quick-tier floor)
_NONSCALING = ('programs_with_normalized_group_nontrivial', 'programs_with_simulation')
MIN_COUNTERS["thorough"] = {k: (v if k in _NONSCALING else int(v * 3)) for k, v in MIN_COUNTERS["quick"].items()}
