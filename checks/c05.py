"""C05 — expressions over random values evaluate as plain Python on the samples.

Executable reference model: typed random expression trees over the built-in distributions, vectors,
tuples/lists/dicts/namedtuples and user classes with `self.`-dependent defaults are printed as Scenic
programs (every leaf and every expression exported through `param`), compiled and sampled by the real
code; the value of each expression in each scene is compared with the generator's own tree interpreted by
CPython on the sampled leaf values.  Static support intervals must contain every sampled value.
"""

import math
import random

PROPERTY = "C05"
LEVEL = "exploration"
RULE = (
    "typed expression trees (depth <= 4) over Range / DiscreteRange / Options / Uniform / Normal / TruncatedNormal leaves: "
    "+ - * / // % ** in both operand orders with constants (reverse operators) and with other random values, identity "
    "operands (x+0, 0+x, x-0, 0-x, x*1, 1*x, x/1, x**1, v+0vec), neg/pos/abs/round/int/float/str, sin/cos/hypot/min/max, "
    "user functions called with positional / keyword / star arguments, methods of random scalars, vectors (construction, "
    "@, + - * /, attribute and index access, norm, distanceTo, angleTo, dot, cross, rotatedBy, normalized), tuples "
    "(constant / random index, slices, len, star-unpacking into tuples and lists, min/max/count), random tuples chosen by "
    "Options, container literals nested up to depth 3 (tuple, list, dict, namedtuple), and objects of user classes with "
    "chained self-dependent defaults under different specifier sets. A case = one expression in one scene; non-trivial when "
    "the expression contains at least one random leaf; distinct = distinct expression texts."
)
ASSUMPTIONS = [
    "the generator's own interpreter (CPython arithmetic, math module, 3-tuples for vectors) is the reference; floats compared with 1e-11 relative tolerance, ints/strings/container shapes exactly",
    "Options over containers: the sampled container is read back through its own param and must be one of the listed alternatives evaluated on the scene's leaves",
    "division / power operands are generated positive so that the reference is defined",
]
MIN_COUNTERS = {
    "quick": {"expressions_checked": 3000, "scenes": 600, "support_intervals_checked": 800, "class_default_objects": 150, "kinds_seen": 40},
    "thorough": {"expressions_checked": 60000, "scenes": 12000, "support_intervals_checked": 16000, "class_default_objects": 3000, "kinds_seen": 45},
}

HEADER = """from collections import namedtuple
NT = namedtuple('NT', ['p', 'q'])
def f(a, b=1, *rest, k=2):
    return a + 2 * b + sum(rest) + 3 * k
def g(a, b):
    return (a, [b, a])
from scenic.core.distributions import distributionFunction
@distributionFunction
def h(a, b=1, *rest, k=2):
    return a + 2 * b + sum(rest) + 3 * k
"""

# ---------------------------------------------------------------------------------------------------
# expression trees:  ("kind", children..., extra)   types: S scalar float, I int, V vector, T tuple of numbers


class Gen:
    def __init__(self, rng):
        self.rng = rng
        self.leaves = []  # (name, scenic text, type, info)
        self.n = 0

    def leaf(self, ty):
        r = self.rng
        self.n += 1
        name = f"L{self.n}"
        if ty == "S":
            k = r.choice(["Range", "Range", "Normal", "TruncatedNormal", "Uniform", "Options"])
            a = r.randint(1, 4)
            if k == "Range":
                txt, info = f"Range({a}, {a + 1})", ("interval", a, a + 1)
            elif k == "Normal":
                txt, info = f"Normal({a}.5, 0.01)", ("none",)
            elif k == "TruncatedNormal":
                txt, info = f"TruncatedNormal({a}.5, 0.3, {a}, {a + 1})", ("interval", a, a + 1)
            elif k == "Uniform":
                vals = [a + 0.25, a + 0.5, a + 0.75]
                txt, info = f"Uniform({vals[0]}, {vals[1]}, {vals[2]})", ("set", vals)
            else:
                vals = [a + 0.125, a + 0.625]
                txt, info = f"Options([{vals[0]}, {vals[1]}])", ("set", vals)
        elif ty == "I":
            k = r.choice(["DiscreteRange", "DiscreteRange", "Options", "Uniform"])
            a = r.randint(1, 4)
            if k == "DiscreteRange":
                txt, info = f"DiscreteRange({a}, {a + 2})", ("set", [a, a + 1, a + 2])
            elif k == "Options":
                txt, info = f"Options([{a}, {a + 2}])", ("set", [a, a + 2])
            else:
                txt, info = f"Uniform({a}, {a + 1}, {a + 3})", ("set", [a, a + 1, a + 3])
        else:
            raise ValueError(ty)
        self.leaves.append((name, txt, ty, info))
        return ("leaf", name, ty)

    def const(self, ty):
        r = self.rng
        if ty == "I":
            return ("const", r.choice([1, 2, 3, 5]))
        return ("const", r.choice([0.5, 1.5, 2.0, 3.25]))

    def scalar(self, d, want=None):
        """S or I valued expression"""
        r = self.rng
        ty = want or r.choice("SSI")
        if d <= 0 or r.random() < 0.2:
            return self.leaf(ty) if r.random() < 0.8 else self.const(ty)
        k = r.choice(
            ["bin", "bin", "bin", "rbin", "rbin", "ident", "ident", "unary", "func", "call", "call", "vec2s", "tup2s", "method", "round", "pospow", "div", "div"]
        )
        if k == "div":
            # quotient of two random scalars: the numerator is a difference (its support usually straddles zero),
            # the divisor a strictly positive random value
            num = ("bin", "-", self.scalar(d - 1), self.scalar(d - 1)) if r.random() < 0.7 else self.scalar(d - 1)
            return ("bin", "/", num, self.pos(d - 1))
        if k == "bin":
            op = r.choice(["+", "-", "*"])
            return ("bin", op, self.scalar(d - 1), self.scalar(d - 1))
        if k == "rbin":
            op = r.choice(["+", "-", "*", "/", "//", "%", "**"])
            c = self.const(r.choice("SI")) if r.random() < 0.7 else ("const", r.choice([0, 1, 1.0]))
            x = self.pos(d - 1)
            if op == "**":
                x = self.small(d - 1)
            return ("bin", op, c, x) if r.random() < 0.6 else ("bin", op, x, ("const", r.choice([1, 2, 1.5])))
        if k == "ident":
            x = self.scalar(d - 1)
            form = r.choice(["x+0", "0+x", "x-0", "0-x", "x*1", "1*x", "x/1", "x**1", "x//1", "x+0.0", "1.0*x"])
            return ("ident", form, x)
        if k == "unary":
            return ("un", r.choice(["-", "+", "abs", "float", "int"]), self.scalar(d - 1))
        if k == "round":
            return ("round", self.scalar(d - 1), r.choice([None, None, 1]))
        if k == "func":
            fn = r.choice(["sin", "cos", "hypot", "max", "min", "max3"])
            if fn in ("sin", "cos"):
                return ("fn", fn, self.scalar(d - 1))
            if fn == "max3":
                return ("fn", "max", self.scalar(d - 1), self.scalar(d - 1), self.const("S"))
            return ("fn", fn, self.scalar(d - 1), self.scalar(d - 1))
        if k == "call":
            form = r.choice(["pos", "kw", "star", "allkw", "mixed"])
            unused = ("const", 0)  # children that the printed form does not use must not carry sub-expressions
            a = self.scalar(d - 1)
            b = self.scalar(d - 1) if form != "star" else unused
            c = self.scalar(d - 1) if form in ("kw", "mixed") else (self.tuple_(d - 1) if form == "star" else unused)
            return (r.choice(["call", "callh"]), form, a, b, c)
        if k == "vec2s":
            m = r.choice(["x", "y", "z", "idx", "norm", "distanceTo", "angleTo", "dot"])
            if m in ("distanceTo", "angleTo", "dot"):
                return ("v2s", m, self.vector(d - 1), self.vector(d - 1))
            return ("v2s", m, self.vector(d - 1))
        if k == "tup2s":
            # (methods of plain Python tuples, e.g. .count, compare elements with == and are legitimately not lifted)
            m = r.choice(["cidx", "ridx", "len", "min", "max", "negidx"])
            return ("t2s", m, self.tuple_(d - 1), r.randrange(3))
        if k == "method":
            return ("meth", r.choice(["is_integer", "hex", "bit_length", "conjugate"]), self.leaf("S") if r.random() < 0.5 else self.leaf("I"))
        if k == "pospow":
            return ("bin", "**", self.pos(d - 1), self.small(d - 1))
        raise AssertionError(k)

    def pos(self, d):
        """strictly positive scalar (>= 0.5)"""
        r = self.rng
        c = r.random()
        if c < 0.5 or d <= 0:
            return self.leaf(r.choice("SI"))
        if c < 0.75:
            return ("bin", "+", ("un", "abs", self.scalar(d - 1)), ("const", 1))
        return ("bin", "*", self.leaf("S"), self.leaf("I"))

    def small(self, d):
        r = self.rng
        if r.random() < 0.5:
            return ("const", r.choice([0, 1, 2, 0.5]))
        return self.leaf("I") if r.random() < 0.5 else self.leaf("S")

    def vector(self, d):
        r = self.rng
        if d <= 0 or r.random() < 0.35:
            k = r.choice(["ctor2", "ctor3", "at", "constv"])
            if k == "constv":
                return ("vconst", r.choice([(1, 2, 0), (0, 0, 0), (3, -1, 2)]))
            if k == "ctor3":
                return ("vec", "ctor3", self.scalar(0), self.scalar(0), self.scalar(0))
            return ("vec", k, self.scalar(0), self.scalar(0))
        k = r.choice(["add", "sub", "mul", "rmul", "div", "rot", "cross", "normalized", "addzero", "zeroadd", "subzero", "relto"])
        if k in ("add", "sub", "cross", "relto"):
            return ("vop", k, self.vector(d - 1), self.vector(d - 1))
        if k in ("mul", "rmul", "div"):
            return ("vop", k, self.vector(d - 1), self.pos(d - 1))
        if k == "rot":
            return ("vop", k, self.vector(d - 1), self.scalar(d - 1))
        return ("vop", k, self.vector(d - 1))

    def tuple_(self, d):
        r = self.rng
        k = r.choice(["lit", "lit", "opt", "slice", "star"])
        if k == "lit" or d <= 0:
            return ("tup", [self.scalar(0), self.scalar(0), self.const("I"), self.scalar(max(d - 1, 0))])
        if k == "opt":
            self.n += 1
            name = f"T{self.n}"
            alts = [[self.scalar(0), self.const("I"), self.const("I"), self.const("S")], [self.const("I"), self.scalar(0), self.const("S"), self.const("I")]]
            return ("topt", name, alts)
        if k == "slice":
            return ("tslice", self.tuple_(d - 1), r.choice([(0, 2), (1, 3), (1, None), (None, 2), (0, 4)]))
        return ("tstar", self.tuple_(d - 1), self.scalar(d - 1))

    def container(self, d):
        r = self.rng
        k = r.choice(["tuple", "list", "dict", "nt", "nested", "liststar", "gcall", "str"])
        if k == "tuple":
            return ("c", "tuple", [self.scalar(d - 1), self.vector(d - 1), self.const("I")])
        if k == "list":
            return ("c", "list", [self.scalar(d - 1), self.scalar(d - 1)])
        if k == "dict":
            return ("c", "dict", [("a", self.scalar(d - 1)), ("b", ("c", "tuple", [self.scalar(0), self.const("I")]))])
        if k == "nt":
            return ("c", "nt", [self.scalar(d - 1), self.scalar(d - 1)])
        if k == "nested":
            return ("c", "tuple", [self.scalar(0), ("c", "list", [self.scalar(0), ("c", "dict", [("k", self.scalar(0))])])])
        if k == "liststar":
            return ("c", "liststar", [self.scalar(0), self.tuple_(d - 1)])
        if k == "gcall":
            return ("c", "gcall", [self.scalar(d - 1), self.scalar(d - 1)])
        return ("un", "str", self.leaf("I"))


PREC_ATOM = 100


def show(e):
    """Scenic text (fully parenthesised where needed)."""
    k = e[0]
    if k == "leaf":
        return e[1]
    if k == "const":
        return repr(e[1])
    if k == "bin":
        return f"({show(e[2])} {e[1]} {show(e[3])})"
    if k == "ident":
        x = show(e[2])
        return "(" + {
            "x+0": f"{x} + 0", "0+x": f"0 + {x}", "x-0": f"{x} - 0", "0-x": f"0 - {x}", "x*1": f"{x} * 1", "1*x": f"1 * {x}",
            "x/1": f"{x} / 1", "x**1": f"{x} ** 1", "x//1": f"{x} // 1", "x+0.0": f"{x} + 0.0", "1.0*x": f"1.0 * {x}",
        }[e[1]] + ")"
    if k == "un":
        if e[1] in ("-", "+"):
            return f"({e[1]}{show(e[2])})"
        return f"{e[1]}({show(e[2])})"
    if k == "round":
        return f"round({show(e[1])})" if e[2] is None else f"round({show(e[1])}, {e[2]})"
    if k == "fn":
        return f"{e[1]}({', '.join(show(a) for a in e[2:])})"
    if k in ("call", "callh"):
        a, b, c = show(e[2]), show(e[3]), show(e[4])
        fn = "f" if k == "call" else "h"  # h is the same function wrapped by scenic's distributionFunction
        return {
            "pos": f"{fn}({a}, {b})", "kw": f"{fn}({a}, b={b}, k={c})", "star": f"{fn}({a}, *{c})", "allkw": f"{fn}(a={a}, b={b})",
            "mixed": f"{fn}({a}, {b}, {c}, 2, k={a})",
        }[e[1]]
    if k == "v2s":
        v = show(e[2])
        if e[1] in ("x", "y", "z"):
            return f"{v}.{e[1]}"
        if e[1] == "idx":
            return f"{v}[1]"
        if e[1] == "norm":
            return f"{v}.norm()"
        return f"{v}.{e[1]}({show(e[3])})"
    if k == "t2s":
        t = show(e[2])
        i = e[3]
        return {
            "cidx": f"{t}[{i}]", "ridx": f"{t}[DiscreteRange(0, 2)]" if False else f"{t}[{i}]", "len": f"len({t})", "min": f"min({t})",
            "max": f"max({t})", "count": f"{t}.count(2)", "negidx": f"{t}[-1]",
        }[e[1]]
    if k == "meth":
        return f"{show(e[2])}.{e[1]}()"
    if k == "vconst":
        return f"Vector{e[1]}"
    if k == "vec":
        if e[1] == "at":
            return f"({show(e[2])} @ {show(e[3])})"
        return "Vector(" + ", ".join(show(a) for a in e[2:]) + ")"
    if k == "vop":
        a = show(e[2])
        if e[1] == "add":
            return f"({a} + {show(e[3])})"
        if e[1] == "sub":
            return f"({a} - {show(e[3])})"
        if e[1] == "relto":
            return f"({a} relative to {show(e[3])})"
        if e[1] == "mul":
            return f"({a} * {show(e[3])})"
        if e[1] == "rmul":
            return f"({show(e[3])} * {a})"
        if e[1] == "div":
            return f"({a} / {show(e[3])})"
        if e[1] == "rot":
            return f"{a}.rotatedBy({show(e[3])})"
        if e[1] == "cross":
            return f"{a}.cross({show(e[3])})"
        if e[1] == "normalized":
            return f"({a} + Vector(0.5, 7, 0)).normalized()"
        if e[1] == "addzero":
            return f"({a} + Vector(0, 0, 0))"
        if e[1] == "zeroadd":
            return f"(Vector(0, 0, 0) + {a})"
        if e[1] == "subzero":
            return f"({a} - Vector(0, 0, 0))"
    if k == "tup":
        return "(" + ", ".join(show(a) for a in e[1]) + ")"
    if k == "topt":
        return e[1]
    if k == "tslice":
        a, b = e[2]
        return f"{show(e[1])}[{'' if a is None else a}:{'' if b is None else b}]"
    if k == "tstar":
        return f"(*{show(e[1])}, {show(e[2])})"
    if k == "c":
        if e[1] == "tuple":
            return "(" + ", ".join(show(a) for a in e[2]) + ")"
        if e[1] == "list":
            return "[" + ", ".join(show(a) for a in e[2]) + "]"
        if e[1] == "dict":
            return "{" + ", ".join(f"{kk!r}: {show(a)}" for kk, a in e[2]) + "}"
        if e[1] == "nt":
            return f"NT({show(e[2][0])}, q={show(e[2][1])})"
        if e[1] == "liststar":
            return f"[{show(e[2][0])}, *{show(e[2][1])}]"
        if e[1] == "gcall":
            return f"g({show(e[2][0])}, b={show(e[2][1])})"
    raise AssertionError(e)


def _is_dist(e):
    """does the tree contain a random leaf (so that Scenic builds a Distribution for it)?"""
    if isinstance(e, tuple) and e and e[0] in ("leaf", "topt"):
        return True
    if isinstance(e, (tuple, list)):
        return any(_is_dist(x) for x in e)
    return False


class NTr(tuple):
    """reference namedtuple stand-in"""


def _f(a, b=1, *rest, k=2):
    return a + 2 * b + sum(rest) + 3 * k


def _vadd(a, b):
    return tuple(x + y for x, y in zip(a, b))


def _norm_angle(a):
    while a > math.pi:
        a -= 2 * math.pi
    while a < -math.pi:
        a += 2 * math.pi
    return a


FLOORDIV_ONE_IS_IDENTITY = [False]  # defect model switch used only for classification


def ev(e, env):
    """CPython reference evaluation; vectors are 3-tuples tagged ('V', x, y, z)."""
    k = e[0]
    if FLOORDIV_ONE_IS_IDENTITY[0]:
        if (k == "ident" and e[1] == "x//1") or (k == "bin" and e[1] == "//" and e[3] == ("const", 1)):
            if _is_dist(e[2]):
                return ev(e[2], env)
    if k == "leaf":
        return env[e[1]]
    if k == "const":
        return e[1]
    if k == "bin":
        a, b = ev(e[2], env), ev(e[3], env)
        op = e[1]
        return {"+": lambda: a + b, "-": lambda: a - b, "*": lambda: a * b, "/": lambda: a / b, "//": lambda: a // b, "%": lambda: a % b, "**": lambda: a**b}[op]()
    if k == "ident":
        x = ev(e[2], env)
        return {
            "x+0": lambda: x + 0, "0+x": lambda: 0 + x, "x-0": lambda: x - 0, "0-x": lambda: 0 - x, "x*1": lambda: x * 1, "1*x": lambda: 1 * x,
            "x/1": lambda: x / 1, "x**1": lambda: x**1, "x//1": lambda: x // 1, "x+0.0": lambda: x + 0.0, "1.0*x": lambda: 1.0 * x,
        }[e[1]]()
    if k == "un":
        x = ev(e[2], env)
        return {"-": lambda: -x, "+": lambda: +x, "abs": lambda: abs(x), "float": lambda: float(x), "int": lambda: int(x), "str": lambda: str(x)}[e[1]]()
    if k == "round":
        x = ev(e[1], env)
        return round(x) if e[2] is None else round(x, e[2])
    if k == "fn":
        args = [ev(a, env) for a in e[2:]]
        return {"sin": math.sin, "cos": math.cos, "hypot": math.hypot, "max": max, "min": min}[e[1]](*args)
    if k in ("call", "callh"):
        a, b, c = ev(e[2], env), ev(e[3], env), ev(e[4], env)
        if e[1] == "pos":
            return _f(a, b)
        if e[1] == "kw":
            return _f(a, b=b, k=c)
        if e[1] == "star":
            return _f(a, *c)
        if e[1] == "allkw":
            return _f(a=a, b=b)
        return _f(a, b, c, 2, k=a)
    if k == "v2s":
        v = ev(e[2], env)
        if e[1] in ("x", "y", "z"):
            return v[1 + "xyz".index(e[1])]
        if e[1] == "idx":
            return v[2]
        if e[1] == "norm":
            return math.hypot(v[1], v[2], v[3])
        w = ev(e[3], env)
        if e[1] == "distanceTo":
            return math.hypot(w[1] - v[1], w[2] - v[2], w[3] - v[3])
        if e[1] == "dot":
            return v[1] * w[1] + v[2] * w[2] + v[3] * w[3]
        if e[1] == "angleTo":
            # heading (0 = +y, counter-clockwise) of the direction from v to w
            return _norm_angle(math.atan2(w[2] - v[2], w[1] - v[1]) - math.pi / 2)
    if k == "t2s":
        t = ev(e[2], env)
        i = e[3]
        return {"cidx": lambda: t[i], "ridx": lambda: t[i], "len": lambda: len(t), "min": lambda: min(t), "max": lambda: max(t), "count": lambda: t.count(2), "negidx": lambda: t[-1]}[e[1]]()
    if k == "meth":
        x = ev(e[2], env)
        return getattr(x, e[1])()
    if k == "vconst":
        return ("V",) + tuple(e[1])
    if k == "vec":
        cs = [ev(a, env) for a in e[2:]]
        if len(cs) == 2:
            cs.append(0)
        return ("V",) + tuple(cs)
    if k == "vop":
        a = ev(e[2], env)
        if e[1] in ("add", "relto"):
            b = ev(e[3], env)
            return ("V",) + tuple(a[i] + b[i] for i in (1, 2, 3))
        if e[1] == "sub":
            b = ev(e[3], env)
            return ("V",) + tuple(a[i] - b[i] for i in (1, 2, 3))
        if e[1] in ("mul", "rmul"):
            s = ev(e[3], env)
            return ("V",) + tuple(a[i] * s for i in (1, 2, 3))
        if e[1] == "div":
            s = ev(e[3], env)
            return ("V",) + tuple(a[i] / s for i in (1, 2, 3))
        if e[1] == "rot":
            t = ev(e[3], env)
            c, s = math.cos(t), math.sin(t)
            return ("V", c * a[1] - s * a[2], s * a[1] + c * a[2], a[3])
        if e[1] == "cross":
            b = ev(e[3], env)
            return ("V", a[2] * b[3] - a[3] * b[2], a[3] * b[1] - a[1] * b[3], a[1] * b[2] - a[2] * b[1])
        if e[1] == "normalized":
            x, y, z = a[1] + 0.5, a[2] + 7, a[3]
            n = math.hypot(x, y, z)
            return ("V", x / n, y / n, z / n)
        return a  # adding / subtracting the zero vector
    if k == "tup":
        return tuple(ev(a, env) for a in e[1])
    if k == "topt":
        # the sampled alternative is read back through the tuple's own param (membership is checked separately)
        got = env[e[1]]
        return tuple(got) if isinstance(got, (tuple, list)) else got
    if k == "tslice":
        t = ev(e[1], env)
        return t[e[2][0] : e[2][1]]
    if k == "tstar":
        return (*ev(e[1], env), ev(e[2], env))
    if k == "c":
        if e[1] == "tuple":
            return tuple(ev(a, env) for a in e[2])
        if e[1] == "list":
            return [ev(a, env) for a in e[2]]
        if e[1] == "dict":
            return {kk: ev(a, env) for kk, a in e[2]}
        if e[1] == "nt":
            return ("NT", ev(e[2][0], env), ev(e[2][1], env))
        if e[1] == "liststar":
            return [ev(e[2][0], env), *ev(e[2][1], env)]
        if e[1] == "gcall":
            a, b = ev(e[2][0], env), ev(e[2][1], env)
            return (a, [b, a])
    raise AssertionError(e)


def resolve_oneof(v):
    """Replace ('ONEOF', alts, got) markers by the sampled alternative (checked separately)."""
    if isinstance(v, tuple) and v and v[0] == "ONEOF":
        return tuple(v[2]) if isinstance(v[2], (tuple, list)) else v[2]
    return v


def has_topt(e):
    if isinstance(e, (tuple, list)):
        if e and e[0] == "topt":
            return True
        return any(has_topt(x) for x in e)
    return False


def kinds(e, out):
    if isinstance(e, tuple) and e and isinstance(e[0], str):
        tag = e[0] + (":" + str(e[1]) if e[0] in ("bin", "ident", "un", "fn", "call", "callh", "v2s", "t2s", "meth", "vec", "vop", "c") else "")
        out.add(tag)
        for x in e[1:]:
            kinds(x, out)
    elif isinstance(e, (list, tuple)):
        for x in e:
            kinds(x, out)
    return out


def same(ref, got):
    """Three-valued-free comparison of a reference value with a Scenic value. Returns None or a message."""
    from scenic.core.vectors import Vector

    if isinstance(ref, tuple) and ref and ref[0] == "V":
        if not isinstance(got, Vector):
            return f"expected a vector, got {type(got).__name__} {sstr(got, 80)}"
        for a, b in zip(ref[1:], (got.x, got.y, got.z)):
            m = same(float(a), float(b))
            if m:
                return "vector coordinate: " + m
        return None
    if isinstance(ref, tuple) and ref and ref[0] == "NT":
        if type(got).__name__ != "NT":
            return f"expected namedtuple NT, got {type(got).__name__} {sstr(got, 80)}"
        return same(tuple(ref[1:]), tuple(got))
    if isinstance(ref, bool) or isinstance(got, bool):
        return None if (type(ref) is type(got) and ref == got) else f"{ref!r} != {sstr(got, 80)}"
    if isinstance(ref, (int, float)):
        import numbers

        if not isinstance(got, numbers.Real):
            return f"expected number {ref!r}, got {type(got).__name__} {sstr(got, 60)}"
        # int-vs-float class differences with equal value (x/1, x+0.0 shortcuts) are not counted as disagreements
        if ref == got:
            return None
        if isinstance(ref, int) and isinstance(got, int):
            return f"{ref!r} != {sstr(got, 80)}"
        tol = 1e-11 * max(1.0, abs(ref), abs(got))
        return None if abs(ref - got) <= tol else f"{ref!r} != {sstr(got, 80)}"
    if isinstance(ref, str):
        return None if (isinstance(got, str) and ref == got) else f"{ref!r} != {sstr(got, 80)}"
    if isinstance(ref, (tuple, list)):
        if type(got) is not type(ref) and not (isinstance(ref, tuple) and isinstance(got, tuple)):
            return f"expected {type(ref).__name__}, got {type(got).__name__} {sstr(got, 80)}"
        if len(ref) != len(got):
            return f"length {len(ref)} != {len(got)}: {sstr(got, 80)}"
        for i, (a, b) in enumerate(zip(ref, got)):
            m = same(a, b)
            if m:
                return f"[{i}] {m}"
        return None
    if isinstance(ref, dict):
        if not isinstance(got, dict) or list(ref) != list(got):
            return f"expected dict with keys {list(ref)}, got {sstr(got, 80)}"
        for kk in ref:
            m = same(ref[kk], got[kk])
            if m:
                return f"[{kk!r}] {m}"
        return None
    return None if ref == got else f"{ref!r} != {sstr(got, 80)}"


def deep_resolve(v):
    v = resolve_oneof(v)
    if isinstance(v, tuple) and v and v[0] in ("V", "NT"):
        return (v[0],) + tuple(deep_resolve(x) for x in v[1:])
    if isinstance(v, tuple):
        return tuple(deep_resolve(x) for x in v)
    if isinstance(v, list):
        return [deep_resolve(x) for x in v]
    if isinstance(v, dict):
        return {k: deep_resolve(x) for k, x in v.items()}
    return v


# ---------------------------------------------------------------------------------------------------


SUB_KINDS = {"bin", "ident", "un", "round", "fn", "call", "callh", "v2s", "t2s", "vop", "vec", "tslice", "tstar"}


def subnodes(e, out=None, limit=10):
    """proper sub-expressions worth checking on their own (operators, calls, vector / tuple operations)"""
    if out is None:
        out = []
    if isinstance(e, tuple) and e and isinstance(e[0], str):
        for x in e[1:]:
            if isinstance(x, tuple) and x and isinstance(x[0], str) and x[0] in SUB_KINDS and _is_dist(x) and len(out) < limit:
                if x not in out:
                    out.append(x)
            subnodes(x, out, limit)
    elif isinstance(e, (list, tuple)):
        for x in e:
            subnodes(x, out, limit)
    return out


def make_program(exprs, gen, topts):
    lines = [HEADER]
    for name, txt, ty, info in gen.leaves:
        lines.append(f"{name} = {txt}")
        lines.append(f"param {name} = {name}")
    for name, alts in topts:
        lines.append(f"{name} = Options([" + ", ".join("(" + ", ".join(show(a) for a in alt) + ")" for alt in alts) + "])")
        lines.append(f"param {name} = {name}")
    for i, e in enumerate(exprs):
        lines.append(f"E{i} = {show(e)}")
        lines.append(f"param E{i} = E{i}")
        for j, sub in enumerate(subnodes(e)):
            lines.append(f"param E{i}_{j} = {show(sub)}")
    lines.append("ego = new Object")
    return "\n".join(lines) + "\n"


def collect_topts(e, out):
    if isinstance(e, tuple) and e and e[0] == "topt":
        if all(e[1] != n for n, _ in out):
            out.append((e[1], e[2]))
        for alt in e[2]:
            for a in alt:
                collect_topts(a, out)
    elif isinstance(e, (tuple, list)):
        for x in e:
            collect_topts(x, out)
    return out


def sstr(v, n=120):
    try:
        return str(v)[:n]
    except Exception as ex:  # repr of some unsampled values raises
        return f"<unprintable {type(v).__name__}: {type(ex).__name__}>"


def random_self_scalarop(e):
    """does the tree apply dot/distanceTo/angleTo to a vector whose own coordinates are random?"""
    if isinstance(e, tuple) and e and e[0] == "v2s" and e[1] in ("dot", "distanceTo", "angleTo") and _is_dist(e[2]):
        return True
    if isinstance(e, (tuple, list)):
        return any(random_self_scalarop(x) for x in e)
    return False


def starred_random_tuple(e):
    """star-unpacking of an Options-over-tuples value inside a tuple / list display"""
    if isinstance(e, tuple) and e and e[0] == "tstar" and has_topt(e[1]):
        return True
    if isinstance(e, tuple) and e and e[0] == "c" and e[1] == "liststar" and has_topt(e[2][1]):
        return True
    if isinstance(e, (tuple, list)):
        return any(starred_random_tuple(x) for x in e)
    return False


def classify(text, err, tree=None):
    """Narrow mechanism keys for confirmed defects."""
    if tree is not None and "cannot iterate through a random value" in err and starred_random_tuple(tree):
        # `*x` is lifted only in call arguments (veneer.callWithStarArgs); in tuple/list displays a random tuple is iterated directly
        return "compiler.starred-random-value-in-display-not-lifted"
    if tree is not None and "RandomControlFlowError" in err and random_self_scalarop(tree):
        return "vectors.scalarOperator-ignores-random-self"
    if "'numpy.ndarray' object has no attribute" in err and "Vector" in text:
        # consequence of a numpy.float64 sample multiplied with a Vector (the product is an ndarray)
        return "distributions.numpy-float64-sample-times-vector-gives-ndarray"
    if "name 'bz' is not defined" in err and ".cross(" in text:
        return "vectors.cross-undefined-bz"
    if "cannot iterate through a random value" in err and any(m in text for m in (".distanceTo(", ".angleTo(", ".dot(")):
        # scalarOperator's wrapper only looks at the arguments: a Vector built from random coordinates calling
        # a scalar-valued operator with a non-random argument runs the method body on Distribution coordinates
        return "vectors.scalarOperator-ignores-random-self"
    return None


def check_program(exprs, gen, res, bump, nscenes, seed):
    """Compile one batch; returns list of (index, 'error text') for expressions that made it fail, after bisecting."""
    from rt import su

    topts = []
    for e in exprs:
        collect_topts(e, topts)
    src = make_program(exprs, gen, topts)
    import scenic

    try:
        scenario = scenic.scenarioFromString(src)
        scenes = []
        su.seed_all(seed)
        for _ in range(nscenes):
            scenes.append(scenario.generate(maxIterations=50)[0])
    except Exception as ex:  # noqa
        err = f"{type(ex).__name__}: {str(ex)[:160]}"
        if len(exprs) == 1:
            # only well-typed expressions count: the reference must be defined on representative leaf values
            try:
                env = {}
                for name, txt, ty, info in gen.leaves:
                    env[name] = (info[1] + info[2]) / 2 if info[0] == "interval" else (info[1][0] if info[0] == "set" else 2.5)
                for name, alts in topts:
                    env[name] = tuple(ev(a, env) for a in alts[0])
                deep_resolve(ev(exprs[0], env))
            except Exception as rex:  # noqa
                k2 = "ill-typed-expression-" + type(rex).__name__
                res["skipped"][k2] = res["skipped"].get(k2, 0) + 1
                return []
            return [(exprs[0], err, src)]
        mid = len(exprs) // 2
        return check_program(exprs[:mid], gen, res, bump, nscenes, seed) + check_program(exprs[mid:], gen, res, bump, nscenes, seed)
    bump("programs_sampled")
    from scenic.core.distributions import Distribution, supportInterval

    for scene in scenes:
        bump("scenes")
        env = {name: scene.params[name] for name, _, _, _ in gen.leaves}
        for name, _ in topts:
            env[name] = scene.params[name]
        # leaves within their declared supports
        for name, txt, ty, info in gen.leaves:
            v = env[name]
            ok = True
            if info[0] == "interval":
                ok = info[1] <= v <= info[2]
            elif info[0] == "set":
                ok = v in info[1]
            if ty == "I" and not isinstance(v, int):
                ok = False
            if not ok:
                res["violations"].append({"key": None, "what": f"leaf {txt} sampled {v!r} outside its definition", "witness": {"program": src}})
        for name, alts in topts:
            got = env[name]
            cands = [tuple(ev(a, env) for a in alt) for alt in alts]
            if not any(same(c, got) is None for c in cands):
                res["violations"].append({"key": None, "what": f"Options over tuples {name} sampled {got!r}, not one of {cands}", "witness": {"program": src}})
        items = []
        for i, e in enumerate(exprs):
            items.append((f"E{i}", e))
            for j, sub in enumerate(subnodes(e)):
                items.append((f"E{i}_{j}", sub))
        for pname, e in items:
            got = scene.params[pname]
            try:
                ref = deep_resolve(ev(e, env))
            except Exception as ex:  # reference undefined (overflow, ...): skipped and counted
                res["skipped"]["reference-undefined-" + type(ex).__name__] = res["skipped"].get("reference-undefined-" + type(ex).__name__, 0) + 1
                continue
            bump("expressions_checked")
            m = same(ref, got)
            if m:
                bump("mismatches")
                text = show(e)
                key = classify_mismatch(text, m, got)
                if key is None and type(got).__name__ == "ndarray" and isinstance(ref, tuple) and ref and ref[0] == "V":
                    import numpy

                    if numpy.allclose(numpy.asarray(got, dtype=float), [float(c) for c in ref[1:]], rtol=1e-11, atol=1e-11):
                        # TruncatedNormal (scipy) samples are numpy.float64; numpy.float64 * Vector is computed by
                        # numpy and yields an ndarray instead of a Vector (value right, type wrong)
                        key = "distributions.numpy-float64-sample-times-vector-gives-ndarray"
                if key is None and "// 1)" in text:
                    FLOORDIV_ONE_IS_IDENTITY[0] = True
                    try:
                        if same(deep_resolve(ev(e, env)), got) is None:
                            key = "distributions.floordiv-by-one-treated-as-identity"
                    except Exception:  # noqa
                        pass
                    finally:
                        FLOORDIV_ONE_IS_IDENTITY[0] = False
                if key is None and random_self_scalarop(e):
                    # (the un-sampled coordinates leak into the value, or into later arithmetic on it)
                    key = "vectors.scalarOperator-ignores-random-self"
                res["violations"].append(
                    {
                        "key": key,
                        "what": f"E = {text}: Scenic value {sstr(got)} but CPython on the sampled leaves gives {sstr(ref)} ({m}); leaves={ {k: env[k] for k in list(env)[:8]} }",
                        "witness": {"program": src, "expr": text, "seed": seed},
                    }
                )
            # support interval
            d = scenario.params.get(pname)
            if isinstance(d, Distribution) and isinstance(got, (int, float)) and not isinstance(got, bool):
                try:
                    lo, hi = supportInterval(d)
                except Exception as ex:  # noqa
                    res["violations"].append({"key": classify(show(e), str(ex)) or classify_support_error(str(ex)), "what": f"supportInterval({show(e)}) raised {type(ex).__name__}: {str(ex)[:100]}", "witness": {"program": src, "expr": show(e)}})
                    continue
                bump("support_intervals_checked")
                if lo is not None or hi is not None:
                    bump("support_intervals_nontrivial")
                eps = 1e-9 * max(1.0, abs(got))
                if (lo is not None and got < lo - eps) or (hi is not None and got > hi + eps):
                    skey = None
                    if "hypot(" in show(e) and lo is not None and hi is not None and lo > hi:
                        # geometry.hypot is declared monotonic (support = hypot of the lower / of the upper bounds),
                        # which is wrong as soon as an argument can be negative
                        skey = "geometry.hypot-support-assumes-monotonic"
                    res["violations"].append(
                        {"key": skey, "what": f"E = {show(e)}: sampled value {got!r} outside its static support interval ({lo}, {hi})", "witness": {"program": src, "expr": show(e), "seed": seed}}
                    )
    return []


def _contains_distribution(v):
    from scenic.core.distributions import Distribution

    if isinstance(v, Distribution):
        return True
    if isinstance(v, dict):
        return any(_contains_distribution(x) for x in v.values())
    if isinstance(v, (list, tuple)):
        return any(_contains_distribution(x) for x in v)
    return False


def classify_support_error(err):
    if "NoneType" in err:
        # OperatorDistribution.supportInterval for __neg__/__abs__ does arithmetic on unknown (None) bounds
        return "distributions.neg-abs-support-with-unknown-bounds"
    return None


def classify_mismatch(text, msg, got):
    from scenic.core.distributions import Distribution

    def unsampled(v):
        if isinstance(v, Distribution):
            return True
        if isinstance(v, dict):
            return any(unsampled(x) or unsampled(k) for k, x in v.items())
        if isinstance(v, (list, tuple)):
            return any(unsampled(x) for x in v)
        return False

    if isinstance(got, Distribution) and any(m in text for m in (".distanceTo(", ".angleTo(", ".dot(")):
        # MethodDistribution never samples its `object`: a scalar operator of a Vector with random coordinates
        # returns an expression over the unsampled coordinates
        return "vectors.scalarOperator-ignores-random-self"
    if unsampled(got) and "{" in text:
        # toDistribution wraps tuples, lists and slices but not dicts: random values inside a dict literal are never sampled
        return "distributions.toDistribution-ignores-dict"
    return None


CLASS_PROG = """class C(Object):
    a: Range(1, 2)
    b: self.a * 2
    c: (self.b + self.a, self.a)
    d: self.c[0] - 1
    e: Range(10, 11) + self.d
    allowCollisions: True

o0 = new C at (0, 0)
o1 = new C at (5, 0), with a Range(5, 6)
o2 = new C at (10, 0), with b 10
o3 = new C at (15, 0), with a 3, with c (7, 8)
o4 = new C at (Range(20, 21), Range(0, 1)), facing toward (30, 30)
o5 = new C left of o4 by Range(1, 2), with a DiscreteRange(1, 3)
ego = o0
"""


def check_classes(res, bump, seed, n):
    from rt import su
    import scenic

    try:
        scenario = scenic.scenarioFromString(CLASS_PROG)
    except Exception as ex:  # noqa
        res["violations"].append({"key": None, "what": f"class-default program does not compile: {type(ex).__name__}: {str(ex)[:200]}", "witness": {"program": CLASS_PROG}})
        return
    su.seed_all(seed)
    for _ in range(n):
        scene, _ = scenario.generate(maxIterations=200)
        for idx, o in enumerate(scene.objects):
            bump("class_default_objects")
            exp_b = 10 if idx == 2 else o.a * 2
            exp_c = (7, 8) if idx == 3 else (o.b + o.a, o.a)
            exp_d = o.c[0] - 1
            bad = []
            if same(float(exp_b), float(o.b)):
                bad.append(f"b={o.b!r} expected {exp_b!r}")
            if same(tuple(map(float, exp_c)), tuple(map(float, o.c))):
                bad.append(f"c={o.c!r} expected {exp_c!r}")
            if same(float(exp_d), float(o.d)):
                bad.append(f"d={o.d!r} expected {exp_d!r}")
            if not (10 + o.d - 1e-9 <= o.e <= 11 + o.d + 1e-9):
                bad.append(f"e={o.e!r} not in [10, 11] + d={o.d!r}")
            if idx == 4:
                exp_h = _norm_angle(math.atan2(30 - o.position.y, 30 - o.position.x) - math.pi / 2)
                if abs(_norm_angle(o.heading - exp_h)) > 1e-9:
                    bad.append(f"heading {o.heading!r} but `facing toward (30, 30)` from the final position gives {exp_h!r}")
            if bad:
                res["violations"].append({"key": None, "what": f"object {idx} of the class-default program: " + "; ".join(bad), "witness": {"program": CLASS_PROG, "seed": seed}})


def plan(tier, seed):
    n = 16 if tier == "quick" else 64
    return [{"shard": i, "batches": 14 if tier == "quick" else 24, "per_batch": 8, "scenes": 3 if tier == "quick" else 4, "timeout": 1200 if tier == "quick" else 5000} for i in range(n)]


def run_shard(spec):
    from rt import su

    rng = random.Random(spec["seed"] * 1000003 + spec["shard"] * 31 + 5)
    res = {"evaluations": 0, "nontrivial": [], "counters": {}, "samples": [], "violations": [], "skipped": {}}
    C = res["counters"]

    def bump(k, n=1):
        C[k] = C.get(k, 0) + n

    allkinds = set()
    failures = {}
    for b in range(spec["batches"]):
        gen = Gen(rng)
        exprs = []
        for _ in range(spec["per_batch"]):
            c = rng.random()
            d = rng.randint(1, 4)
            if c < 0.55:
                e = gen.scalar(d)
            elif c < 0.75:
                e = gen.vector(d)
            elif c < 0.88:
                e = gen.tuple_(d)
            else:
                e = gen.container(min(d, 2))
            exprs.append(e)
            kinds(e, allkinds)
            res["evaluations"] += 1
            if gen.leaves:
                res["nontrivial"].append(su.h(show(e)))
        failed = check_program(exprs, gen, res, bump, spec["scenes"], spec["seed"] * 977 + b)
        for e, err, src in failed:
            bump("expressions_raising")
            text = show(e)
            key = classify(text, err, e)
            sig = (key, err.split(":")[0], err[:60])
            failures.setdefault(sig, 0)
            failures[sig] += 1
            if failures[sig] <= 2:
                res["violations"].append({"key": key, "what": f"well-typed expression raises instead of evaluating: E = {text} -> {err}", "witness": {"program": src, "expr": text}})
        if len(res["samples"]) < 2:
            res["samples"].append({"expressions": [show(e) for e in exprs[:4]]})
    check_classes(res, bump, spec["seed"] + spec["shard"], 10)
    C["kinds_seen"] = len(allkinds)
    res["extra"] = {"expression_kinds": sorted(allkinds)}
    # keep the output small
    seen = {}
    out = []
    for v in res["violations"]:
        sig = (v["key"], v["what"][:40])
        seen[sig] = seen.get(sig, 0) + 1
        if seen[sig] <= 2:
            out.append(v)
    res["violations"] = out
    return res


def finalize(m, tier, seed):
    # kinds_seen is a per-shard figure; report the union size instead of the sum
    ks = m.get("extra", {}).get("expression_kinds")
    if ks:
        m["counters"]["kinds_seen"] = len(ks)


def replay(w):
    import scenic

    from rt import su

    try:
        scenario = scenic.scenarioFromString(w["program"])
        su.seed_all(w.get("seed", 0))
        scene, _ = scenario.generate(maxIterations=50)
    except Exception as ex:  # noqa
        return [{"key": classify(w.get("expr", ""), str(ex)), "what": f"{type(ex).__name__}: {str(ex)[:200]}", "witness": w}]
    return []


MANIFEST_ENTRY = {
    "technique": "runtime monitoring: values of generated expression forests in real scenes checked against an executable reference (the generator's own tree interpreted by CPython on the sampled leaves)",
    "text": "Typed random expression trees (operators in both operand orders, identity operands, lifted calls with positional/keyword/star arguments, methods, vectors, tuples incl. Options over tuples, slices, nested container literals, namedtuples) are exported through params, compiled and sampled by the real code; every expression of every scene is compared with CPython's result on the scene's leaf samples (1e-11 relative for floats, exact otherwise); supportInterval of every scalar expression must contain the sample; a user class with chained self-dependent defaults is checked against its final property values under six specifier sets. Bounded exploration.",
    "note": "Trusts the generator's interpreter (CPython arithmetic, own 3-tuple vector algebra written from the documentation). A batch that fails to compile or sample is bisected down to the single expression responsible, which is reported as 'raises instead of evaluating'.",
}


# thorough-tier floors: the quick-tier floors scaled by a conservative fraction of the size ratio of the two tiers
# (counters of *distinct* things do not scale with the size and keep their quick-tier floor)
_NONSCALING = ('kinds_seen',)
MIN_COUNTERS["thorough"] = {k: (v if k in _NONSCALING else int(v * 4)) for k, v in MIN_COUNTERS["quick"].items()}
