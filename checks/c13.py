"""C13 — interrupts pre-empt and resume as documented; guards are checked when promised.

History + executable reference model: generated behaviours of the try-interrupt fragment are run through the
real compiler and the real Simulator.simulate for many step-indexed truth tables; the action sequence, the
statement-level event log and the accept / reject / GuardViolation outcome are compared with the coroutine
interpreter in rt/dynmodel.py, which is written from the language reference.
"""

import itertools
import random

PROPERTY = "C13"
LEVEL = "exploration"
RULE = (
    "seeded behaviours of the interrupt fragment (try-interrupt nested up to depth 3 with up to 3 handlers; "
    "handler bodies that take actions, invoke sub-behaviours, abort, break, continue or return, inside loops "
    "and sub-behaviours; do / do-for / do-until / wait-for / wait-until; preconditions and invariants on the "
    "main and sub-behaviours, also ones raising a rejection inside the guard), each run under seeded + "
    "structured step-indexed truth tables with raiseGuardViolations on and off. Non-trivial = at least one "
    "interrupt handler was entered or a guard decided the run; distinct = distinct (program, table)."
)
ASSUMPTIONS = [
    "reference interpreter rt/dynmodel.py written from docs/reference/statements.rst (try-interrupt, behaviours) and dynamic_scenarios.rst",
    "interrupt conditions / guards are pure reads of the scripted truth table at the current step",
]
MIN_COUNTERS = {
    "quick": {"runs": 8000, "programs": 150, "scenario_form_runs": 500, "handler_entered": 2000, "guard_outcomes": 300, "abort_used": 100, "break_or_continue_used": 50, "nested_try_programs": 30},
    "thorough": {"runs": 100000, "programs": 1800, "handler_entered": 30000, "guard_outcomes": 6000, "abort_used": 2000, "break_or_continue_used": 1000, "nested_try_programs": 600},
}
MANIFEST_ENTRY = {
    "technique": "runtime monitoring: action/event history of real simulations checked against an executable reference interpreter of the documented interrupt and guard semantics",
    "text": "Generated programs of the interrupt fragment are compiled and simulated by the real code under many step-indexed truth tables; per-step actions, statement event log and outcome (accepted / rejected / GuardViolation kind) must equal those of an independent coroutine interpreter written from the reference. Bounded exploration (program size, <= 12 steps, sampled tables).",
    "note": "Trusts rt/dynmodel.py. Conditions are pure. Sub-behaviour stop on abandonment is observed through the action log only.",
}

NATOMS = 4
MAXSTEPS = 11


def gen_program(rng):
    ids = itertools.count(1)
    nid = lambda: next(ids)
    stats = {"try": 0, "maxdepth": 0}

    def cond():
        r = rng.random()
        if r < 0.8:
            return ["tab", rng.randrange(NATOMS)]
        if r < 0.9:
            return ["not", ["tab", rng.randrange(NATOMS)]]
        return ["t>=", rng.randint(1, 6)]

    subnames = [f"S{i}" for i in range(rng.randint(1, 3))]

    def body(depth, in_loop, allow_sub, trydepth, n=None):
        out = []
        for _ in range(n or rng.randint(1, 3)):
            r = rng.random()
            if r < 0.38:
                out.append(["take", nid()])
            elif r < 0.44:
                out.append(["wait", nid()])
            elif r < 0.56 and allow_sub:
                s = rng.choice(subnames)
                rr = rng.random()
                if rr < 0.5:
                    out.append(["do", nid(), s])
                elif rr < 0.75:
                    out.append(["dofor", nid(), s, rng.randint(1, 3), "steps"])
                else:
                    out.append(["dountil", nid(), s, cond()])
            elif r < 0.62:
                if rng.random() < 0.5:
                    out.append(["waitfor", nid(), rng.randint(1, 2), "steps"])
                else:
                    out.append(["waituntil", nid(), cond()])
            elif r < 0.72 and depth > 0:
                out.append(["loop", rng.randint(2, 3), body(depth - 1, True, allow_sub, trydepth)])
            elif r < 0.95 and depth > 0 and trydepth < 3:
                out.append(make_try(depth - 1, in_loop, allow_sub, trydepth + 1))
            else:
                out.append(["take", nid()])
        return out

    def make_try(depth, in_loop, allow_sub, trydepth):
        stats["try"] += 1
        stats["maxdepth"] = max(stats["maxdepth"], trydepth)
        b = body(depth, in_loop, allow_sub, trydepth)
        hs = []
        for _ in range(rng.randint(1, 3)):
            h = body(max(depth - 1, 0), in_loop, allow_sub, trydepth, n=rng.randint(1, 2))
            r = rng.random()
            term = None
            if r < 0.3:
                term = ["abort"]
            elif r < 0.45 and in_loop:
                term = ["break"]
            elif r < 0.55 and in_loop:
                term = ["continue"]
            elif r < 0.62:
                term = ["return"]
            if term:
                h.append(term)
            elif not any(s[0] in ("take", "wait") for s in h):
                h.insert(0, ["take", nid()])  # a handler that neither suspends nor concludes would spin
            hs.append([cond(), h])
        return ["try", b, hs]

    def guards():
        d = {}
        if rng.random() < 0.3:
            d["pre"] = [rng.choice([["tab", rng.randrange(NATOMS)], ["rejtab", rng.randrange(NATOMS)], ["true"]])]
        if rng.random() < 0.35:
            d["inv"] = [rng.choice([["tab", rng.randrange(NATOMS)], ["rejtab", rng.randrange(NATOMS)], ["not", ["tab", rng.randrange(NATOMS)]]])]
        return d

    behaviors = {}
    for s in subnames:
        d = guards()
        # sub-behaviours: a few actions, sometimes their own try-interrupt (no further sub-behaviours)
        d["body"] = body(1, False, False, 1 if rng.random() < 0.7 else 0, n=rng.randint(1, 3))
        if not any(st[0] in ("take", "wait") for st in d["body"]):
            d["body"].append(["take", nid()])
        behaviors[s] = d
    d = guards()
    d["body"] = body(2, False, True, 0, n=rng.randint(2, 4))
    if not any(st[0] == "try" for st in d["body"]):
        d["body"].insert(rng.randrange(len(d["body"]) + 1), make_try(2, False, True, 1))
    d["body"].append(["take", nid()])
    behaviors["Main"] = d
    return {"behaviors": behaviors, "stats": stats}


def gen_scenario_program(rng):
    """compose-block form: Main and sub-scenarios with try-interrupt in compose blocks and scenario guards"""
    ids = itertools.count(1)
    nid = lambda: next(ids)

    def cond():
        r = rng.random()
        if r < 0.8:
            return ["tab", rng.randrange(NATOMS)]
        if r < 0.9:
            return ["not", ["tab", rng.randrange(NATOMS)]]
        return ["t>=", rng.randint(1, 6)]

    subs = [f"S{i}" for i in range(rng.randint(1, 3))]

    def body(depth, in_loop, allow_sub, trydepth, n=None):
        out = []
        for _ in range(n or rng.randint(1, 3)):
            r = rng.random()
            if r < 0.4:
                out.append(["wait", nid()])
            elif r < 0.46:
                out.append(["log", nid()])
            elif r < 0.6 and allow_sub:
                names = [rng.choice(subs)]
                rr = rng.random()
                if rr < 0.5:
                    out.append(["dosc", nid(), names])
                elif rr < 0.75:
                    out.append(["doscfor", nid(), names, rng.randint(1, 3), "steps"])
                else:
                    out.append(["doscuntil", nid(), names, cond()])
            elif r < 0.66:
                if rng.random() < 0.5:
                    out.append(["waitfor", nid(), rng.randint(1, 2), "steps"])
                else:
                    out.append(["waituntil", nid(), cond()])
            elif r < 0.74 and depth > 0:
                out.append(["loop", rng.randint(2, 3), body(depth - 1, True, allow_sub, trydepth)])
            elif r < 0.95 and depth > 0 and trydepth < 2:
                out.append(make_try(depth - 1, in_loop, allow_sub, trydepth + 1))
            else:
                out.append(["wait", nid()])
        return out

    def make_try(depth, in_loop, allow_sub, trydepth):
        b = body(depth, in_loop, allow_sub, trydepth)
        hs = []
        for _ in range(rng.randint(1, 2)):
            h = body(0, in_loop, allow_sub, trydepth, n=rng.randint(1, 2))
            r = rng.random()
            term = None
            if r < 0.35:
                term = ["abort"]
            elif r < 0.5 and in_loop:
                term = ["break"]
            elif r < 0.6 and in_loop:
                term = ["continue"]
            if term:
                h.append(term)
            elif not any(x[0] == "wait" for x in h):
                h.insert(0, ["wait", nid()])
            hs.append([cond(), h])
        return ["try", b, hs]

    def guards():
        d = {}
        if rng.random() < 0.3:
            d["pre"] = [rng.choice([["tab", rng.randrange(NATOMS)], ["rejtab", rng.randrange(NATOMS)]])]
        if rng.random() < 0.4:
            d["inv"] = [rng.choice([["tab", rng.randrange(NATOMS)], ["rejtab", rng.randrange(NATOMS)], ["not", ["tab", rng.randrange(NATOMS)]]])]
        return d

    scenarios = {}
    for sname in subs:
        d = guards()
        if rng.random() < 0.2:
            d["setup"] = [["terminate_after", rng.randint(1, 3), "steps"]]
            d["compose"] = None
        else:
            d["setup"] = []
            c = body(1, False, False, 1 if rng.random() < 0.6 else 0, n=rng.randint(1, 3))

            def yields(stmts):
                for st in stmts:
                    if st[0] in ("wait", "waitfor", "waituntil", "dosc", "doscfor", "doscuntil"):
                        return True
                    if st[0] == "loop" and yields(st[2]):
                        return True
                    if st[0] == "try" and (yields(st[1]) or any(yields(h) for _, h in st[2])):
                        return True
                return False

            if not yields(c):  # a compose block that never suspends is not a generator: Scenic refuses it
                c.append(["wait", nid()])
            d["compose"] = c
        scenarios[sname] = d
    d = {}
    if rng.random() < 0.4:
        d["inv"] = [rng.choice([["tab", rng.randrange(NATOMS)], ["not", ["tab", rng.randrange(NATOMS)]]])]
    c = body(2, False, True, 0, n=rng.randint(2, 3))
    if not any(st[0] == "try" for st in c):
        c.insert(rng.randrange(len(c) + 1), make_try(1, False, True, 1))
    c.append(["wait", nid()])
    d["setup"] = [["agent", "a0", "B0"]]
    d["compose"] = c
    scenarios["Main"] = d
    return {"timestep": 1, "maxSteps": MAXSTEPS, "form": "modular", "behaviors": {"B0": {"body": [["forever", [["wait", 0]]]]}}, "monitors": {}, "scenarios": scenarios}


def check_scenario_program(prog, tabs, res, bump):
    """scenario form: event log + outcome against dynmodel.SimModel (machinery shared with C12)"""
    from checks import c12
    from rt import dynmodel
    import scenic

    src = c12.source(prog)
    _hygiene()
    try:
        scenario = scenic.scenarioFromString(src, scenario="Main")
    except Exception as e:
        return [(None, f"a scenario-form program of the interrupt fragment does not compile: {type(e).__name__}: {str(e)[:150]}", None)], src, 0
    bump("scenario_form_programs")
    viol = []
    nontriv = 0
    for ti, table in enumerate(tabs):
        prog["table"] = table
        from rt import su

        su.script.TABLE = {i: row for i, row in enumerate(table)}
        try:
            scene, _ = scenario.generate(maxIterations=1)
        except Exception as e:
            bump("scenario_form_generate_rejected")
            continue
        m = dynmodel.SimModel(prog, table, None).run()
        r = c12.real_run(scene, prog, c12.SCHEDULES["identity"])
        if r["outcome"] != "ok":
            _hygiene()
        res["evaluations"] += 1
        bump("runs")
        bump("scenario_form_runs")
        bump("outcome_" + m["outcome"])
        if m["outcome"] != "ok":
            bump("guard_outcomes")
            nontriv += 1
        d = c12.compare(m, r)
        if d:
            viol.append((None, "[scenario form] " + d, ti))
    return viol, src, nontriv


def valid(prog):
    """every interrupt handler suspends or concludes (otherwise it would spin within one time step) and every
    behaviour takes at least one action"""

    def ok_block(stmts):
        for st in stmts:
            if st[0] == "loop" and not ok_block(st[2]):
                return False
            if st[0] == "forever":
                return False
            if st[0] == "try":
                if not st[1] or not ok_block(st[1]):
                    return False
                for _, h in st[2]:
                    if not h or not ok_block(h):
                        return False
                    if not (any(x[0] in ("take", "wait") for x in h) or h[-1][0] in ("abort", "break", "continue", "return")):
                        return False
        return True

    def has_action(stmts):
        return any(st[0] in ("take", "wait", "waitfor", "waituntil", "do", "dofor", "dountil", "try", "loop", "terminate", "terminatesim") for st in stmts)

    return all(d["body"] and ok_block(d["body"]) and has_action(d["body"]) for d in prog["behaviors"].values())


def source(prog):
    from rt import dynmodel

    lines = ["import verif_script as V"]
    names = [n for n in prog["behaviors"] if n != "Main"] + ["Main"]
    for n in names:
        lines += dynmodel.invocable_src("behavior", n, prog["behaviors"][n])
    lines.append("ego = new Object with behavior Main()")
    return "\n".join(lines) + "\n"


def model_run(prog, table, raise_guards):
    from rt import dynmodel as dm

    w = dm.World(table)
    actions = []
    handler = {"n": 0}
    try:
        beh = dm.BehaviorModel(w, prog["behaviors"], "Main")
        gen = beh.start()
        finished = False
        while True:
            if w.t >= MAXSTEPS:
                term = "timeLimit"
                break
            a = ()
            if not finished:
                try:
                    a = next(gen)[0]
                except StopIteration:
                    finished = True
                    a = ()
            if isinstance(a, (dm.EndSimulation, dm.EndScenario)):
                term = "terminatedByBehavior"
                break
            actions.append(tuple(a))
            w.t += 1
    except dm.Reject:
        return {"outcome": "reject", "log": w.log}
    except dm.Guard as g:
        return {"outcome": ("guard:" + g.kind) if raise_guards else "reject", "log": w.log}
    return {"outcome": "ok", "term": term, "actions": actions, "log": w.log}


KINDS = ("take", "wait", "log", "require", "terminate", "terminatesim", "waitfor", "waituntil", "do", "dofor", "dountil")


def real_run(scene, table, raise_guards, simulator):
    from rt import su
    from scenic.core.dynamics.guards import InvariantViolation, PreconditionViolation

    su.script.TABLE = {i: row for i, row in enumerate(table)}
    su.script.EXTRA["mode"] = "bool"
    su.script.LOG.clear()
    try:
        sim = simulator.simulate(scene, maxSteps=MAXSTEPS, maxIterations=1, raiseGuardViolations=raise_guards, verbosity=0)
    except PreconditionViolation:
        _hygiene()
        return {"outcome": "guard:precondition", "log": _log()}
    except InvariantViolation:
        _hygiene()
        return {"outcome": "guard:invariant", "log": _log()}
    except Exception as e:
        _hygiene()
        return {"outcome": f"error:{type(e).__name__}: {str(e)[:150]}", "log": _log()}
    if sim is None:
        _hygiene()
        return {"outcome": "reject", "log": _log()}
    acts = [tuple(next(iter(a.values()), ())) if a else () for a in sim.result.actions]
    return {"outcome": "ok", "term": sim.result.terminationType.name, "actions": acts, "log": _log()}


def _hygiene():
    """A rejected run can leave veneer.currentBehavior stale (a C14 matter, monitored there): finalise
    suspended generators and reset it so that this check only judges interrupt/guard semantics."""
    import gc

    import scenic.syntax.veneer as veneer

    gc.collect()
    if veneer.currentBehavior is not None and veneer.currentSimulation is None:
        veneer.currentBehavior = None


def _log():
    from rt import su

    return [tuple(e) for e in su.script.LOG if e[0] in KINDS]


def tables(rng, n):
    L = MAXSTEPS + 3
    out = [
        [[False] * L for _ in range(NATOMS)],
        [[True] * L for _ in range(NATOMS)],
    ]
    for i in range(NATOMS):  # single pulses
        t = [[False] * L for _ in range(NATOMS)]
        k = rng.randrange(1, 6)
        t[i][k] = True
        out.append(t)
        t2 = [[True] * L for _ in range(NATOMS)]
        t2[i][k] = False
        out.append(t2)
    while len(out) < n:
        p = rng.choice([0.15, 0.3, 0.5, 0.8])
        out.append([[rng.random() < p for _ in range(L)] for _ in range(NATOMS)])
    return out


def classify(prog, m, r):
    """mechanism key for a disagreement, or None"""
    if r["outcome"].startswith("error:"):
        return None
    return None


def compare(m, r):
    if m["outcome"] != r["outcome"]:
        return f"outcome: model={m['outcome']} real={r['outcome']}"
    if m["outcome"] == "ok":
        if m["actions"] != r["actions"]:
            k = next((i for i, (a, b) in enumerate(zip(m["actions"], r["actions"])) if a != b), min(len(m["actions"]), len(r["actions"])))
            return f"actions differ from step {k}: model={m['actions'][k:k+4]} real={r['actions'][k:k+4]} (lengths {len(m['actions'])}/{len(r['actions'])})"
        if m["term"] != r["term"]:
            return f"termination: model={m['term']} real={r['term']}"
    if [tuple(e) for e in m["log"]] != r["log"]:
        ml = [tuple(e) for e in m["log"]]
        k = next((i for i, (a, b) in enumerate(zip(ml, r["log"])) if a != b), min(len(ml), len(r["log"])))
        return f"event log differs at entry {k}: model={ml[k:k+3]} real={r['log'][k:k+3]}"
    return None


def plan(tier, seed):
    n_prog = 192 if tier == "quick" else 2048
    n_sh = 16 if tier == "quick" else 64
    return [{"shard": i, "programs": n_prog // n_sh, "scenario_programs": 3 if tier == "quick" else 12, "tables": 48 if tier == "quick" else 64, "timeout": 1500 if tier == "quick" else 3400} for i in range(n_sh)]


def _uses(prog, kinds):
    def walk(stmts):
        for st in stmts:
            if st[0] in kinds:
                return True
            if st[0] == "loop" and walk(st[2]):
                return True
            if st[0] == "forever" and walk(st[1]):
                return True
            if st[0] == "try" and (walk(st[1]) or any(walk(h) for _, h in st[2])):
                return True
        return False

    return any(walk(d["body"]) for d in prog["behaviors"].values())


def check_program(prog, tabs, res, bump, rng):
    from rt import su
    import scenic
    from scenic.core.simulators import DummySimulator

    src = source(prog)
    viol = []
    _hygiene()
    try:
        scenario = scenic.scenarioFromString(src)
        scene, _ = scenario.generate(maxIterations=1)
    except Exception as e:
        key = None
        if type(e).__name__ == "PythonCompileError" and ("outside loop" in str(e) or "not properly in loop" in str(e)):
            key = "compiler.nested-try-break-continue-outside-loop"
        return [(key, f"a program of the interrupt fragment does not compile: {type(e).__name__}: {str(e)[:150]}", None)], src, 0
    bump("programs")
    if prog["stats"]["maxdepth"] >= 2:
        bump("nested_try_programs")
    simulator = DummySimulator()
    nontriv = 0
    for ti, table in enumerate(tabs):
        rg = (ti % 2) == 0
        m = model_run(prog, table, rg)
        r = real_run(scene, table, rg, simulator)
        res["evaluations"] += 1
        bump("runs")
        bump("outcome_" + m["outcome"].split(":")[0])
        if m["outcome"] != "ok":
            bump("guard_outcomes" if ("guard" in m["outcome"] or any(k in ("pre", "inv") for d in prog["behaviors"].values() for k in d)) else "other_rejections")
        # was a handler entered?  (measured on the model side: some event of a handler body occurred)
        d = compare(m, r)
        if d:
            viol.append((classify(prog, m, r), d, ti))
        hit = _handler_hit(prog, m["log"])
        if hit:
            bump("handler_entered")
            nontriv += 1
        elif m["outcome"] != "ok":
            nontriv += 1
        if hit and _uses(prog, ("abort",)):
            bump("abort_used")
        if hit and _uses(prog, ("break", "continue")):
            bump("break_or_continue_used")
    return viol, src, nontriv


def _handler_ids(prog):
    ids = set()

    def walk(stmts, inh):
        for st in stmts:
            if st[0] in KINDS and inh:
                ids.add(st[1])
            if st[0] == "loop":
                walk(st[2], inh)
            elif st[0] == "forever":
                walk(st[1], inh)
            elif st[0] == "try":
                walk(st[1], inh)
                for _, h in st[2]:
                    walk(h, True)

    for d in prog["behaviors"].values():
        walk(d["body"], False)
    return ids


def _handler_hit(prog, log):
    hid = prog.get("_hid")
    if hid is None:
        hid = prog["_hid"] = _handler_ids(prog)
    return any(e[1] in hid for e in log)


def run_shard(spec):
    from rt import su

    res = {"evaluations": 0, "nontrivial": [], "counters": {}, "samples": [], "violations": [], "skipped": {}}
    C = res["counters"]

    def bump(k, n=1):
        C[k] = C.get(k, 0) + n

    seen_keys = set()
    nscen = spec.get("scenario_programs", 0)
    for i in range(spec["programs"] + nscen):
        is_scen = i >= spec["programs"]
        pseed = (spec["seed"] * 1000003 + spec["shard"]) * 100003 + i + (500000 if is_scen else 0)
        rng = random.Random(pseed)
        if is_scen:
            prog = gen_scenario_program(rng)
            tabs = tables(rng, spec["tables"] // 2)
            viol, src, nontriv = check_scenario_program(prog, tabs, res, bump)
        else:
            prog = gen_program(rng)
            tabs = tables(rng, spec["tables"])
            viol, src, nontriv = check_program(prog, tabs, res, bump, rng)
        for k in range(nontriv):
            res["nontrivial"].append(su.h([pseed, k]))
        if len(res["samples"]) < 1 and nontriv:
            res["samples"].append({"program": src, "tables_run": len(tabs)})
        per_prog = 0
        for key, what, ti in viol:
            sig = key or what[:60]
            if sig in seen_keys and per_prog >= 1:
                continue
            seen_keys.add(sig)
            per_prog += 1
            if per_prog > 3:
                break
            res["violations"].append({"key": key, "what": what + " || " + src.replace("\n", " ; ")[:1200], "witness": {"pseed": pseed, "table_index": ti, "ntables": spec["tables"], "form": "scenario" if is_scen else "behavior"}})
    return res


def replay(w):
    rng = random.Random(w["pseed"])
    res = {"evaluations": 0, "skipped": {}}
    if w.get("form") == "scenario":
        prog = gen_scenario_program(rng)
        tabs = tables(rng, w["ntables"] // 2)
        viol, src, _ = check_scenario_program(prog, tabs, res, lambda *a: None)
    else:
        prog = gen_program(rng)
        tabs = tables(rng, w["ntables"])
        viol, src, _ = check_program(prog, tabs, res, lambda *a: None, rng)
    return [{"key": k, "what": what, "witness": w} for k, what, ti in viol if w.get("table_index") in (None, ti)]
