"""C09 — plain Python inside Scenic compiles to exactly what CPython would parse.

Differential observation of two parsers on a large real corpus: every sampled *.py file of the
standard library / site-packages that CPython's own `ast.parse` accepts is fed, unchanged, to the real
`scenic.syntax.parser.parse_string` + `scenic.syntax.compiler.compileScenicAST`; the resulting Python
tree must equal CPython's tree after the documented rewrites (rt/pynorm.py, written independently as a
NodeTransformer over CPython's tree), and every source node must keep its line number.  Statements and
expressions of the same files are also embedded in behaviors, monitors, scenario setup/compose blocks,
`require` statements and specifier arguments, and the embedded part is compared the same way.
"""

import ast
import os
import random
import sys

PROPERTY = "C09"
LEVEL = "exploration"
RULE = (
    "corpus = every *.py under the interpreter's stdlib, /usr/lib/python3* and /venv site-packages that "
    "CPython's ast.parse accepts; quick = seeded sample stratified by origin and size + a fixed list of "
    "syntax-dense files, thorough = seeded 30 MB sample (10 MB per origin, files <= 300 KB) + the same fixed list.  Per file: "
    "whole-module comparison (per top-level statement when the file uses class-level annotations), plus "
    "seeded statements/expressions of the file embedded in 6 Scenic contexts; plus, on every run, the "
    "479-snippet syntax-coverage corpus rt/pycorpus.py (one module per grammar construct), as modules and "
    "embedded.  A file is non-trivial when "
    "both parsers accepted it and >= 20 source nodes were compared; distinct = distinct files."
)
ASSUMPTIONS = [
    "CPython's ast.parse of the same text is the reference tree",
    "rt/pynorm.py implements exactly the rewrites listed in the property statement (tracked names -> calls, "
    "str/int/float calls lifted, star arguments wrapped except in behaviors, base-less class -> Object, "
    "every class gains `_scenic_properties = {}`)",
    "out of the fragment (skipped, counted): identifiers spelling a Scenic hard keyword, rebinding "
    "ego/workspace/globalParameters/str/int/float, class-level `name: annotation` (Scenic's documented "
    "property-definition syntax)",
    "a diff or rejection whose innermost statement spells a Scenic soft keyword as an identifier is a "
    "documented ambiguity (reference/general.rst): counted, not reported",
    "for embedded fragments behavior-local storage (_Scenic_current_behavior.x) is accepted for any name",
    "RecursionError at the default recursion limit is resource exhaustion (counted separately)",
    "only lineno is decided; end_lineno / col_offset mismatches are counted for information",
]
MIN_COUNTERS = {
    "quick": {
        "files_equal": 60,
        "nodes_lineno_compared": 80000,
        "embedded_block_items_equal": 300,
        "embedded_expr_items_equal": 300,
        "rewrites_lifted": 50,
        "rewrites_star": 20,
        "rewrites_class_table": 50,
        "rewrites_tracked": 10,
        "synthetic_snippets": 480,
        "synthetic_snippets_equal": 380,
    },
    "thorough": {
        "files_equal": 1000,
        "nodes_lineno_compared": 1500000,
        "embedded_block_items_equal": 4000,
        "embedded_expr_items_equal": 4000,
        "rewrites_lifted": 1000,
        "rewrites_star": 300,
        "rewrites_class_table": 1000,
        "rewrites_tracked": 10,
        "synthetic_snippets": 480,
        "synthetic_snippets_equal": 380,
    },
}

DENSE = [
    "test/test_grammar.py",
    "test/test_fstring.py",
    "test/test_patma.py",
    "test/test_named_expressions.py",
    "test/test_type_params.py",
    "test/test_unpack_ex.py",
    "test/test_positional_only_arg.py",
    "test/test_keywordonlyarg.py",
    "test/test_decorators.py",
    "typing.py",
    "dataclasses.py",
]

SIZE_BUCKETS = (2_000, 8_000, 24_000, 60_000)
QUICK_QUOTA = {"stdlib": (12, 16, 16, 6), "usrlib": (4, 6, 6, 2), "site": (14, 18, 18, 6)}
THOROUGH_BYTES = 30_000_000
THOROUGH_MAX_FILE = 300_000
BLOCK_CONTEXTS = ("behavior", "monitor", "setup", "compose")
EXPR_CONTEXTS = ("require", "specifier")


# ------------------------------------------------------------------------------------------------
# planning


def _bucket(sz):
    for i, b in enumerate(SIZE_BUCKETS):
        if sz <= b:
            return i
    return None


def plan(tier, seed):
    from rt import pynorm

    rng = random.Random(seed * 99991 + 9)
    std = pynorm.corpus_roots()[0][1]
    dense = [os.path.join(std, d) for d in DENSE if os.path.exists(os.path.join(std, d))]
    if tier == "quick":
        files, _ = pynorm.list_corpus(SIZE_BUCKETS[-1])
        strata = {}
        for origin, p, sz in files:
            strata.setdefault((origin, _bucket(sz)), []).append((p, sz))
        chosen = []
        for origin, quota in QUICK_QUOTA.items():
            for b, q in enumerate(quota):
                pool = strata.get((origin, b), [])
                chosen += rng.sample(pool, min(q, len(pool)))
        have = {p for p, _ in chosen}
        chosen += [(p, os.path.getsize(p)) for p in dense if p not in have]
        nshards, timeout = 16, 1500
    else:
        files, _ = pynorm.list_corpus(THOROUGH_MAX_FILE)
        # byte-budgeted seeded sample, a third of the budget per origin, syntax-dense files always included
        chosen = [(p, os.path.getsize(p)) for p in dense]
        have = {p for p, _ in chosen}
        for origin in ("stdlib", "usrlib", "site"):
            pool = [(p, sz) for o, p, sz in files if o == origin and p not in have]
            rng.shuffle(pool)
            total = 0
            for p, sz in pool:
                if total + sz > THOROUGH_BYTES // 3:
                    continue
                chosen.append((p, sz))
                total += sz
        nshards, timeout = 64, 3400
    chosen.sort(key=lambda t: (-t[1], t[0]))
    sub = int(os.environ.get("VERIF_C09_SUBSAMPLE", "1") or 1)  # development aid only
    if sub > 1:
        chosen = chosen[::sub]
    shards = [{"shard": i, "files": [], "bytes": 0, "timeout": timeout} for i in range(nshards)]
    for p, sz in chosen:
        s = min(shards, key=lambda s: (s["bytes"], s["shard"]))
        s["files"].append(p)
        s["bytes"] += sz
    shards = [s for s in shards if s["files"]]
    for s in shards:
        s["nparts"] = len(shards)
    return shards


# ------------------------------------------------------------------------------------------------
# running the real front end

_USER_LIMIT = 1000
_ORACLE_LIMIT = 60000


def run_scenic(src, filename="<verif>"):
    """-> ("ok", tree) | ("syntax", exc) | ("resource", exc) | ("crash", exc)"""
    from scenic.core.errors import ScenicSyntaxError
    from scenic.syntax.compiler import compileScenicAST
    from scenic.syntax.parser import parse_string

    old = sys.getrecursionlimit()
    sys.setrecursionlimit(_USER_LIMIT + 60)
    try:
        tree = parse_string(src, "exec", filename=filename)
        out, _ = compileScenicAST(tree, filename=filename)
        return ("ok", out)
    except ScenicSyntaxError as e:
        return ("syntax", e)
    except (RecursionError, MemoryError) as e:
        return ("resource", e)
    except Exception as e:  # noqa
        return ("crash", e)
    finally:
        sys.setrecursionlimit(old)


def crash_key(exc):
    msg = f"{type(exc).__name__}: {exc}"
    if isinstance(exc, AttributeError) and "'TokenInfo' object has no attribute 'lineno'" in msg:
        return "fstring-conversion-tokeninfo-lineno"
    return None


# ------------------------------------------------------------------------------------------------
# comparison of one piece of source


class Outcome:
    __slots__ = ("status", "detail", "line", "key", "nodes", "rewrites", "endbad", "colbad", "types", "path", "values")

    def __init__(self, status, detail="", line=None, key=None):
        self.status = status  # equal | diff | lineno | reject | crash | resource
        self.detail = detail
        self.line = line
        self.key = key
        self.nodes = 0
        self.rewrites = {}
        self.endbad = 0
        self.colbad = 0
        self.types = ()
        self.path = ()
        self.values = (None, None)


def compare_trees(expected, got):
    """expected: list of normalised CPython statements/expressions; got: Scenic's."""
    from rt import pynorm

    d = pynorm.first_diff(expected, got)
    if d is not None:
        path, desc, values = d
        line = None
        for n in reversed(path):
            if hasattr(n, "lineno"):
                line = n.lineno
                break
        o = Outcome("diff", desc, line)
        o.path, o.values = path, values
        return o
    if pynorm.dump(expected) != pynorm.dump(got):  # the comparator and ast.dump must agree
        return Outcome("diff", "ast.dump differs although the field-wise comparison found nothing", None)
    n, bad, endbad, colbad = pynorm.lineno_diffs(expected, got)
    if bad:
        x, ly = bad[0]
        o = Outcome("lineno", f"{type(x).__name__} node at line {x.lineno} has lineno {ly} in Scenic's tree", x.lineno)
    else:
        o = Outcome("equal")
    o.nodes, o.endbad, o.colbad = n, endbad, colbad
    return o


def compare_module(src, py_tree=None, wrap_star=True, extract=None, expected_extract=None):
    """Full comparison of a piece of source as a module (or, with extractors, of an embedded part).
    NB: py_tree is normalised in place."""
    from rt import pynorm

    kind, val = run_scenic(src)
    if kind == "syntax":
        return Outcome("reject", f"{type(val).__name__}: {val}"[:300], getattr(val, "lineno", None))
    if kind == "resource":
        return Outcome("resource", type(val).__name__)
    if kind == "crash":
        import traceback

        tb = traceback.extract_tb(val.__traceback__)
        where = f"{os.path.basename(tb[-1].filename)}:{tb[-1].lineno} in {tb[-1].name}" if tb else "?"
        return Outcome("crash", f"{type(val).__name__}: {val} [{where}]"[:300], None, crash_key(val))
    if py_tree is None:
        py_tree = ast.parse(src)
    types = {type(n).__name__ for n in ast.walk(py_tree)}
    norm, rewrites = pynorm.normalise(py_tree, wrap_star)
    ast.fix_missing_locations(norm)
    try:
        expected = expected_extract(norm) if expected_extract else norm.body
        got = extract(val) if extract else val.body
    except Exception as e:  # Scenic's output does not have the documented shape
        return Outcome("diff", f"could not locate the embedded part in Scenic's output: {type(e).__name__}: {e}"[:300])
    o = compare_trees(expected, got)
    o.rewrites = rewrites
    o.types = types
    return o


# ------------------------------------------------------------------------------------------------
# classification (mechanism keys are decided from the observed difference, never from a hash)

_Q3 = ('"' * 3, "'" * 3)


def _literal_decodes_to(raw, value):
    """Is `value` what Python's string-literal escape processing makes of the raw text `raw`?"""
    if "\\" not in raw:
        return False
    for q in _Q3:
        if q in raw or raw.endswith(q[0]):
            continue
        try:
            return ast.literal_eval(q + raw + q) == value
        except Exception:
            continue
    return False


def mechanism(o, py_tree):
    """Narrow mechanism key for an unequal outcome, or None."""
    if o.status == "crash":
        return o.key
    if o.status == "diff":
        x, y = o.values
        in_fstring = any(isinstance(n, ast.JoinedStr) for n in o.path)
        if in_fstring and isinstance(x, str) and isinstance(y, str) and _literal_decodes_to(y, x):
            return "fstring-literal-escapes-not-decoded"
        if (
            in_fstring
            and isinstance(x, ast.Constant)
            and isinstance(x.value, str)
            and x.value.rstrip().endswith("=")
            and isinstance(y, ast.FormattedValue)
        ):
            return "fstring-debug-specifier-text-dropped"
        if in_fstring and isinstance(x, str) and isinstance(y, str) and x.startswith(y) and x.rstrip().endswith("="):
            return "fstring-debug-specifier-text-dropped"
        if in_fstring and isinstance(x, ast.Constant) and isinstance(x.value, str) and x.value.endswith("{") and isinstance(y, ast.FormattedValue):
            return "fstring-middle-brace-taken-as-delimiter"
        if in_fstring and isinstance(x, str) and isinstance(y, str) and x.endswith("{") and x[:-1] == y:
            return "fstring-middle-brace-taken-as-delimiter"
        if isinstance(x, ast.Starred) and y is None and o.path and isinstance(o.path[-1], ast.Starred) and len(o.path) > 1 and isinstance(o.path[-2], ast.arg):
            return "vararg-star-annotation-dropped"
        return None
    if o.status == "reject" and py_tree is not None and o.line is not None:
        from rt import pynorm

        st = pynorm.innermost_stmt(py_tree, o.line)
        if "invalid syntax" in o.detail and st is not None:
            for n in ast.walk(st):
                if isinstance(n, ast.IfExp) and isinstance(n.orelse, (ast.IfExp, ast.Lambda)):
                    if n.lineno <= o.line <= n.end_lineno:
                        return "conditional-expression-else-branch-restricted"
        if '"additive"' in o.detail and st is not None:
            for cls in ast.walk(py_tree):
                if isinstance(cls, ast.ClassDef) and any(st is b for b in cls.body):
                    tgt = None
                    if isinstance(st, ast.Assign):
                        tgt = st.targets[0]
                    elif isinstance(st, (ast.AugAssign, ast.AnnAssign)):
                        tgt = st.target
                    elif isinstance(st, ast.Expr):
                        tgt = st.value
                    # leftmost primary: NAME '[' ...
                    while True:
                        if isinstance(tgt, ast.Subscript) and isinstance(tgt.value, ast.Name):
                            return "class-body-subscript-forces-property-attribute"
                        nxt = getattr(tgt, "value", None) if isinstance(tgt, (ast.Subscript, ast.Attribute)) else None
                        if nxt is None and isinstance(tgt, ast.Call):
                            nxt = tgt.func
                        if nxt is None and isinstance(tgt, ast.BinOp):
                            nxt = tgt.left
                        if nxt is None and isinstance(tgt, ast.Compare):
                            nxt = tgt.left
                        if nxt is None:
                            break
                        tgt = nxt
    return None


def classify(o, src, py_tree, extra_text=""):
    """-> ("ambiguity", kw) | ("violation", key, what)"""
    from rt import pynorm

    lines = src.split("\n")
    if o.status == "crash":
        return ("violation", o.key, f"internal exception on valid Python: {o.detail}")
    key = mechanism(o, py_tree)
    text = extra_text
    if o.line is not None and py_tree is not None:
        st = pynorm.innermost_stmt(py_tree, o.line)
        if st is not None:
            text += pynorm.stmt_header_text(lines, st)
        else:
            text += "\n".join(lines[max(0, o.line - 2) : o.line + 1])
    elif o.line is not None:
        text += "\n".join(lines[max(0, o.line - 2) : o.line + 1])
    soft = pynorm.soft_keywords_in(text) if text else set()
    if soft and key is None:
        return ("ambiguity", sorted(soft)[0])
    if o.status == "reject":
        return ("violation", key, f"valid Python rejected: {o.detail} (line {o.line})")
    if o.status == "lineno":
        return ("violation", key, f"line number not preserved: {o.detail}")
    return ("violation", key, f"tree differs from CPython's: {o.detail} (line {o.line})")


# ------------------------------------------------------------------------------------------------
# statement extraction / localisation


def _first_line(st):
    return min([st.lineno] + [d.lineno for d in getattr(st, "decorator_list", [])])


def whole_line_statements(body, lines):
    """Statements of a block that occupy whole lines on their own (so their text can be moved)."""
    out = []
    for i, st in enumerate(body):
        first, last = _first_line(st), st.end_lineno
        if i > 0 and body[i - 1].end_lineno >= first:
            continue
        if i + 1 < len(body) and _first_line(body[i + 1]) <= last:
            continue
        head = lines[first - 1]
        if head[: st.col_offset].strip() or (st.col_offset and not head[: st.col_offset].isspace()):
            continue
        out.append(st)
    return out


def stmt_text(st, lines, keep_position=True):
    import textwrap

    first, last = _first_line(st), st.end_lineno
    seg = "\n".join(lines[first - 1 : last]) + "\n"
    seg = textwrap.dedent(seg) if st.col_offset else seg
    return ("\n" * (first - 1) if keep_position else "") + seg


def child_statements(st):
    out = []
    for f in ("body", "orelse", "finalbody"):
        v = getattr(st, f, None)
        if isinstance(v, list):
            out += [x for x in v if isinstance(x, ast.stmt)]
    for h in getattr(st, "handlers", []) or []:
        out += h.body
    for c in getattr(st, "cases", []) or []:
        out += c.body
    return out


def signature(o):
    return (o.status, o.key, o.detail.split(" [")[0][:60] if o.status in ("crash", "reject") else "")


def shrink(text, sig, budget):
    """Descend into the statement(s) of `text` while a sub-statement, parsed alone (or, for class
    bodies, alone under the class header), fails the same way.  Returns the smallest such text."""
    best = text
    while budget[0] > 0:
        try:
            tree = ast.parse(best)
        except (SyntaxError, ValueError):
            return best
        lines = best.split("\n")
        single = tree.body[0] if len(tree.body) == 1 else None
        kids = []
        for st in tree.body:
            kids += child_statements(st)
        cands = []
        for st in whole_line_statements(kids, lines) if single is not None else whole_line_statements(tree.body, lines):
            cands.append(stmt_text(st, lines, keep_position=False))
        if isinstance(single, ast.ClassDef) and single.body:
            # keep the class header: class-level context matters to Scenic
            first_body = _first_line(single.body[0])
            if first_body > single.lineno:
                header = "\n".join(lines[: first_body - 1]) + "\n"
                body = whole_line_statements(single.body, lines)
                if len(body) > 1:
                    for st in body:
                        seg = "\n".join(lines[_first_line(st) - 1 : st.end_lineno]) + "\n"
                        cands.append(header + seg)
        found = None
        for t in cands:
            if t == best or len(t) >= len(best):
                continue
            budget[0] -= 1
            try:
                pt = ast.parse(t)
            except (SyntaxError, ValueError):
                continue
            o = compare_module(t, pt)
            if signature(o) == sig:
                found = t
                break
            if budget[0] <= 0:
                break
        if found is None:
            return best
        best = found
    return best


# ------------------------------------------------------------------------------------------------
# embedded fragments

_HEAD = {
    # context: (scenic header lines, python header lines, indent)
    "behavior": (["behavior VerifB():", "    pass"], ["def VerifB():", "    pass"], "    "),
    "monitor": (["monitor VerifM():", "    pass"], ["def VerifM():", "    pass"], "    "),
    "setup": (
        ["scenario VerifS():", "    setup:", "        pass"],
        ["def VerifS():", "    if 1:", "        pass"],
        "        ",
    ),
    "compose": (
        ["scenario VerifS():", "    compose:", "        pass"],
        ["def VerifS():", "    if 1:", "        pass"],
        "        ",
    ),
}


def _find_def(cls, name):
    for st in cls.body:
        if isinstance(st, ast.FunctionDef) and st.name == name:
            return st
    raise LookupError(f"no {name} in class {cls.name}")


def _extract_block(context):
    from rt import pynorm

    fname = {"behavior": "makeGenerator", "monitor": "makeGenerator", "setup": "_setup", "compose": "_compose"}[context]

    def ex(tree):
        cls = tree.body[0]
        if not isinstance(cls, ast.ClassDef):
            raise LookupError("first statement is not a class")
        fn = _find_def(cls, fname)
        return pynorm.unbehavior(fn.body[1:])

    return ex


def _expected_block(context):
    def ex(norm):
        fn = norm.body[0]
        for n in ast.walk(fn):  # (see rt/pynorm._UnBehavior.visit_AnnAssign)
            if isinstance(n, ast.AnnAssign) and isinstance(n.target, ast.Name):
                n.simple = 1
        if context in ("setup", "compose"):
            return fn.body[0].body[1:]
        return fn.body[1:]

    return ex


def block_program(context, texts):
    sh, ph, ind = _HEAD[context]
    body = []
    for t in texts:
        for ln in t.rstrip("\n").split("\n"):
            body.append(ind + ln if ln.strip() else ln)
    return "\n".join(sh + body) + "\n", "\n".join(ph + body) + "\n"


def expr_program(context, exprs):
    sc, py = [], []
    if context == "require":
        for e in exprs:
            sc.append(f"require ({e}) is not None")
            py.append(f"({e}) is not None")
    else:
        for e in exprs:
            sc.append(f"new Object with verifProp ({e}), at ({e})")
            py.append(f"({e}), ({e})")
    return "\n".join(sc) + "\n", "\n".join(py) + "\n"


def _extract_expr(context):
    def ex(tree):
        out = []
        for st in tree.body:
            call = st.value
            if context == "require":
                ap = call.args[1]
                if not (isinstance(ap, ast.Call) and getattr(ap.func, "id", None) == "AtomicProposition"):
                    raise LookupError("requirement body is not an atomic proposition")
                out.append(ap.args[0].body)
            else:
                specs = call.args[1].elts
                out += [specs[0].args[1], specs[1].args[0]]
        return out

    return ex


def _expected_expr(context):
    def ex(norm):
        if context == "specifier":
            return [e for st in norm.body for e in st.value.elts]
        return [st.value for st in norm.body]

    return ex


_NO_EMBED = (ast.Yield, ast.YieldFrom, ast.Await, ast.AsyncFunctionDef, ast.AsyncFor, ast.AsyncWith)
_TEMPORAL = {"always", "eventually", "next", "implies"}


def pick_statements(py_tree, lines, rng, k, max_lines=40):
    from rt import pynorm

    cands = []
    for st in whole_line_statements(py_tree.body, lines):
        if st.end_lineno - _first_line(st) + 1 > max_lines or st.col_offset != 0:
            continue
        if isinstance(st, ast.ImportFrom) and st.module == "__future__":
            continue
        if pynorm.contains(st, _NO_EMBED) or pynorm.class_annotation_lines(st):
            continue
        if isinstance(st, ast.Expr) and isinstance(st.value, ast.Constant) and isinstance(st.value.value, str):
            pass  # a string statement after `pass` is not a docstring: fine
        cands.append(st)
    if len(cands) > k:
        # prefer variety: one of each statement class first
        rng.shuffle(cands)
        seen, first, rest = set(), [], []
        for st in cands:
            (first if type(st) not in seen else rest).append(st)
            seen.add(type(st))
        cands = (first + rest)[:k]
        cands.sort(key=lambda s: s.lineno)
    return cands


def pick_expressions(src, py_tree, rng, k):
    from rt import pynorm

    cands = []
    for node in ast.walk(py_tree):
        vals = []
        if isinstance(node, (ast.Assign, ast.AugAssign, ast.Return, ast.Expr)) and node.value is not None:
            vals.append(node.value)
        elif isinstance(node, ast.Call):
            vals += [a for a in node.args if not isinstance(a, ast.Starred)]
        elif isinstance(node, (ast.If, ast.While, ast.Assert)):
            vals.append(node.test)
        for v in vals:
            if isinstance(v, (ast.Name, ast.Starred)) or (isinstance(v, ast.Constant) and not isinstance(v.value, str)):
                continue
            if v.end_lineno - v.lineno > 8:
                continue
            cands.append(v)
    if len(cands) > 4 * k:
        cands = rng.sample(cands, 4 * k)
    out = []
    seen_types = set()
    rng.shuffle(cands)
    cands.sort(key=lambda v: type(v) in seen_types or seen_types.add(type(v)) or False)
    for v in cands:
        if len(out) >= k:
            break
        if pynorm.contains(v, _NO_EMBED + (ast.Lambda,)) and pynorm.contains(v, (ast.Yield, ast.YieldFrom, ast.Await)):
            continue
        seg = ast.get_source_segment(src, v)
        if not seg or len(seg) > 500 or "#" in seg:
            continue
        try:
            ast.parse(f"({seg})", mode="eval")
        except (SyntaxError, ValueError):
            continue
        out.append(seg)
    return out


# ------------------------------------------------------------------------------------------------
# one file


def check_file(path, rng, res, tier, budget):
    from rt import pynorm, su

    C = res["counters"]

    def bump(k, n=1):
        C[k] = C.get(k, 0) + n

    def skip(k, n=1):
        res["skipped"][k] = res["skipped"].get(k, 0) + n

    hard, soft = pynorm.scenic_keywords()
    rel = path
    try:
        src = pynorm.read_source(path)
    except (OSError, UnicodeDecodeError, SyntaxError, LookupError):
        skip("undecodable")
        return
    sys.setrecursionlimit(_ORACLE_LIMIT)
    try:
        py_tree = ast.parse(src)
    except (SyntaxError, ValueError, RecursionError, MemoryError):
        skip("cpython-rejects")
        return
    idents = pynorm.identifiers(py_tree)
    bad = idents & hard
    if bad:
        skip("scenic-hard-keyword-as-identifier")
        bump("hardkw_" + sorted(bad)[0])
        return
    rb = pynorm.rebinds_builtin(py_tree)
    if rb:
        skip("rebinds-scenic-builtin-name")
        return
    if any(isinstance(n, ast.BinOp) and isinstance(n.op, ast.MatMult) for n in ast.walk(py_tree)):
        # `X @ Y` is Scenic's documented vector syntax (reference/data.rst)
        skip("uses-@-operator (Scenic vector syntax)")
        return
    res["evaluations"] += 1
    bump("files_in_fragment")
    bump("bytes_in_fragment", len(src))
    lines = src.split("\n")
    ann = pynorm.class_annotation_lines(py_tree)
    used_soft = idents & soft
    if used_soft:
        bump("files_using_soft_keywords_as_identifiers")

    def report(o, text, tree, context, snippet=None, extra_text="", twin=None, at=None):
        """classify an unequal outcome; returns True if it was a violation"""
        if o.status == "resource":
            skip("scenic-recursion-limit")
            bump("resource_exhaustion")
            return False
        cls = classify(o, text, tree, extra_text)
        if cls[0] == "ambiguity":
            skip("documented-soft-keyword-ambiguity")
            bump("ambiguity_" + cls[1])
            return False
        _, key, what = cls
        bump("violations_" + (key or "unclassified"))
        n_same = sum(1 for v in res["violations"] if v["key"] == key)
        if n_same >= (3 if key else 12):
            return True
        w = {"path": path, "context": context}
        if snippet is not None and len(snippet) < 6000:
            w["source"] = snippet
            if twin is not None:
                w["python"] = twin
        shown = (snippet if snippet is not None else "").strip()[:200]
        if at is not None:
            what += f" [statement starts at line {at} of the file]"
        res["violations"].append({"key": key, "what": f"[{context}] {rel}: {what}"[:500] + (f" | input: {shown!r}" if shown else ""), "witness": w})
        return True

    def account(o, columns=True):
        bump("nodes_lineno_compared", o.nodes)
        bump("end_lineno_mismatches_info", o.endbad)
        if columns:  # (columns are shifted by construction in the expression contexts)
            bump("col_offset_mismatches_info", o.colbad)
        for k, v in o.rewrites.items():
            bump("rewrites_" + k, v)
        res["_types"].update(o.types)

    # ---- layer 1: the module itself (per top-level statement when that is not possible)
    statement_mode = bool(ann)
    whole = None
    if not ann:
        o = compare_module(src, py_tree)
        py_tree = ast.parse(src)  # (normalised in place)
        if o.status == "equal":
            bump("files_equal")
            bump("statements_equal", len(py_tree.body))
            account(o)
            if o.nodes >= 20:
                res["nontrivial"].append(su.h([os.path.basename(path), len(src)]))
            if len(res["samples"]) < 2:
                res["samples"].append({"file": path, "bytes": len(src), "nodes": o.nodes, "rewrites": o.rewrites})
        else:
            bump("files_" + o.status)
            whole = o
            statement_mode = True
    else:
        bump("files_with_class_level_annotations")
    if statement_mode:
        bump("files_per_statement_mode")
        okc = bad = 0
        top = whole_line_statements(py_tree.body, lines)
        if len(py_tree.body) > len(top):
            skip("statement-shares-a-line", len(py_tree.body) - len(top))
        for st in top:
            if pynorm.class_annotation_lines(st):
                skip("class-level-annotation-statement")
                continue
            text = stmt_text(st, lines, keep_position=False)
            try:
                t = ast.parse(text)
            except (SyntaxError, ValueError):
                continue
            o = compare_module(text, t)
            if o.status == "equal":
                okc += 1
                account(o)
                continue
            bad += 1
            bump("statements_" + o.status)
            small = text
            if o.status != "resource" and budget["shrink"][0] > 0:
                small = shrink(small, signature(o), budget["shrink"])
            report(o, text, ast.parse(text), "statement", snippet=small, at=_first_line(st))
        bump("statements_equal", okc)
        if okc >= 3:
            res["nontrivial"].append(su.h([os.path.basename(path), len(src)]))
        if whole is not None and bad == 0:
            # only visible with the whole file in view
            report(whole, src, py_tree, "module")
    py_tree = ast.parse(src)

    # ---- layer 2: embedded in Scenic constructs
    kst = 5 if tier == "quick" else 8
    sts = pick_statements(py_tree, lines, rng, kst)
    texts = [stmt_text(st, lines, keep_position=False) for st in sts]
    first_ctx = rng.randrange(len(BLOCK_CONTEXTS))
    for context in (BLOCK_CONTEXTS[first_ctx], BLOCK_CONTEXTS[(first_ctx + 1 + rng.randrange(3)) % 4]):
        if not texts:
            break
        use = [t for t, st in zip(texts, sts)]
        sc, py = block_program(context, use)
        try:
            t = ast.parse(py)
        except (SyntaxError, ValueError):
            skip("embedding-not-valid-python")
            continue
        o = compare_module(sc, t, wrap_star=(context != "behavior"), extract=_extract_block(context), expected_extract=_expected_block(context))
        bump("embedded_programs_" + context)
        if o.status == "equal":
            bump("embedded_block_items_equal", len(use))
            bump("embedded_" + context + "_equal", len(use))
            account(o)
            continue
        # localise: one statement at a time
        for tx in use:
            sc1, py1 = block_program(context, [tx])
            try:
                t1 = ast.parse(py1)
            except (SyntaxError, ValueError):
                continue
            o1 = compare_module(sc1, t1, wrap_star=(context != "behavior"), extract=_extract_block(context), expected_extract=_expected_block(context))
            if o1.status == "equal":
                bump("embedded_block_items_equal")
                bump("embedded_" + context + "_equal")
                account(o1)
            else:
                bump("embedded_" + context + "_" + o1.status)
                report(o1, py1, ast.parse(py1), context, snippet=sc1, twin=py1)
    kex = 6 if tier == "quick" else 12
    exprs = pick_expressions(src, py_tree, rng, kex)
    exprs = [e for e in exprs if not (set(_words(e)) & _TEMPORAL)]
    for context in EXPR_CONTEXTS:
        if not exprs:
            break
        sc, py = expr_program(context, exprs)
        try:
            t = ast.parse(py)
        except (SyntaxError, ValueError):
            skip("embedding-not-valid-python")
            continue
        o = compare_module(sc, t, extract=_extract_expr(context), expected_extract=_expected_expr(context))
        bump("embedded_programs_" + context)
        if o.status == "equal":
            bump("embedded_expr_items_equal", len(exprs))
            bump("embedded_" + context + "_equal", len(exprs))
            account(o, columns=False)
            continue
        for e in exprs:
            sc1, py1 = expr_program(context, [e])
            try:
                t1 = ast.parse(py1)
            except (SyntaxError, ValueError):
                continue
            o1 = compare_module(sc1, t1, extract=_extract_expr(context), expected_extract=_expected_expr(context))
            if o1.status == "equal":
                bump("embedded_expr_items_equal")
                bump("embedded_" + context + "_equal")
                account(o1, columns=False)
            else:
                bump("embedded_" + context + "_" + o1.status)
                report(o1, py1, ast.parse(py1), context, snippet=sc1, extra_text=e, twin=py1)


def check_synthetic(rng, res, part, nparts):
    """The syntax-coverage corpus (rt/pycorpus.py): every snippet as a module, embedded in one block
    context (rotating), and every expression in both expression contexts."""
    from rt import pycorpus, pynorm, su

    C = res["counters"]

    def bump(k, n=1):
        C[k] = C.get(k, 0) + n

    def skip(k, n=1):
        res["skipped"][k] = res["skipped"].get(k, 0) + n

    hard, soft = pynorm.scenic_keywords()
    sys.setrecursionlimit(_ORACLE_LIMIT)

    def report(o, pytext, context, snippet, twin=None, extra_text=""):
        if o.status == "resource":
            skip("scenic-recursion-limit")
            bump("resource_exhaustion")
            return
        cls = classify(o, pytext, ast.parse(pytext), extra_text)
        if cls[0] == "ambiguity":
            skip("documented-soft-keyword-ambiguity")
            bump("ambiguity_" + cls[1])
            return
        _, key, what = cls
        bump("violations_" + (key or "unclassified"))
        n_same = sum(1 for v in res["violations"] if v["key"] == key)
        if n_same >= (3 if key else 25):
            return
        w = {"path": "<rt/pycorpus.py>", "context": context, "source": snippet}
        if twin is not None:
            w["python"] = twin
        res["violations"].append({"key": key, "what": f"[{context}] synthetic corpus: {what} | input: {snippet.strip()[:200]!r}", "witness": w})

    def account(o, columns=True):
        bump("nodes_lineno_compared", o.nodes)
        bump("end_lineno_mismatches_info", o.endbad)
        if columns:  # (columns are shifted by construction in the expression contexts)
            bump("col_offset_mismatches_info", o.colbad)
        for k, v in o.rewrites.items():
            bump("rewrites_" + k, v)
        res["_types"].update(o.types)

    for idx, src in enumerate(pycorpus.SNIPPETS):
        if idx % nparts != part:
            continue
        tree = ast.parse(src)
        assert not (pynorm.identifiers(tree) & hard), src
        res["evaluations"] += 1
        bump("synthetic_snippets")
        o = compare_module(src, tree)
        if o.status == "equal":
            bump("synthetic_snippets_equal")
            account(o)
            res["nontrivial"].append(su.h(["synthetic", src]))
        else:
            bump("synthetic_" + o.status)
            report(o, src, "module", src)
        # embedded, one block context per snippet
        tree = ast.parse(src)
        lines = src.split("\n")
        if not src.endswith("\n") or "\r" in src or "\x0c" in src or not tree.body:
            continue
        sts = [st for st in whole_line_statements(tree.body, lines) if st.col_offset == 0]
        if len(sts) != len(tree.body):
            continue
        if any(isinstance(st, ast.ImportFrom) and (st.module == "__future__") for st in sts):
            continue
        context = BLOCK_CONTEXTS[idx % 4]
        if pynorm.contains(tree, _NO_EMBED) and context in ("behavior", "compose"):
            context = "monitor"
        if pynorm.contains(tree, (ast.Await, ast.AsyncFor, ast.AsyncWith)) and not pynorm.contains(tree, ast.AsyncFunctionDef):
            continue
        sc, py = block_program(context, [stmt_text(st, lines, keep_position=False) for st in sts])
        try:
            t = ast.parse(py)
        except (SyntaxError, ValueError):
            skip("embedding-not-valid-python")
            continue
        o = compare_module(sc, t, wrap_star=(context != "behavior"), extract=_extract_block(context), expected_extract=_expected_block(context))
        bump("synthetic_embedded")
        if o.status == "equal":
            bump("synthetic_embedded_equal")
            bump("embedded_block_items_equal", len(sts))
            account(o)
        else:
            bump("synthetic_embedded_" + o.status)
            report(o, py, context, sc, twin=py)
    for idx, e in enumerate(pycorpus.EXPRESSIONS):
        if idx % nparts != part:
            continue
        for context in EXPR_CONTEXTS:
            sc, py = expr_program(context, [e])
            o = compare_module(sc, ast.parse(py), extract=_extract_expr(context), expected_extract=_expected_expr(context))
            bump("synthetic_embedded")
            if o.status == "equal":
                bump("synthetic_embedded_equal")
                bump("embedded_expr_items_equal")
                account(o, columns=False)
            else:
                bump("synthetic_embedded_" + o.status)
                report(o, py, context, sc, twin=py, extra_text=e)


def _words(text):
    import re

    return re.findall(r"[A-Za-z_]\w*", text)


# ------------------------------------------------------------------------------------------------
# protocol


def run_shard(spec):
    rng = random.Random(spec["seed"] * 1000003 + spec["shard"])
    res = {"evaluations": 0, "nontrivial": [], "counters": {}, "samples": [], "violations": [], "skipped": {}, "_types": set()}
    budget = {"shrink": [150]}
    nparts = spec.get("nparts", 1)
    check_synthetic(rng, res, spec["shard"] % nparts, nparts)
    for path in spec["files"]:
        check_file(path, rng, res, spec["tier"], budget)
    types = sorted(res.pop("_types"))
    res["extra"] = {"node_types_seen": types}
    return res


def finalize(m, tier, seed):
    types = m["extra"].get("node_types_seen", [])
    m["counters"]["distinct_ast_node_types_seen"] = len(types)
    m["extra"]["node_types_seen"] = sorted(types)


def replay(w):
    from rt import pynorm

    out = []
    context = w.get("context", "module")
    if "source" in w:
        src = w["source"]
    else:
        src = pynorm.read_source(w["path"])
    sys.setrecursionlimit(_ORACLE_LIMIT)
    if context in ("module", "statement"):
        t = ast.parse(src)
        o = compare_module(src, t)
        pysrc = src
    else:
        pysrc = w["python"]
        if context in BLOCK_CONTEXTS:
            o = compare_module(src, ast.parse(pysrc), wrap_star=(context != "behavior"), extract=_extract_block(context), expected_extract=_expected_block(context))
        else:
            o = compare_module(src, ast.parse(pysrc), extract=_extract_expr(context), expected_extract=_expected_expr(context))
    if o.status in ("equal", "resource"):
        return out
    cls = classify(o, pysrc, ast.parse(pysrc))
    if cls[0] == "violation":
        out.append({"key": cls[1], "what": f"[{context}] {w.get('path')}: {cls[2]}", "witness": w})
    return out


MANIFEST_ENTRY = {
    "technique": "runtime monitoring: differential observation of the real Scenic parser+compiler against CPython's parser on a real-code corpus, through an independent implementation of the documented rewrites",
    "text": "Every sampled stdlib / site-packages module CPython accepts (and free of Scenic reserved words) is parsed and compiled by the real front end; the output tree must equal CPython's tree after the documented rewrites and keep every node's line number. Statements and expressions of the same files are re-checked embedded in behaviors, monitors, scenario setup/compose blocks, require statements and specifier arguments. Bounded by the corpus: held on the files driven.",
    "note": "Trusts CPython's ast.parse as reference and rt/pynorm.py as the statement of the documented rewrites. Class-level annotations (Scenic's property syntax), hard-keyword identifiers and rebinding of builtin names are outside the fragment and counted; soft-keyword ambiguities are counted, not reported; RecursionError at the default limit is counted as resource exhaustion.",
}
