"""C08 — pruning never changes which scenes can be generated.

Differential observation of two executions of the real compiler on the same generated source: once with
`scenic.syntax.translator.usePruning = False`, once with it True (same process).  Accepted scenes of the
unpruned program must have their base point inside the pruned sampling region, pruned draws must lie in the
original base region (including its z), pruning must not raise for a satisfiable scenario, must terminate
(logical loop detector) and must not touch anything but `position`.
"""

import math
import random
import sys

import numpy as np

PROPERTY = "C08"
LEVEL = "exploration"
RULE = (
    "generated programs in five families (stratified so that every shard sees every family): containment in polygonal workspaces/containers (rectangles, convex "
    "n-gons, L-shapes, holes, z != 0; `in`/`on`/`offset by`; random sizes/orientations; regionContainedIn), "
    "containment in mesh volumes (boxes, rotated boxes, L-shaped meshes; bigger base than container), relative "
    "heading with polygonal vector fields (2-4 cells, headings up to +-pi, noise) combined with a distance "
    "bound in every matcher form (<,<=,>,>=,!=, chained, abs(x), abs(x-c), abs(c-x), abs(x+c), constant on either "
    "side) or a visibility bound, and visibility (requireVisible / visible / visible from, offsets, small and "
    "large view distances, view angles), plus termination probes (tight rotated cubic mesh containers). Each program is compiled unpruned and pruned; a program is "
    "non-trivial when a pruner conditioned at least one position and removed > 0.1% of the base region and "
    "the unpruned program produced accepted scenes; distinct = distinct program texts."
)
ASSUMPTIONS = [
    "the unpruned program (usePruning=False) defines the reference set of scenes",
    "the base point of an accepted scene is read from the sample dictionary of the real Scenario.generate (spy on Samplable.sampleAll)",
    "membership of base points in polygonal pruned regions is decided by shapely on the region's polygons with a 1e-6 buffer; mesh regions by the region's own containsPoint/distanceTo with 1e-3",
    "a wall-clock watchdog is inconclusive; only a repeated identical _erodeOverapproximate/_bufferOverapproximate call for the same object is a termination violation",
]
MIN_COUNTERS = {
    "quick": {
        "programs": 70,
        "pruned_programs": 35,
        "unpruned_accepted_scenes": 3000,
        "membership_checks": 2500,
        "pruned_draw_checks": 1500,
        "fired_pruneContainment": 20,
        "fired_pruneRelativeHeading": 8,
        "fired_pruneVisibility": 10,
        "productive_pruneContainment": 12,
        "productive_pruneRelativeHeading": 2,
        "productive_pruneVisibility": 5,
        "property_objects_checked": 80,
    },
    "thorough": {
        "programs": 580,
        "pruned_programs": 330,
        "unpruned_accepted_scenes": 45000,
        "membership_checks": 38000,
        "pruned_draw_checks": 20000,
        "fired_pruneContainment": 200,
        "fired_pruneRelativeHeading": 75,
        "fired_pruneVisibility": 100,
        "productive_pruneContainment": 100,
        "productive_pruneRelativeHeading": 30,
        "productive_pruneVisibility": 40,
        "property_objects_checked": 750,
    },
}

KEY_NEQ = "relations.noneq-operator-treated-as-upper-bound"
KEY_Z_CONT = "prune-containment.base-z-dropped"
KEY_Z_RH = "prune-relative-heading.base-z-dropped"
KEY_RH_WRAP = "prune-relative-heading.range-not-normalized"
KEY_LOOP = "prune-containment.erode-retry-same-pitch"
KEY_UNDERBUF = "prune-visibility.buffered-view-region-too-small"
KEY_C17 = "unpruned-accepts-invisible-object.cansee-defect-of-c17"


# ---------------------------------------------------------------------------------------------------------
# program generation


def _f(x):
    return repr(round(float(x), 4))


def _poly_pts(pts):
    return "[" + ", ".join(f"{_f(x)}@{_f(y)}" for x, y in pts) + "]"


def _rand_polygon(rng, cx, cy, size):
    """(points, kind) of a simple polygon around (cx, cy) with extent ~size."""
    u = rng.random()
    if u < 0.4:
        w, h = size * rng.uniform(0.6, 1.0), size * rng.uniform(0.6, 1.0)
        return [(cx - w / 2, cy - h / 2), (cx + w / 2, cy - h / 2), (cx + w / 2, cy + h / 2), (cx - w / 2, cy + h / 2)], "rect"
    if u < 0.7:
        n = rng.randint(5, 8)
        angs = sorted(rng.uniform(0, 2 * math.pi) for _ in range(n))
        # spread the angles so the polygon is convex and fat
        angs = [2 * math.pi * (i + rng.uniform(-0.25, 0.25)) / n for i in range(n)]
        r = size / 2
        return [(cx + r * math.cos(a), cy + r * math.sin(a)) for a in angs], "convex"
    w, h = size * rng.uniform(0.7, 1.0), size * rng.uniform(0.7, 1.0)
    a, b = w * rng.uniform(0.35, 0.6), h * rng.uniform(0.35, 0.6)
    x0, y0 = cx - w / 2, cy - h / 2
    return [(x0, y0), (x0 + w, y0), (x0 + w, y0 + b), (x0 + a, y0 + b), (x0 + a, y0 + h), (x0, y0 + h)], "L"


def _dims(rng, lo, hi, allow_random=True):
    out = []
    for name in ("width", "length", "height"):
        if rng.random() < 0.35:
            continue
        a = rng.uniform(lo, hi)
        if allow_random and rng.random() < 0.3:
            out.append(f"with {name} Range({_f(a)}, {_f(a * rng.uniform(1.1, 1.8))})")
        else:
            out.append(f"with {name} {_f(a)}")
    return out


def gen_contain_poly(rng):
    size = rng.uniform(4, 14)
    pts, kind = _rand_polygon(rng, rng.uniform(-20, 20), rng.uniform(-20, 20), size)
    z = rng.choice([0, 0, rng.uniform(-5, 8)])
    zs = f", z={_f(z)}" if z else ""
    L = []
    variant = rng.choice(["in_ws", "in_ws", "on_ws", "big_base", "contained_in", "offset", "offset", "hole"])
    objspec = _dims(rng, 0.4, min(2.5, size / 3))
    u = rng.random()
    if u < 0.4:
        objspec.append(f"facing Range({_f(rng.uniform(-3.1, 0))}, {_f(rng.uniform(0, 3.1))})")
    elif u < 0.55:
        objspec.append(f"facing {_f(rng.uniform(-3, 3))}")
    elif u < 0.75:
        objspec.append(f"facing (Range(-3, 3), Range(0, {_f(rng.uniform(0.1, 0.6))}), Range(-0.2, 0.2))")
    cx = sum(p[0] for p in pts) / len(pts)
    cy = sum(p[1] for p in pts) / len(pts)
    if variant in ("in_ws", "on_ws", "offset", "hole"):
        if variant == "hole":
            hs = size * rng.uniform(0.1, 0.2)
            L.append(f"outer = PolygonalRegion({_poly_pts(pts)}{zs})")
            L.append(f"workspace = Workspace(outer.difference(PolygonalRegion({_poly_pts([(cx - hs, cy - hs), (cx + hs, cy - hs), (cx + hs, cy + hs), (cx - hs, cy + hs)])})))")
        else:
            L.append(f"workspace = Workspace(PolygonalRegion({_poly_pts(pts)}{zs}))")
        if variant == "offset":
            L.append("pt = new Point in workspace")
            a_ = rng.uniform(0, 2 * math.pi)
            m_ = rng.uniform(0.2, 0.35) * min(2.5, size / 3)
            L.append(f"ego = new Object at pt offset by ({_f(m_ * math.cos(a_))}, {_f(m_ * math.sin(a_))}, 0), with width {_f(2.2 * m_ + rng.uniform(0.2, 0.8))}, with length {_f(2.2 * m_ + rng.uniform(0.2, 0.8))}" + "".join(", " + s for s in objspec if not s.startswith(("with width", "with length"))))
        else:
            L.append(f"ego = new Object {'on' if variant == 'on_ws' else 'in'} workspace" + "".join(", " + s for s in objspec))
    else:
        f = rng.uniform(1.3, 2.6)
        big = [(cx + (x - cx) * f + rng.uniform(-1, 1), cy + (y - cy) * f + rng.uniform(-1, 1)) for x, y in pts] if kind != "L" else [(cx - size * f / 2, cy - size * f / 2), (cx + size * f / 2, cy - size * f / 2), (cx + size * f / 2, cy + size * f / 2), (cx - size * f / 2, cy + size * f / 2)]
        zb = rng.choice([0, 0, rng.uniform(-5, 8)])
        zbs = f", z={_f(zb)}" if zb else ""
        L.append(f"big = PolygonalRegion({_poly_pts(big)}{zbs})")
        if variant == "big_base":
            L.append(f"workspace = Workspace(PolygonalRegion({_poly_pts(pts)}))")
            L.append(f"ego = new Object {rng.choice(['in', 'on'])} big" + "".join(", " + s for s in objspec))
        else:
            L.append(f"cont = PolygonalRegion({_poly_pts(pts)})")
            L.append("ego = new Object in big, with regionContainedIn cont" + "".join(", " + s for s in objspec))
    if rng.random() < 0.35:
        L.append("other = new Object in workspace, with allowCollisions True" if variant not in ("contained_in",) else "other = new Object in cont, with regionContainedIn cont, with allowCollisions True")
    return "\n".join(L) + "\n", {"family": "contain_poly", "variant": variant, "z": bool(z)}


def gen_contain_mesh(rng):
    L = []
    dims = [rng.uniform(3, 10) for _ in range(3)]
    pos = [rng.uniform(-10, 10) for _ in range(3)]
    variant = rng.choice(["in_ws", "big_base", "rotated", "tight_rotated", "lmesh"])
    rot = ""
    yaw = 0.0
    if variant in ("rotated", "tight_rotated"):
        yaw = rng.uniform(0.3, 1.2)
        rot = f", rotation=Orientation.fromEuler({_f(yaw)}, {_f(rng.uniform(0, 0.5) if variant == 'rotated' else 0)}, 0)"
    if variant == "lmesh":
        L.append("import trimesh")
        a, b, c = dims
        L.append(f"_m = trimesh.boolean.union([trimesh.creation.box(({_f(a)}, {_f(b / 3)}, {_f(c)})), trimesh.creation.box(({_f(a / 3)}, {_f(b)}, {_f(c)}))], engine='manifold')")
        L.append(f"workspace = Workspace(MeshVolumeRegion(_m, position=({_f(pos[0])}, {_f(pos[1])}, {_f(pos[2])})))")
    else:
        L.append(f"workspace = Workspace(BoxRegion(dimensions=({_f(dims[0])}, {_f(dims[1])}, {_f(dims[2])}), position=({_f(pos[0])}, {_f(pos[1])}, {_f(pos[2])}){rot}))")
    if variant == "tight_rotated":
        s = min(dims) * rng.uniform(0.55, 0.8)
        spec = [f"with width {_f(s)}", f"with length {_f(s)}", f"with height {_f(s)}", f"facing ({_f(yaw)}, 0, 0)"]
    else:
        spec = _dims(rng, 0.3, min(dims) / 3)
        if rng.random() < 0.5:
            spec.append(f"facing (Range(-3, 3), Range(-0.5, 0.5), Range(-0.5, 0.5))")
    if variant == "big_base":
        f = rng.uniform(1.2, 1.8)
        L.append(f"big = BoxRegion(dimensions=({_f(dims[0] * f)}, {_f(dims[1] * f)}, {_f(dims[2] * f)}), position=({_f(pos[0] + rng.uniform(-1, 1))}, {_f(pos[1] + rng.uniform(-1, 1))}, {_f(pos[2])}))")
        L.append("ego = new Object in big" + "".join(", " + s for s in spec))
    else:
        L.append("ego = new Object in workspace" + "".join(", " + s for s in spec))
    return "\n".join(L) + "\n", {"family": "contain_mesh", "variant": variant}


DIST_FORMS = [
    ("lt", "(distance to other) < {c}", "upper"),
    ("le", "(distance to other) <= {c}", "upper"),
    ("gt_rev", "{c} > (distance to other)", "upper"),
    ("ge_rev", "{c} >= (distance to other)", "upper"),
    ("chain", "{lo} < (distance to other) < {c}", "both"),
    ("chain_le", "{lo} <= (distance to other) <= {c}", "both"),
    ("chain_rev", "{c} > (distance to other) > {lo}", "both"),
    ("abs", "abs(distance to other) < {c}", "upper"),
    ("abs_sub", "abs((distance to other) - {m}) < {h}", "both"),
    ("abs_rsub", "abs({m} - (distance to other)) <= {h}", "both"),
    ("abs_add", "abs((distance to other) + {lo}) < {cplus}", "upper"),
    ("abs_rev", "{c} > abs(distance to other)", "upper"),
    ("from_ego", "(distance from ego to other) < {c}", "none"),
    ("neq", "(distance to other) != {small}", "neq"),
    ("neq_rev", "{small} != (distance to other)", "neq"),
    ("lower_only", "(distance to other) > {lo}", "lower"),
]

RH_FORMS = [
    ("ge", "(relative heading of other) >= {a}"),
    ("le", "(relative heading of other) <= {a}"),
    ("lt_rev", "{a} < (relative heading of other)"),
    ("chain", "{lo} <= (relative heading of other) <= {hi}"),
    ("abs", "abs(relative heading of other) < {w}"),
    ("abs_sub", "abs((relative heading of other) - {m}) < {w}"),
    ("abs_rsub", "abs({m} - (relative heading of other)) <= {w}"),
    ("abs_add", "abs((relative heading of other) + {m}) < {w}"),
    ("neq", "(relative heading of other) != {a}"),
]


def gen_relhead(rng):
    k = rng.randint(2, 4)
    L = []
    z = rng.choice([0, 0, 0, rng.uniform(1, 6)])
    zs = f", z={_f(z)}" if z else ""
    x = rng.uniform(-30, 0)
    cells = []
    near_pi = rng.random() < 0.45
    for i in range(k):
        w, h = rng.uniform(6, 12), rng.uniform(6, 12)
        gap = rng.uniform(0, 12)
        y0 = rng.uniform(-3, 3)
        pts = [(x, y0), (x + w, y0), (x + w, y0 + h), (x, y0 + h)]
        if near_pi:
            hd = rng.choice([1, -1]) * (math.pi - rng.uniform(0.02, 0.5))
        else:
            hd = rng.uniform(-math.pi, math.pi)
        cells.append((pts, hd))
        L.append(f"r{i} = PolygonalRegion({_poly_pts(pts)}{zs})")
        x += w + gap
    L.append("vf = PolygonalVectorField('F', [" + ", ".join(f"[r{i}.polygons, {_f(hd)}]" for i, (_, hd) in enumerate(cells)) + "])")
    if z:
        # Region.union of polygons does not keep z (C16); build the union polygon explicitly at height z
        L.insert(0, "import shapely.ops")
        L.append("union = PolygonalRegion(polygon=shapely.ops.unary_union([" + ", ".join(f"r{i}.polygons" for i in range(k)) + f"]), z={_f(z)})")
    else:
        L.append("union = r0" + "".join(f".union(r{i})" for i in range(1, k)))
    noise = rng.random() < 0.1
    nz = rng.uniform(0.05, 0.4)
    face_e = f"facing Range(-{_f(nz)}, {_f(nz)}) relative to vf" if noise else "facing vf"
    face_o = "facing vf"
    vis = rng.choice(["dist", "dist", "dist", "requireVisible", "visible_from"])
    hds = [hd for _, hd in cells]
    ci, cj = rng.randrange(k), rng.randrange(k)  # ego in cell ci, other in cell cj satisfies the requirement
    (pi_, _), (pj_, _) = cells[ci], cells[cj]
    gap_ij = max(0.0, max(pj_[0][0] - pi_[1][0], pi_[0][0] - pj_[1][0]))  # distance between the two cells
    vd = gap_ij + rng.uniform(6, 25)
    ego = f"ego = new Object in union, {face_e}, with allowCollisions True"
    oth = f"other = new Object in union, {face_o}, with allowCollisions True"
    if vis == "requireVisible":
        ego += f", with visibleDistance {_f(vd)}, with viewRayDensity 0.5"
        oth += ", with requireVisible True"
    elif vis == "visible_from":
        ego += f", with visibleDistance {_f(vd)}, with viewRayDensity 0.5"
        oth += ", visible from ego"
    L.append(ego)
    L.append(oth)
    # relative heading requirement
    name, form = rng.choice(RH_FORMS)
    d0 = hds[cj] - hds[ci]
    d0 = (d0 + math.pi) % (2 * math.pi) - math.pi
    w = rng.uniform(0.25, 1.2) + (nz if noise else 0)
    if name in ("ge", "lt_rev"):
        a = d0 - rng.uniform(0.05, 0.6) - (nz if noise else 0)
    elif name == "le":
        a = d0 + rng.uniform(0.05, 0.6) + (nz if noise else 0)
    else:
        a = d0 + rng.uniform(-0.15, 0.15)
    if name in ("abs",):
        w = abs(d0) + rng.uniform(0.1, 0.6) + (nz if noise else 0)
        if w >= math.pi - 0.05:  # would be a trivial bound: centre the window on d0 instead
            name, form = "abs_sub", "abs((relative heading of other) - {m}) < {w}"
            w = rng.uniform(0.25, 1.2) + (nz if noise else 0)
    text = form.format(a=_f(a), lo=_f(a - w), hi=_f(a + w), w=_f(w), m=_f(d0 if "add" not in name else -d0))
    L.append(f"require {text}")
    dname = None
    if vis in ("dist",):
        dname, dform, _ = rng.choice(DIST_FORMS)
        c = gap_ij + rng.uniform(4, 25)
        lo = rng.uniform(0.5, max(1.0, gap_ij * 0.8 + 1))
        L.append("require " + dform.format(c=_f(c), lo=_f(lo), m=_f((c + lo) / 2), h=_f((c - lo) / 2), cplus=_f(c + lo), small=_f(rng.uniform(2, 9))))
        if dname in ("neq", "neq_rev", "from_ego", "lower_only") and rng.random() < 0.5:
            # a genuine upper bound as well, so that relative-heading pruning has something to work with
            c2 = rng.uniform(15, 45)
            L.append(f"require (distance to other) <= {_f(c2)}")
            dname += "+le"
    third = False
    if rng.random() < 0.4:
        # a third object with a much tighter distance bound than the one on `other`: bounds on different targets
        # must not be mixed up when the cells of `other` are buffered
        third = True
        L.append("third = new Object in union, facing vf, with allowCollisions True")
        L.append(f"require (distance to third) <= {_f(rng.uniform(5, 12))}")
    return "\n".join(L) + "\n", {"family": "relhead", "rh_form": name, "dist_form": dname, "vis": vis, "z": bool(z), "near_pi": near_pi, "noise": noise, "third": third}


def gen_visibility(rng):
    L = []
    small = rng.random() < 0.3
    ws = rng.uniform(6, 10) if small else rng.uniform(20, 45)
    L.append(f"workspace = Workspace(RectangularRegion(0@0, 0, {_f(ws)}, {_f(ws)}))")
    vd = rng.uniform(0.8, 2.0) if small else rng.uniform(4, 12)
    random_ego = rng.random() < 0.25
    # a low ray density keeps the (irrelevant here) ray casting of the visibility requirements cheap
    espec = [f"with visibleDistance {_f(vd)}", "with allowCollisions True", "with viewRayDensity 0.5"]
    if rng.random() < 0.5:
        espec.append(f"with viewAngles ({_f(rng.uniform(0.5, 6.28))}, {_f(rng.uniform(0.5, 3.14))})")
    if rng.random() < 0.3:
        espec.append(f"with cameraOffset ({_f(rng.uniform(-1, 1))}, {_f(rng.uniform(-1, 1))}, 0)")
    if rng.random() < 0.5:
        espec.append(f"facing {_f(rng.uniform(-3, 3))}")
    if random_ego:
        L.append("ego = new Object in workspace, " + ", ".join(espec))
    else:
        L.append(f"ego = new Object at ({_f(rng.uniform(-ws / 4, ws / 4))}, {_f(rng.uniform(-ws / 4, ws / 4))}, 0), " + ", ".join(espec))
    how = rng.choice(["requireVisible", "visible", "visible_from", "on_requireVisible"])
    size = rng.uniform(1.0, 2.0) if small else rng.uniform(0.5, 3.0)
    fspec = [f"with width {_f(size)}", f"with length {_f(size * rng.uniform(0.6, 1))}", f"with height {_f(size * rng.uniform(0.6, 1))}", "with allowCollisions True"]
    if rng.random() < 0.3:
        fspec.append("with shape SpheroidShape()")
    if how == "requireVisible":
        L.append("foo = new Object in workspace, with requireVisible True, " + ", ".join(fspec))
    elif how == "on_requireVisible":
        L.append("foo = new Object on workspace, with requireVisible True, " + ", ".join(fspec))
    elif how == "visible":
        L.append("foo = new Object in workspace, visible, " + ", ".join(fspec))
    else:
        if not small:
            L.append(f"obs = new Object at ({_f(rng.uniform(-ws / 4, ws / 4))}, {_f(rng.uniform(-ws / 4, ws / 4))}, 0), with visibleDistance {_f(rng.uniform(4, 10))}, with viewRayDensity 0.5, with allowCollisions True, with requireVisible False")
            L.append("foo = new Object in workspace, visible from obs, with requireVisible False, " + ", ".join(fspec))
        else:
            L.append("foo = new Object in workspace, visible from ego, with requireVisible False, " + ", ".join(fspec))
    return "\n".join(L) + "\n", {"family": "visibility", "how": how, "small": small, "random_ego": random_ego}


def gen_termination_probe(rng):
    """Tight rotated cubic containers: the voxel grid of the container is sometimes not a manifold, in which
    case pruneContainment retries the same erosion. The first parameter set is a concrete reproducer."""
    if rng.random() < 0.5:
        s, e, r = 2.5345, (0.648957, 0.157897, 0.714824), 2.45
    else:
        s = rng.uniform(2.0, 5.0)
        e = (rng.uniform(0, 1.5), rng.uniform(0, 1.0), rng.uniform(0, 1.0))
        r = s * rng.uniform(0.93, 0.99)
    es = f"({_f(e[0]) if False else repr(e[0])}, {repr(e[1])}, {repr(e[2])})"
    src = (
        f"workspace = Workspace(BoxRegion(dimensions=({s!r}, {s!r}, {s!r}), position=(1, 2, 3), rotation=Orientation.fromEuler{es}))\n"
        f"ego = new Object in workspace, with width {r!r}, with length {r!r}, with height {r!r}, facing {es}\n"
    )
    return src, {"family": "termination_probe", "variant": "tight_rotated_cube"}


FAMILIES = [("contain_poly", gen_contain_poly, 0.32), ("contain_mesh", gen_contain_mesh, 0.10), ("relhead", gen_relhead, 0.36), ("visibility", gen_visibility, 0.17), ("termination_probe", gen_termination_probe, 0.05)]


ROTATION = ["contain_poly", "relhead", "visibility", "relhead", "contain_poly", "relhead", "contain_mesh", "visibility", "contain_poly", "termination_probe"]


def gen_program(rng, index=None):
    if index is not None:  # stratified: every shard sees every family
        fam = ROTATION[index % len(ROTATION)]
        return dict((n, f) for n, f, _ in FAMILIES)[fam](rng)
    u = rng.random()
    acc = 0.0
    for name, fn, p in FAMILIES:
        acc += p
        if u < acc:
            return fn(rng)
    return FAMILIES[0][1](rng)


# ---------------------------------------------------------------------------------------------------------
# monitors


class LoopDetected(BaseException):
    pass


class _Monitors:
    """Hooks installed once per shard process."""

    def __init__(self):
        self.cond_log = []  # (pruner, obj)
        self.calls = {}
        self.last_sample = None
        self.installed = False

    def install(self):
        if self.installed:
            return
        self.installed = True
        from scenic.core import distributions, regions

        mon = self
        orig_cond = distributions.Samplable.conditionTo

        def conditionTo(self_, value):
            fr = sys._getframe(1)
            name = fr.f_code.co_name
            mon.cond_log.append((name, fr.f_locals.get("obj"), self_))
            return orig_cond(self_, value)

        distributions.Samplable.conditionTo = conditionTo

        orig_all = distributions.Samplable.sampleAll

        def sampleAll(quantities):
            s = orig_all(quantities)
            mon.last_sample = s
            return s

        distributions.Samplable.sampleAll = staticmethod(sampleAll)

        def caller_obj():
            fr = sys._getframe(2)
            depth = 0
            while fr is not None and depth < 12:
                if fr.f_code.co_name in ("pruneContainment", "pruneVisibility"):
                    return fr.f_code.co_name, id(fr.f_locals.get("obj"))
                fr = fr.f_back
                depth += 1
            return None, None

        def wrap(name):
            orig = getattr(regions.MeshVolumeRegion, name)

            def wrapper(self_, amount, pitch):
                who, oid = caller_obj()
                if who is not None:
                    key = (name, who, oid, id(self_), repr(amount), repr(pitch))
                    mon.calls[key] = mon.calls.get(key, 0) + 1
                    if mon.calls[key] >= 3:
                        raise LoopDetected(f"{name}({amount!r}, {pitch!r}) called {mon.calls[key]} times with identical arguments for the same object inside {who}")
                return orig(self_, amount, pitch)

            setattr(regions.MeshVolumeRegion, name, wrapper)

        wrap("_erodeOverapproximate")
        wrap("_bufferOverapproximate")


MON = _Monitors()


def match_in_region(pos):
    """(region, offset, pir) — observer of the position's structure (mirrors what can be conditioned)."""
    from scenic.core import regions
    from scenic.core.vectors import VectorOperatorDistribution
    from scenic.core.workspaces import Workspace

    def unpack(r):
        return r.region if isinstance(r, Workspace) else r

    if isinstance(pos, regions.PointInRegionDistribution):
        return unpack(pos.region), None, pos
    if isinstance(pos, VectorOperatorDistribution) and pos.operator in ("__add__", "__radd__") and isinstance(pos.object, regions.PointInRegionDistribution):
        return unpack(pos.object.region), pos.operands[0], pos.object
    return None, None, None


def compile_pair(src):
    from rt import su
    import scenic.syntax.translator as tr

    out = {}
    for flag in (False, True):
        tr.usePruning = flag
        MON.cond_log = []
        MON.calls = {}
        try:
            sc = su.compile_scenic(src)
            out[flag] = ("ok", sc, list(MON.cond_log))
        except LoopDetected as e:
            out[flag] = ("loop", str(e), [])
        except Exception as e:  # noqa
            out[flag] = ("error", e, [])
        finally:
            tr.usePruning = True
    return out


def region_contains(reg, pt, tol_poly=1e-6, tol_mesh=1e-3):
    """True / False / None(near the boundary or undecidable) for a *fixed* region."""
    import shapely.geometry
    from scenic.core import regions
    from scenic.core.distributions import needsSampling
    from scenic.core.vectors import Vector

    if needsSampling(reg):
        return None, "random-region"
    if isinstance(reg, regions.PolygonalRegion):
        p = shapely.geometry.Point(pt[0], pt[1])
        polys = reg.polygons
        if polys.buffer(-tol_poly * 10).contains(p):
            return True, "shapely"
        if not polys.buffer(tol_poly * 10).contains(p):
            return False, "shapely"
        return None, "near-boundary"
    v = Vector(*pt)
    try:
        if reg.containsPoint(v):
            return True, "containsPoint"
        d = reg.distanceTo(v)
    except NotImplementedError:
        return None, "no-distance"
    if d > tol_mesh:
        return False, "containsPoint+distanceTo"
    return None, "near-boundary"


def scene_wraps(scenario_objs, idx, scene):
    """True if, for the relative-heading relation stored on object idx, the accepted scene satisfies the bounds
    only after normalisation: target.heading - obj.heading lies outside [lower, upper] while its normalised value
    lies inside (the mechanism of the range-not-normalised defect)."""
    from scenic.syntax.relations import RelativeHeadingRelation

    found = False
    for rel in getattr(scenario_objs[idx], "_relations", ()):
        if not isinstance(rel, RelativeHeadingRelation):
            continue
        try:
            tj = next(j for j, o in enumerate(scenario_objs) if o is rel.target)
        except StopIteration:
            continue
        raw = scene.objects[tj].heading - scene.objects[idx].heading
        norm = (raw + math.pi) % (2 * math.pi) - math.pi
        eps = 1e-9
        if rel.lower - eps <= norm <= rel.upper + eps and not (rel.lower <= raw <= rel.upper):
            found = True
    return found


def walk_conditioned(scenario):
    """All Samplables reachable from the scenario whose _conditioned differs from themselves."""
    from scenic.core.distributions import Samplable

    seen = set()
    out = []
    stack = list(scenario.dependencies)
    while stack:
        x = stack.pop()
        if id(x) in seen or not isinstance(x, Samplable):
            continue
        seen.add(id(x))
        if x._conditioned is not x:
            out.append(x)
            stack.extend(x._conditioned._dependencies)
        stack.extend(x._dependencies)
    return out


# ---------------------------------------------------------------------------------------------------------


def classify(meta, what_kind, extra=None):
    fam = meta.get("family")
    extra = extra or {}
    if what_kind == "loop":
        return KEY_LOOP if "_erodeOverapproximate" in extra.get("msg", "") else None
    if what_kind == "z":
        if fam == "relhead" and "pruneRelativeHeading" in extra.get("pruners", ()):
            return KEY_Z_RH
        if "pruneContainment" in extra.get("pruners", ()):
            return KEY_Z_CONT
    if what_kind == "overpruned":
        pr = extra.get("pruners", ())
        if extra.get("invisible") and "pruneVisibility" in pr:
            return KEY_C17
        if fam == "relhead" and "pruneRelativeHeading" in pr:
            if extra.get("neq_cause"):
                return KEY_NEQ
            if extra.get("rh_wrap"):
                return KEY_RH_WRAP
        if fam == "visibility" and "pruneVisibility" in pr and extra.get("within_buffer"):
            return KEY_UNDERBUF
    if what_kind == "prune_error":
        msg = extra.get("msg", "")
        if fam == "relhead" and extra.get("in_rh_pruner") and extra.get("neq_cause"):
            return KEY_NEQ
        if fam == "relhead" and msg.startswith("AssertionError") and extra.get("all_wrap") and extra.get("in_rh_pruner"):
            return KEY_RH_WRAP
    return None


def run_program(src, meta, ctx, tier, seed):
    from rt import su
    from scenic.core.distributions import RejectionException, needsSampling
    from scenic.core.errors import InvalidScenarioError

    n_u = 60 if tier == "quick" else 120
    n_p = 30 if tier == "quick" else 60
    it_budget = 30000 if tier == "quick" else 80000
    bump, skip = ctx.bump, ctx.skip
    pair = compile_pair(src)
    bump("programs")
    bump("family_" + meta["family"])
    stU, U, _ = pair[False]
    stP, P, condlog = pair[True]
    wit = {"program": src, "meta": meta, "seed": seed}
    if stU != "ok":
        # the generator produced a program the front end rejects even without pruning: not a pruning matter
        skip("unpruned_compile_" + type(U).__name__ if stU == "error" else "unpruned_loop")
        return
    if stP == "loop":
        bump("loop_detected")
        ctx.violation(classify(meta, "loop", {"msg": P}), f"termination: {P}", wit)
        return
    if meta["family"] == "termination_probe":
        it_budget = 400
    # ---- sample the unpruned program
    su.seed_all(seed)
    accepted_U = []
    its = 0
    while len(accepted_U) < n_u and its < it_budget:
        try:
            scene, k = U.generate(maxIterations=min(2000, it_budget - its), verbosity=0)
        except RejectionException:
            its += min(2000, it_budget - its)
            if its >= 6000 and not accepted_U:
                break
            continue
        except Exception as e:  # the unpruned program itself cannot be sampled: not a pruning matter
            skip("unpruned_sampling_" + type(e).__name__)
            return
        its += k
        s = MON.last_sample
        accepted_U.append((scene, s))
        if its > 6000 and len(accepted_U) * 400 < its:
            break  # acceptance below 1/400: not worth the budget
    bump("unpruned_iterations", its)
    bump("unpruned_accepted_scenes", len(accepted_U))
    satisfiable = len(accepted_U) > 0
    if stP == "error":
        e = P
        if not satisfiable:
            skip("pruned_compile_error_unsat_" + type(e).__name__)
            return
        kind = "InvalidScenarioError" if isinstance(e, InvalidScenarioError) else type(e).__name__
        bump("prune_errors")
        import traceback

        names = [fr.name for fr in traceback.extract_tb(e.__traceback__)]
        all_wrap = len(accepted_U) > 0 and all(len(sc_.objects) >= 2 and scene_wraps(U.objects, 0, sc_) for sc_, _ in accepted_U)
        neq_cause = False
        if "!=" in src:
            src2 = "\n".join(l for l in src.split("\n") if "!=" not in l) + "\n"
            neq_cause = compile_pair(src2)[True][0] == "ok"
        ctx.violation(
            classify(meta, "prune_error", {"msg": f"{type(e).__name__}: {e}", "all_wrap": all_wrap, "in_rh_pruner": "pruneRelativeHeading" in names, "neq_cause": neq_cause}),
            f"pruned compile raised {kind}: {str(e)[:160]} although the unpruned program produced {len(accepted_U)} accepted scenes in {its} iterations",
            wit,
        )
        return
    # ---- which pruners fired
    pruners = sorted(set(name for name, _, _ in condlog))
    for name in pruners:
        bump("fired_" + name)
    objsU, objsP = U.objects, P.objects
    if len(objsU) != len(objsP):
        ctx.violation(None, "pruned and unpruned scenario have different numbers of objects", wit)
        return
    # ---- non-positional properties untouched
    changed = walk_conditioned(P)
    pos_ids = {id(o.position) for o in objsP}
    for x in changed:
        if id(x) not in pos_ids:
            ctx.violation(None, f"pruning conditioned a value that is not an object's position: {type(x).__name__}", wit)
    for oU, oP in zip(objsU, objsP):
        bump("property_objects_checked")
        for prop in sorted(oP.properties):
            if prop == "position":
                continue
            vU, vP = getattr(oU, prop), getattr(oP, prop)
            if type(vU) is not type(vP):
                ctx.violation(None, f"property {prop} has a different type after pruning: {type(vU).__name__} vs {type(vP).__name__}", wit)
            elif not needsSampling(vU) and isinstance(vU, (int, float, str, bool, tuple)) and vU != vP:
                ctx.violation(None, f"constant property {prop} changed by pruning: {vU!r} vs {vP!r}", wit)
    # ---- per object position analysis
    any_pruned = False
    nontrivial = False
    for idx, (oU, oP) in enumerate(zip(objsU, objsP)):
        posU, posP = oU.position, oP.position
        condP = getattr(posP, "_conditioned", posP)
        if condP is posP:
            continue
        any_pruned = True
        bump("pruned_positions")
        baseU, offU, pirU = match_in_region(posU)
        regP, offP, pirP = match_in_region(condP)
        who = sorted(set(name for name, _, target in condlog if target is posP))
        if baseU is None or regP is None:
            ctx.violation(None, f"object {idx}: conditioned position has an unexpected structure ({type(condP).__name__})", wit)
            continue
        frac = None
        try:
            if not needsSampling(regP) and not needsSampling(baseU) and baseU.dimensionality == regP.dimensionality:
                frac = 1.0 - regP.size / baseU.size
        except Exception:
            frac = None
        if frac is not None:
            bump("pruned_fraction_pct_sum", int(round(100 * max(frac, 0))))
            if frac > 0.001:
                nontrivial = True
                for name in who:
                    bump("productive_" + name)
            if frac < -1e-6:
                ctx.violation(None, f"object {idx}: pruned region is larger than the base region (ratio {1 - frac:.4f}) after {who}", wit)
        else:
            nontrivial = True
            skip("fraction-unknown")
        # (1) accepted unpruned scenes stay generable
        nbad = 0
        bad_pts = []
        wraps = []
        for scene, s in accepted_U:
            b = s[pirU]
            ans, how = region_contains(regP, (b.x, b.y, b.z))
            if ans is None:
                skip("membership_" + how)
                continue
            bump("membership_checks")
            if ans is False:
                nbad += 1
                bad_pts.append((b.x, b.y, b.z))
                if nbad == 1:
                    first_bad = (b.x, b.y, b.z)
                if meta.get("family") == "relhead" and len(scene.objects) >= 2:
                    wraps.append(scene_wraps(objsU, idx, scene))
        if nbad:
            rh_wrap = bool(wraps) and all(wraps)
            neq_cause = False
            if "!=" in src:
                # a != on a continuous quantity is almost surely true: dropping the line leaves the scenario unchanged
                src2 = "\n".join(l for l in src.split("\n") if "!=" not in l) + "\n"
                pair2 = compile_pair(src2)
                if pair2[True][0] == "ok":
                    o2 = pair2[True][1].objects[idx]
                    c2 = getattr(o2.position, "_conditioned", o2.position)
                    reg2 = match_in_region(c2)[0]
                    neq_cause = reg2 is not None and all(region_contains(reg2, bp)[0] is not False for bp in bad_pts)
            within_buffer = False
            invisible = False
            if "pruneVisibility" in who:
                # Are the bad scenes ones in which the object lies wholly outside the observer's exact view volume
                # (bounding sphere test of the independent C17 oracle)?  Then the unpruned program accepted a scene
                # whose visibility requirement is false (canSee defect, property C17), and pruning is not to blame.
                try:
                    from rt import visoracle as VO

                    observer = oP._observingEntity or P.egoObject
                    Rm = VO.rot(float(observer.yaw), float(observer.pitch), float(observer.roll))
                    po = observer.parentOrientation
                    Rm = VO.rot(float(po.yaw), float(po.pitch), float(po.roll)) @ Rm
                    vw = VO.Viewer([observer.position.x, observer.position.y, observer.position.z], Rm, list(observer.cameraOffset), float(observer.visibleDistance), float(observer.viewAngles[0]), float(observer.viewAngles[1]))
                    offv = offP if offP is not None else (0, 0, 0)
                    invisible = all(VO.sphere_outside(vw, (bp[0] + offv[0], bp[1] + offv[1], bp[2] + offv[2]), float(oP.radius)) for bp in bad_pts)
                except Exception:
                    invisible = False
            if meta.get("family") == "visibility" and "pruneVisibility" in who and not invisible:
                # every bad point is closer to the observer than visibleDistance + |cameraOffset| + radius (+ offset):
                # it belongs to the exact buffered view region, so the approximate buffer was too small
                try:
                    observer = oP._observingEntity or P.egoObject
                    lim = float(observer.visibleDistance) + float(observer.cameraOffset.norm()) + float(oP.radius)
                    op_ = observer.position
                    within_buffer = all(math.dist(bp, (op_.x, op_.y, op_.z)) <= lim for bp in bad_pts)
                except Exception:
                    within_buffer = False
            key = classify(meta, "overpruned", {"pruners": who, "rh_wrap": rh_wrap, "neq_cause": neq_cause, "within_buffer": within_buffer, "invisible": invisible})
            ctx.violation(
                key,
                f"over-pruned: {nbad}/{len(accepted_U)} scenes accepted without pruning have object {idx}'s base point outside the pruned sampling region (first: {tuple(round(c, 3) for c in first_bad)}); pruners on this object: {who}; meta={meta}",
                wit,
            )
        # (2) pruned draws lie in the original base region
        if not needsSampling(baseU):
            zbase = getattr(baseU, "z", None)
            nz = 0
            nout = 0
            draws = 0
            for _ in range(n_p):
                try:
                    b = pirP.sample()
                except RejectionException:
                    skip("pruned_draw_rejected")
                    continue
                draws += 1
                ans, how = region_contains(baseU, (b.x, b.y, b.z))
                if ans is None:
                    skip("pruned_draw_" + how)
                else:
                    bump("pruned_draw_checks")
                    if ans is False:
                        nout += 1
                from scenic.core import regions as _R

                if isinstance(baseU, _R.PolygonalRegion) and zbase is not None and abs(b.z - zbase) > 1e-9:
                    nz += 1
            if nout:
                ctx.violation(None, f"new scenes: {nout}/{draws} draws of object {idx}'s pruned position lie outside the original base region; pruners: {who}", wit)
            if nz:
                ctx.violation(
                    classify(meta, "z", {"pruners": who}),
                    f"new scenes: {nz}/{draws} draws of object {idx}'s pruned position have z != {zbase} (the base polygon's z); pruners: {who}",
                    wit,
                )
    if any_pruned:
        bump("pruned_programs")
    else:
        bump("nothing_pruned")
    # ---- the pruned program still generates scenes
    if satisfiable:
        su.seed_all(seed + 1)
        got = 0
        its_p = 0
        budget_p = max(2000, int(2.0 * its * (10 / max(len(accepted_U), 1))))
        try:
            for _ in range(10):
                scene, k = P.generate(maxIterations=budget_p, verbosity=0)
                its_p += k
                got += 1
        except RejectionException:
            pass
        except Exception as e:
            ctx.violation(None, f"pruned program failed while sampling: {type(e).__name__}: {str(e)[:150]}", wit)
            return
        bump("pruned_accepted_scenes", got)
        bump("pruned_iterations", its_p)
        if got == 0 and len(accepted_U) >= 20:
            ctx.violation(None, f"pruned program produced no scene in {budget_p} iterations although the unpruned one accepted {len(accepted_U)} in {its}", wit)
    else:
        skip("unpruned_no_accepted_scene")
    if any_pruned and nontrivial and satisfiable:
        ctx.res["nontrivial"].append(su.h(src))
    bump("form_" + meta["family"] + "_" + str(meta.get("variant") or meta.get("how") or meta.get("dist_form") or meta.get("vis")))
    if meta["family"] == "relhead":
        bump("rhform_" + meta["rh_form"])


class _Ctx:
    def __init__(self):
        self.res = {"evaluations": 0, "nontrivial": [], "counters": {}, "samples": [], "violations": [], "skipped": {}}
        self.sigs = {}

    def bump(self, k, n=1):
        c = self.res["counters"]
        c[k] = c.get(k, 0) + n

    def skip(self, k, n=1):
        c = self.res["skipped"]
        c[k] = c.get(k, 0) + n

    def violation(self, key, what, witness):
        self.bump("disagreements")
        sig = key or what.split(":")[0]
        self.sigs[sig] = self.sigs.get(sig, 0) + 1
        if self.sigs[sig] > 4 or len(self.res["violations"]) >= 100:
            return
        self.res["violations"].append({"key": key, "what": what[:700], "witness": witness})


def plan(tier, seed):
    n = 16 if tier == "quick" else 64
    per = 5 if tier == "quick" else 10
    return [{"shard": i, "programs": per, "timeout": 900 if tier == "quick" else 2400} for i in range(n)]


def run_shard(spec):
    MON.install()
    rng = random.Random(spec["seed"] * 1000003 + spec["shard"] * 7919 + 8)
    ctx = _Ctx()
    for k in range(spec["programs"]):
        src, meta = gen_program(rng, index=spec["shard"] * 3 + k)
        ctx.res["evaluations"] += 1
        run_program(src, meta, ctx, spec["tier"], spec["seed"] * 131 + spec["shard"] * 17 + k)
        if len(ctx.res["samples"]) < 2:
            ctx.res["samples"].append({"program": src, "meta": meta})
    ctx.res["nontrivial"] = sorted(set(ctx.res["nontrivial"]))
    return ctx.res


def replay(w):
    MON.install()
    ctx = _Ctx()
    run_program(w["program"], w["meta"], ctx, "quick", w.get("seed", 0))
    return ctx.res["violations"]


MANIFEST_ENTRY = {
    "technique": "runtime monitoring: differential observation of two executions of the real compiler (usePruning False/True) with hooks on Samplable.conditionTo / sampleAll and a logical loop detector on the voxel erosion/buffer retries",
    "text": "Generated programs exercising each pruner (containment in polygonal and mesh workspaces/containers, relative heading over polygonal vector fields with distance bounds in every form the requirement matcher recognises, visibility) are compiled unpruned and pruned in one process. Every scene accepted by the unpruned program must have its base point in the pruned sampling region; pruned draws must lie in the original base region including its z; pruning must not raise for a scenario that produced accepted scenes, must not condition anything but positions and must not retry an identical voxel erosion. Bounded exploration: held on the programs and samples driven.",
    "note": "The unpruned program is the reference. Membership uses shapely on the pruned polygons (independent of Scenic's containsPoint) or the mesh region's own containsPoint/distanceTo with a 1e-3 margin. Programs whose pruned region depends on random values of other objects are only checked on the pruned side. Wall-clock watchdog = inconclusive.",
}
