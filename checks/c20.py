"""C20 — road networks are internally consistent for every map, cached or parsed.

Invariant-at-a-hook + differential observation (parsed vs cached): every non-empty .xodr under
/repo/assets/maps (and mutated variants) is copied to a scratch directory, loaded through the real
Network.fromFile with several option sets, and the resulting network is checked against independent
invariant checkers (rt/c20lib): lookups vs a brute-force distance oracle, children inside parents, drivable
area covered, reciprocal links, traffic direction tangent to lane centrelines; the network loaded from the
cache must have the same canonical dump as the parsed one, and a monitor on Network.fromPickle /
fromOpenDrive decides which path produced each result (cache used when map + options are unchanged,
ignored when either changed).
"""

import glob
import os
import random
import re
import shutil
import tempfile

PROPERTY = "C20"
LEVEL = "exploration"
RULE = (
    "every non-empty .xodr under /repo/assets/maps (quick: all maps below 1 MB except Issue295a, incl. Town01 and "
    "Town02; thorough: all of them) x parser option sets (default; tolerance 0.1; fill_gaps off; "
    "fill_intersections off; elide_short_roads on; ref_points 10 -- quick: default everywhere plus one "
    "rotating variant on the small maps), plus mutated variants of small maps (all lane widths scaled by "
    "1.15, first lane-level successor link removed, trailing comment); per network: all elements for "
    "linkage/containment, N random points (uniform in the drivable region, in random elements of every class, "
    "in the tolerance shell) for lookups and N lane points for tangency; per map the cache protocol: "
    "parse+write, load from cache, reload with changed option, with changed bytes, with useCache=False. "
    "A network is non-trivial when it has at least one lane and its lookup, linkage and tangent invariants "
    "were all evaluated; distinct = distinct (map, variant, options)."
)
ASSUMPTIONS = [
    "shapely distance/contains/difference on the elements' polygons is the trusted geometric base (brute force over all elements of a class, no R-tree)",
    "containment of a child in its parent is three-valued: deviation <= tolerance holds, > 2 x tolerance fails, in between is counted as undecided (both polygons went through buffer(+-tolerance) smoothing in the parser)",
    "lane-level successor/predecessor reciprocity is decided only where the map declares both directions (OpenDRIVE lane links may be one-sided; the parser transcribes them)",
    "an incoming lane whose connecting lane has no successor lane (the parser warns about the map) legitimately carries a dummy STRAIGHT maneuver outside intersection.maneuvers",
    "tangency is decided only for points whose nearest centreline point is strictly inside one segment (0.02 < t < 0.98) and >= 1 mm closer than any other segment; roadDirection only for lanes of ordinary roads where exactly one lane, exactly one road and no intersection or shoulder is within tolerance",
    "lookup completeness is undecided for elements between 0.995 x tolerance and tolerance (the real tolerant pass intersects a polygonal approximation of the disc)",
    "the canonical dump covers every attribute in the elements' and network's __dict__ except region caches, the R-tree and the weak back-reference to the network",
]
MIN_COUNTERS = {
    "quick": {
        "networks_built": 20,
        "maps": 12,
        "cache_loads_compared": 12,
        "cache_path_decisions": 150,
        "cache_used_when_unchanged": 12,
        "cache_decision_bytes-changed": 20,
        "cache_decision_option-changed": 12,
        "cache_decision_option-value-changed": 4,
        "inv_link": 40000,
        "inv_lookup": 80000,
        "inv_tangent": 8000,
        "inv_containment": 3000,
        "inv_coverage": 8000,
        "networks_with_intersections": 5,
    },
    "thorough": {
        "networks_built": 100,
        "maps": 17,
        "cache_loads_compared": 17,
        "cache_path_decisions": 300,
        "cache_used_when_unchanged": 17,
        "cache_decision_bytes-changed": 34,
        "cache_decision_option-changed": 17,
        "cache_decision_option-value-changed": 8,
        "inv_link": 500000,
        "inv_lookup": 300000,
        "inv_tangent": 20000,
        "inv_containment": 50000,
        "inv_coverage": 30000,
        "networks_with_intersections": 40,
    },
}

MAPS_DIR = os.path.join(os.environ.get("VERIF_REPO", "/repo"), "assets", "maps")
BIG = 1_000_000  # bytes
OPTION_SETS = [
    ("default", {}),
    ("tolerance0.1", {"tolerance": 0.1}),
    ("nofillgaps", {"fill_gaps": False}),
    ("nofillintersections", {"fill_intersections": False}),
    ("elide", {"elide_short_roads": True}),
    ("refpoints10", {"ref_points": 10}),
]
MUTATIONS = ("widths", "droplink", "comment")


def all_maps():
    out = []
    for p in sorted(glob.glob(os.path.join(MAPS_DIR, "**", "*.xodr"), recursive=True)):
        if os.path.getsize(p) > 0:
            out.append(os.path.relpath(p, MAPS_DIR))
    return out


def _cost(rel):
    size = os.path.getsize(os.path.join(MAPS_DIR, rel))
    if "Issue295a" in rel:
        return 60
    if "Town04" in rel or "Town06" in rel:
        return 60
    return 1 + size / 150_000


def plan(tier, seed):
    maps = all_maps()
    only = os.environ.get("VERIF_C20_ONLY")  # development aid: regex restricting the maps (evidence will be INCONCLUSIVE)
    if only:
        maps = [m for m in maps if re.search(only, m)]
    units = []
    rng = random.Random(seed)
    for i, rel in enumerate(maps):
        size = os.path.getsize(os.path.join(MAPS_DIR, rel))
        heavy = size > BIG or "Issue295a" in rel
        if tier == "quick":
            if heavy:
                continue
            units.append({"map": rel, "opts": "default", "cache": True, "cost": 3 * _cost(rel)})
            if size < 300_000:
                o = OPTION_SETS[1 + (i + seed) % (len(OPTION_SETS) - 1)][0]
                units.append({"map": rel, "opts": o, "cache": True, "cost": 1.5 * _cost(rel)})
                m = MUTATIONS[(i + seed) % len(MUTATIONS)]
                units.append({"map": rel, "opts": "default", "cache": False, "mutation": m, "cost": _cost(rel)})
        else:
            for j, (o, _) in enumerate(OPTION_SETS):
                units.append({"map": rel, "opts": o, "cache": j == 0 or (not heavy and j == 1), "cost": _cost(rel) * (3 if j == 0 else 1)})
            if size < 300_000:
                for m in MUTATIONS:
                    units.append({"map": rel, "opts": "default", "cache": False, "mutation": m, "cost": _cost(rel)})
    # greedy balancing into shards
    nsh = 8 if tier == "quick" else 32
    units.sort(key=lambda u: -u["cost"])
    shards = [{"units": [], "load": 0.0} for _ in range(nsh)]
    for u in units:
        s = min(shards, key=lambda s: s["load"])
        s["units"].append(u)
        s["load"] += u["cost"]
    out = []
    for i, s in enumerate(x for x in shards if x["units"]):
        out.append({"shard": i, "units": s["units"], "timeout": 1500 if tier == "quick" else 3400})
    return out


def mutate_map(text, kind):
    """returns (new text, description) or None if the mutation does not apply"""
    if kind == "comment":
        return text + "\n<!-- trailing comment -->\n", "trailing comment"
    if kind == "widths":
        n = 0

        def rep(m):
            nonlocal n
            n += 1
            return f'{m.group(1)}{float(m.group(2)) * 1.15!r}{m.group(3)}'

        new = re.sub(r'(<width\b[^>]*?\ba=")([^"]+)(")', rep, text)
        return (new, f"{n} lane widths scaled by 1.15") if n else None
    if kind == "droplink":
        m = re.search(r'<lane\b[^>]*type="driving"[^>]*>\s*<link>\s*(<predecessor[^>]*/>\s*)?(<successor[^>]*/>)', text)
        if not m:
            return None
        a, b = m.span(2)
        return text[:a] + text[b:], "first lane-level successor link of a driving lane removed"
    return None


class _Stop(Exception):
    """raised by the probing monitor instead of parsing"""


def classify(inv, uid, detail, net):
    """mechanism key for a failed invariant, or None"""
    if inv in ("link.intersection-road-reciprocal",):
        # roads adjacent to the junction whose OpenDRIVE id is 0 never get their road<->intersection links
        try:
            road = net.elements[uid]
            zero = [i for i in net.intersections if i.id == 0 and any(road is r for r in i.roads)]
            if zero:
                return "xodr.junction-id-zero-links-dropped"
        except Exception:
            pass
    return None


def run_unit(u, ctx):
    import warnings

    from rt import c20lib, su
    from scenic.domains.driving.roads import Network
    from scenic.formats.opendrive import OpenDriveWarning

    res, bump, skip, viol = ctx["res"], ctx["bump"], ctx["skip"], ctx["viol"]
    tier = ctx["tier"]
    rel = u["map"]
    opts = dict(dict(OPTION_SETS)[u["opts"]])
    tag = f"{rel}|{u['opts']}|{u.get('mutation', '-')}"
    W = {"map": rel, "opts": u["opts"], "mutation": u.get("mutation"), "cache": u.get("cache", False)}
    rng = random.Random(f"{ctx['seed']}|{tag}")
    scratch = tempfile.mkdtemp(prefix="verif-c20-")
    mon = ctx["mon"]
    try:
        dst = os.path.join(scratch, os.path.basename(rel))
        shutil.copyfile(os.path.join(MAPS_DIR, rel), dst)
        if u.get("mutation"):
            with open(dst, encoding="utf-8", errors="surrogateescape") as f:
                text = f.read()
            m = mutate_map(text, u["mutation"])
            if m is None:
                skip("mutation_not_applicable_" + u["mutation"])
                return
            with open(dst, "w", encoding="utf-8", errors="surrogateescape") as f:
                f.write(m[0])
        snet = os.path.splitext(dst)[0] + ".snet"
        # ---- 1. parse (no cache present), writing the cache
        mon.reset()
        mon.stop_parse = False
        with warnings.catch_warnings(record=True) as wlist:
            warnings.simplefilter("always")
            try:
                net = Network.fromFile(dst, useCache=True, writeCache=True, **opts)
            except Exception as e:  # noqa
                skip(f"parse_failed:{os.path.basename(rel)}:{u['opts']}:{u.get('mutation', '-')}:{type(e).__name__}")
                return
        nwarn = sum(1 for w in wlist if issubclass(w.category, OpenDriveWarning))
        bump("parser_warnings", nwarn)
        bump("networks_built")
        ctx["maps"].add(rel)
        res["evaluations"] += 1
        bump("cache_path_decisions")
        if mon.produced_by(net) != "parse" or any(k == "pickle" for k, *_ in mon.log):
            viol(None, "cache-path", f"{tag}: first load without a cache file was not produced by the parser only: {[x[:3] for x in mon.log]}", W)
        if not os.path.exists(snet):
            viol(None, "cache-path", f"{tag}: writeCache=True did not write {os.path.basename(snet)}", W)
        bump("elements", len(net.elements))
        if net.intersections:
            bump("networks_with_intersections")
        # ---- 2. invariants on the parsed network
        npts = (150 if tier == "quick" else 600)
        ntan = (200 if tier == "quick" else 800)
        rep = c20lib.Report()
        check_all(net, rng, npts, ntan, rep, c20lib)
        report(rep, net, tag + "|parsed", W, ctx)
        if net.lanes and rep.checked.get("tangent.lane-orientation") and any(k.startswith("lookup.") for k in rep.checked):
            res["nontrivial"].append(su.h(tag))
        if len(res["samples"]) < 2:
            res["samples"].append({"map": rel, "options": opts, "mutation": u.get("mutation"), "elements": len(net.elements),
                                   "lanes": len(net.lanes), "intersections": len(net.intersections), "invariants_checked": sum(rep.checked.values())})
        if not u.get("cache"):
            return
        # ---- 3. load from the cache: must come from fromPickle and be equal
        d1 = c20lib.dump_network(net)
        pts = [(p.x, p.y) for _, p in c20lib.sample_points(net, rng, 40)]
        sig1 = c20lib.lookup_signature(net, pts)
        mon.reset()
        net2 = Network.fromFile(dst, useCache=True, writeCache=False, **opts)
        bump("cache_path_decisions")
        if mon.produced_by(net2) != "pickle" or any(k == "parse" for k, *_ in mon.log):
            viol(None, "cache-path", f"{tag}: unchanged map and options but the cache was not used: {[x[:3] for x in mon.log]}", W)
        else:
            bump("cache_used_when_unchanged")
        d2 = c20lib.dump_network(net2)
        bump("cache_loads_compared")
        if d1 != d2:
            viol(None, "cache-equivalence", f"{tag}: network from cache differs from the parsed one at {c20lib.first_diff(d1, d2)}", W)
        else:
            bump("cache_dump_equal")
        sig2 = c20lib.lookup_signature(net2, pts)
        if sig1 != sig2:
            viol(None, "cache-equivalence", f"{tag}: lookups on the cached network differ from the parsed one: {c20lib.first_diff(sig1, sig2)}", W)
        rep2 = c20lib.Report()
        check_all(net2, rng, npts // 3, ntan // 3, rep2, c20lib)
        report(rep2, net2, tag + "|cached", W, ctx)
        # ---- 4. cache must be ignored when options or bytes change, never touched with useCache=False
        mon.stop_parse = True  # the monitor raises _Stop instead of parsing: only the decision is observed

        def decision(expect, what, **kw):
            mon.reset()
            try:
                r = Network.fromFile(dst, **kw)
                got = mon.produced_by(r)
            except _Stop:
                got = "parse"
            bump("cache_path_decisions")
            pick_returned = any(k == "pickle" and w == "returned" for k, w, *_ in mon.log)
            pick_called = any(k == "pickle" for k, *_ in mon.log)
            if got != expect or (expect == "parse" and pick_returned):
                viol(None, "cache-path", f"{tag}: {what}: expected the result to come from {expect}, observed {got}; calls {[x[:3] for x in mon.log]}", {**W, "what": what})
            else:
                bump("cache_decision_" + what.split(":")[0])
            return pick_called

        changed = dict(opts)
        changed["tolerance"] = 0.0625 if opts.get("tolerance") != 0.0625 else 0.07
        decision("parse", "option-changed:tolerance", useCache=True, writeCache=False, **changed)
        if "fill_gaps" not in opts:
            decision("parse", "option-added:fill_gaps", useCache=True, writeCache=False, **dict(opts, fill_gaps=True))
        if opts:
            decision("parse", "option-removed", useCache=True, writeCache=False)
            for k_, v_ in opts.items():  # same keys, one value changed
                nv = (not v_) if isinstance(v_, bool) else (v_ * 2 if isinstance(v_, int) else v_ * 1.25)
                decision("parse", f"option-value-changed:{k_}", useCache=True, writeCache=False, **dict(opts, **{k_: nv}))
        called = decision("parse", "useCache-false", useCache=False, writeCache=False, **opts)
        if called:
            viol(None, "cache-path", f"{tag}: fromPickle was called although useCache=False", W)
        decision("pickle", "unchanged-again", useCache=True, writeCache=False, **opts)
        with open(dst, "rb") as f:
            raw = f.read()
        for what, new in (("bytes-changed:trailing-comment", raw + b"\n<!-- x -->\n"), ("bytes-changed:one-digit", _flip_digit(raw))):
            if new is None:
                continue
            with open(dst, "wb") as f:
                f.write(new)
            decision("parse", what, useCache=True, writeCache=False, **opts)
        with open(dst, "wb") as f:
            f.write(raw)
        decision("pickle", "bytes-restored", useCache=True, writeCache=False, **opts)
        # a cache file of another map put in place of this one's must be ignored
        if ctx.get("foreign_snet") and os.path.exists(ctx["foreign_snet"]):
            shutil.copyfile(ctx["foreign_snet"], snet)
            decision("parse", "foreign-cache-file", useCache=True, writeCache=False, **opts)
        else:
            keep = os.path.join(ctx["keep_dir"], "foreign.snet")
            shutil.copyfile(snet, keep)
            ctx["foreign_snet"] = keep
    finally:
        mon.stop_parse = False
        shutil.rmtree(scratch, ignore_errors=True)


def _flip_digit(raw):
    m = re.search(rb'length="(\d)', raw)
    if not m:
        return None
    i = m.start(1)
    d = raw[i : i + 1]
    nd = b"1" if d != b"1" else b"2"
    return raw[:i] + nd + raw[i + 1 :]


def check_all(net, rng, npts, ntan, rep, lib):
    lib.check_linkage(net, rep)
    lib.check_containment(net, rep)
    lib.check_lookups(net, rng, npts, rep)
    lib.check_tangent(net, rng, ntan, rep)


def report(rep, net, tag, W, ctx):
    bump, viol = ctx["bump"], ctx["viol"]
    for inv, n in rep.checked.items():
        fam = inv.split(".")[0]
        bump("inv_" + {"link": "link", "lookup": "lookup", "tangent": "tangent", "containment": "containment", "coverage": "coverage"}.get(fam, fam), n)
    for k, n in rep.skipped.items():
        ctx["skip"](k, n)
    for inv, uid, detail in rep.fail:
        key = classify(inv, uid, detail, net)
        viol(key, inv, f"{tag}: {inv} fails at {uid}: {detail}", {**W, "invariant": inv, "uid": uid})
    for inv, n in rep.count.items():
        bump("failed_" + inv, n)


def run_shard(spec):
    from rt import c20lib

    res = {"evaluations": 0, "nontrivial": [], "counters": {}, "samples": [], "violations": [], "skipped": {}, "extra": {}}
    C, S = res["counters"], res["skipped"]
    seen = {}

    def bump(k, n=1):
        C[k] = C.get(k, 0) + n

    def skip(k, n=1):
        S[k] = S.get(k, 0) + n

    def viol(key, kind, what, witness):
        sig = (key, kind, witness.get("map"))
        seen[sig] = seen.get(sig, 0) + 1
        if seen[sig] > 3 or len(res["violations"]) > 150:
            return
        w = dict(witness)
        w["kind"] = kind
        w["seed"] = spec["seed"]
        w["tier"] = spec["tier"]
        res["violations"].append({"key": key, "what": what[:700], "witness": w})

    mon = c20lib.PathMonitor()
    mon.stop_parse = False
    # probing mode: raise instead of parsing
    from scenic.domains.driving.roads import Network

    inner = Network.fromOpenDrive.__func__

    def fromOpenDrive(cls, path, *a, **k):
        if mon.stop_parse:
            mon.log.append(("parse", "called", None, None))
            raise _Stop()
        return inner(cls, path, *a, **k)

    Network.fromOpenDrive = classmethod(fromOpenDrive)
    keep_dir = tempfile.mkdtemp(prefix="verif-c20-keep-")
    ctx = {"res": res, "bump": bump, "skip": skip, "viol": viol, "tier": spec["tier"], "seed": spec["seed"], "mon": mon,
           "maps": set(), "keep_dir": keep_dir}
    try:
        for u in spec["units"]:
            run_unit(u, ctx)
    finally:
        shutil.rmtree(keep_dir, ignore_errors=True)
    res["extra"]["maps_loaded"] = sorted(ctx["maps"])
    return res


def finalize(m, tier, seed):
    m["counters"]["maps"] = len(m.get("extra", {}).get("maps_loaded", []))


def replay(w):
    spec = {"tier": w.get("tier", "quick"), "seed": w.get("seed", 0), "shard": 0,
            "units": [{"map": w["map"], "opts": w["opts"], "cache": w.get("cache", False), **({"mutation": w["mutation"]} if w.get("mutation") else {})}]}
    res = run_shard(spec)
    same = [v for v in res["violations"] if v["witness"].get("kind") == w.get("kind")]
    return same or res["violations"]


MANIFEST_ENTRY = {
    "technique": "runtime monitoring: invariants checked on the real networks built by Network.fromFile for every shipped map x option set (brute-force geometric oracle, link reciprocity, tangency), differential observation parsed vs cached network, and a monitor on fromPickle/fromOpenDrive deciding which path produced each result",
    "text": "Every non-empty OpenDRIVE map under assets/maps (plus mutated variants) is loaded through the real parser with several option sets; on each network all elements are checked for ownership/reciprocity of links and containment in their parents, hundreds of random points for lookup consistency against brute-force shapely distances and for tangency of lane orientation / roadDirection to the lane centreline; the cached network is compared with the parsed one by a canonical dump of every attribute, and the cache is observed to be used exactly when map bytes and options are unchanged.",
    "note": "Trusts shapely predicates, the canonical dump as the notion of network equality, and the three-valued containment rule (undecided between 1x and 2x tolerance). One-sided lane links declared by the map and dead-end connecting lanes the parser warns about are tolerated and counted. Heavy maps (Town04/06/07/10HD, Issue295a) are only in the thorough tier; two CARLA towns are empty files in this sandbox and skipped.",
}
