"""C16 — region operations obey set semantics in full 3D.

Runtime monitoring at the API boundary: the real `Region.intersect/union/difference/intersects/
containsRegion/distanceTo/projectVector/AABB/size` are called on generated operands of every ordered
pair of region kinds; each answer is compared with an oracle computed from the construction data of
the operands (rt/regionoracle.py), on probe points drawn in the bulk and near the boundaries.
"""

import math

import numpy as np

PROPERTY = "C16"
LEVEL = "exploration"
RULE = (
    "all ordered pairs of the 17 region kinds x random parameters (planar regions at z in {0, 3.5, -2}, "
    "rotated solids, multi-body meshes, polygons with holes / several components); operands placed "
    "overlapping, far apart, or nested; probe points = oracle samples of both operands and of their "
    "intersection, the same displaced by 1-25 margins in random directions and along z, their "
    "projections onto z = 0 and onto the operands' planes, and bulk points. A (pair, instance) is "
    "non-trivial when at least one operation returned a non-empty region whose membership was compared "
    "on >= 10 definite probe points including members and non-members; distinct = distinct (kind A, kind B, "
    "parameters)."
)
ASSUMPTIONS = [
    "oracle membership/distance from construction data (rt/regionoracle.py): unions of oriented boxes, the icosphere polytope, triangle soups, shapely polygons built from own trigonometry, segment and point lists",
    "points within the oracle margin (2e-3, 1.5e-3*r for discs/sectors, 2% of the radius for view volumes) of any operand's boundary are skipped and counted",
    "containsPoint of PolygonalRegion/RectangularRegion/GridRegion and of generic Intersection/Union/Difference regions may ignore z of polygonal operands (documented footprint semantics); heights of results are checked through .z, _trueContainsPoint, distanceTo, AABB and samples",
    "NotImplementedError / documented 'does not support' refusals count as 'pair not accepted'",
    "trimesh/manifold3d mesh construction of the operands (union of boxes) is trusted",
]
MIN_COUNTERS = {
    "quick": {"pairs_run": 500, "op_results_checked": 600, "membership_compared": 40000, "distance_compared": 8000, "intersects_definite": 250, "projections_compared": 60, "containsRegion_definite": 60, "aabb_compared": 300, "lazy_results_checked": 40, "nested_results_checked": 150},
    "thorough": {"pairs_run": 6000, "op_results_checked": 9000, "membership_compared": 600000, "distance_compared": 100000, "intersects_definite": 3000, "projections_compared": 800, "containsRegion_definite": 800, "aabb_compared": 4000, "lazy_results_checked": 600, "nested_results_checked": 2000},
}
MANIFEST_ENTRY = {
    "technique": "runtime monitoring: invariant-at-the-API-boundary with an independent construction-data oracle (three-valued membership, exact distances) over all ordered pairs of region kinds",
    "text": "The real intersect/union/difference/intersects/containsRegion/distanceTo/projectVector/AABB/size of scenic.core.regions are driven over every ordered pair of the 17 region kinds with random shapes, poses and heights; results are probed at ~100-200 points per pair (bulk, near-boundary, off-plane) and compared with Boolean combinations of an analytic oracle's memberships, with oracle distances, ray hits, bounding boxes and measures. Eagerly built, randomly parameterised (sampled) and lazily evaluated operands are all exercised. Bounded exploration: held on the pairs/instances/probes driven.",
    "note": "Trusts numpy/shapely predicates/scipy ConvexHull and the oracle's geometry (rt/regionoracle.py); near-boundary probes (within the stated margins) are skipped and counted; pairs the library refuses with NotImplementedError are counted as not accepted.",
}

OPS = ("and", "or", "sub")
OPNAME = {"and": "intersect", "or": "union", "sub": "difference"}
LENIENT = ("PolygonalRegion", "RectangularRegion", "GridRegion", "IntersectionRegion", "UnionRegion", "DifferenceRegion")
MESHY = ("box", "spheroid", "meshvol", "meshsurf", "view")


# ------------------------------------------------------------------------------------------------
# planning
# ------------------------------------------------------------------------------------------------
def plan(tier, seed):
    from rt import regionoracle as ro

    n_inst = 2 if tier == "quick" else 24
    nsh = 16 if tier == "quick" else 64
    tasks = []
    for i, ka in enumerate(ro.KINDS):
        for j, kb in enumerate(ro.KINDS):
            for inst in range(n_inst):
                tasks.append([ka, kb, inst])
    # deterministic interleave so that heavy (mesh) pairs spread over shards
    shards = [{"shard": s, "tasks": [], "timeout": 1500 if tier == "quick" else 3400} for s in range(nsh)]
    for t_i, t in enumerate(tasks):
        shards[(t_i * 7 + t_i // nsh) % nsh]["tasks"].append(t)
    return shards


# ------------------------------------------------------------------------------------------------
# case generation
# ------------------------------------------------------------------------------------------------
def _kseed(seed, ka, kb, inst):
    from rt import regionoracle as ro

    return [int(seed), ro.KINDS.index(ka), ro.KINDS.index(kb), int(inst)]


def gen_case(ka, kb, inst, seed, tier, p_far=0.12, p_nested=0.23, max_offset=2.2):
    from rt import regionoracle as ro

    rng = np.random.default_rng(_kseed(seed, ka, kb, inst))
    zA = float(rng.choice(ro.ZLEVELS))
    zB = zA if rng.random() < 0.62 else float(rng.choice([z for z in ro.ZLEVELS if z != zA]))
    if kb not in ro.PLANAR:
        zB = zA  # only planar operands are placed at a different height; solids / paths / point sets stay around A
    if ka == "polyline" or ka == "grid":
        zA = 0.0
        if rng.random() < 0.6:
            zB = 0.0
    if kb in ("polyline", "grid") and rng.random() < 0.6:
        zA = 0.0
    dA = ro.gen(ka, rng, z=zA)
    A = ro.make(dA)
    mode = rng.random()
    relation = "overlap"
    ctr = None
    scale = None
    if mode < p_far:
        relation = "far"
        ang = rng.uniform(0, 2 * math.pi)
        ctr = (14 * math.cos(ang), 14 * math.sin(ang), rng.uniform(-0.5, 0.5))
    elif mode < p_far + p_nested:
        relation = "nested"
        S = A.sample(rng, 40) if ka not in ("all", "empty", "footprint") else None
        if S is not None and len(S):
            q = S[int(rng.integers(0, len(S)))]
            if kb in ro.PLANAR:
                if A.planar_z is not None or ka in ("polyline", "grid"):
                    zB = float(q[2])
                ctr = (q[0], q[1], 0.0)
            else:
                ctr = (q[0], q[1], q[2] - zB)
            scale = float(rng.uniform(0.12, 0.3))
    else:
        ang = rng.uniform(0, 2 * math.pi)
        rad = rng.uniform(0, max_offset)
        ctr = (rad * math.cos(ang), rad * math.sin(ang), rng.uniform(-0.5, 0.5))
    dB = ro.gen(kb, rng, z=zB, ctr=ctr, scale=scale)
    return {"A": dA, "B": dB, "relation": relation, "pseed": int(rng.integers(0, 2**31)), "nprobe": 64 if tier == "quick" else 140}


def make_probes(A, B, rng, n):
    from rt import regionoracle as ro

    parts = []
    zs = set()
    for X in (A, B):
        if X.planar_z is not None:
            zs.add(X.planar_z)
    zs.add(0.0)
    both = ro.Combo("and", A, B).sample(rng, max(6, n // 6), tries=3)
    srcs = []
    for X in (A, B):
        S = X.sample(rng, n // 5) if X.kind not in ("all", "empty") else None
        if S is not None and len(S):
            srcs.append((X, S))
    if both is not None and len(both):
        srcs.append((A, both))
    for X, S in srcs:
        parts.append(S)
        k = len(S)
        d = rng.normal(size=(k, 3))
        d /= np.linalg.norm(d, axis=1)[:, None]
        e = max(A.eps, B.eps)
        parts.append(S + d * rng.uniform(1.5 * e, 25 * e, size=(k, 1)))
        # off-plane copies and projections on the interesting heights
        Z = S.copy()
        Z[:, 2] += rng.choice([-1, 1], k) * rng.uniform(3 * e, 1.5, k)
        parts.append(Z[: k // 2 + 1])
        for z in zs:
            Q = S[: max(3, k // 3)].copy()
            Q[:, 2] = z
            parts.append(Q)
    boxes = [X.aabb() for X in (A, B) if X.aabb() is not None]
    if boxes:
        lo = np.min([b[0] for b in boxes], axis=0) - 0.7
        hi = np.max([b[1] for b in boxes], axis=0) + 0.7
    else:
        lo, hi = np.array([-4, -4, -3.0]), np.array([4, 4, 4.5])
    parts.append(rng.uniform(lo, hi, size=(n // 4, 3)))
    # bulk points exactly on the planes
    for z in zs:
        Q = rng.uniform(lo, hi, size=(max(4, n // 10), 3))
        Q[:, 2] = z
        parts.append(Q)
    P = np.concatenate(parts)
    if len(P) > 2 * n:
        P = P[rng.permutation(len(P))[: 2 * n]]
    return P


# ------------------------------------------------------------------------------------------------
# the monitor
# ------------------------------------------------------------------------------------------------
class Mon:
    def __init__(self, case, counters, skipped):
        self.case = case
        self.C = counters
        self.S = skipped
        self.viol = []
        self.seen = set()

    def bump(self, k, n=1):
        self.C[k] = self.C.get(k, 0) + n

    def skip(self, k, n=1):
        self.S[k] = self.S.get(k, 0) + n

    def alt_for(self, X):
        for key, which, alt in getattr(self, "alts", ()):
            if which != "BOTH" and alt.params is X.params:
                return key, alt
        return None

    def report(self, check, what, info=None):
        info = info or {}
        key = classify(check, info, self.case)
        sig = (check, key, info.get("op"), info.get("rclass"))
        if sig in self.seen:
            self.bump("violations_suppressed_duplicates")
            return
        self.seen.add(sig)
        w = dict(self.case)
        w["check"] = check
        w["key"] = key
        self.viol.append({"key": key, "what": f"[{check}] A={self.case['A']['kind']} B={self.case['B']['kind']} {what}"[:900], "witness": w})


def classify(check, info, case):
    """stable mechanism keys for the defects this check has demonstrated; anything else -> None"""
    ka, kb = case["A"]["kind"], case["B"]["kind"]
    op, rc = info.get("op"), info.get("rclass")
    err = info.get("error", "") or ""
    if check == "result.height" and rc == "PolygonalRegion" and info.get("got_z") == 0 and info.get("want_z") not in (0, None):
        return f"polygon.{OPNAME.get(op, op)}-result-rebuilt-at-z0"
    if check in ("result.height", "result.true-contains", "result.distance", "result.aabb", "result.sample") and info.get("z_lost"):
        return f"polygon.{OPNAME.get(op, op)}-result-rebuilt-at-z0"
    if check in ("unary.distance", "result.distance") and info.get("circ_z0"):
        return "circular.distanceTo-tests-z-equals-0"
    if check == "project.nearest" and info.get("first_hit"):
        return "mesh.projectVector-norm-over-all-hits"
    if check == "unary.contains" and info.get("cls") == "PolylineRegion" and info.get("obs") is False and info.get("p", [0, 0, 1])[2] == 0:
        return POLYLINE_EXACT
    planar_nz = [d["kind"] in ("polygon", "circle", "sector", "rect") and (d["params"].get("z", None) if d["kind"] == "polygon" else d["params"]["c"][2]) != 0 for d in (case["A"], case["B"])]
    def _pz(d):
        if d["kind"] == "polygon":
            return d["params"].get("z")
        return d["params"]["c"][2] if d["kind"] in ("circle", "sector", "rect") else None

    za_, zb_ = _pz(case["A"]), _pz(case["B"])
    if za_ is not None and zb_ is not None and za_ != zb_ and info.get("obs") is True:
        if check == "containsRegion":
            return "polygon.containsRegion-ignores-height"
        if check == "intersects" and ka == "circle" and kb == "circle":
            return "circular.intersects-ignores-height"
    nested = str(info.get("label", "")).startswith("[nested")
    if info.get("mesh_ray") and rc in ("MeshVolumeRegion", "BoxRegion", "SpheroidRegion", "ViewRegion"):
        return "meshvolume.containsPoint-sign-from-nearest-triangle-normal"
    if check == "result.sample" and rc == "IntersectionRegion":
        kinds_ = {ka, kb}
        if info.get("has_sampler") and kinds_ & {"pointset", "grid"} and kinds_ & {"polygon", "rect"}:
            return "pointset.intersection-sampler-ignores-height-of-planar-operand"
        if nested and "grid" in kinds_:
            return "grid.cell-membership-inconsistent-with-pointset-measure"
        if nested and kinds_ & {"polygon", "rect", "circle", "sector"}:
            return "intersection.nested-trueContainsPoint-falls-back-to-footprints"
    if check == "intersects" and "grid" in (ka, kb) and {ka, kb} <= {"grid", "pointset"}:
        return "grid.cell-membership-inconsistent-with-pointset-measure"
    if check in ("op.error", "intersects.error", "lazy.error") and "TopologyException" in err and {ka, kb} & {"box", "spheroid", "meshvol", "view"}:
        return "meshvolume.intersect-polygon-invalid-slice-geometry"
    if check == "result.sample" and nested and rc == "MeshVolumeRegion":
        return "mesh.nested-boolean-degenerate-result"
    if check == "intersects" and info.get("obs") is True and {ka, kb} & {"pointset", "grid"} and {ka, kb} & {"polygon", "rect"}:
        return "pointset.intersects-ignores-height-of-planar-operand"
    if check == "containsRegion" and info.get("obs") is True and za_ not in (None, 0) and kb == "polyline":
        return "polygon.containsRegion-ignores-height"
    if op == "and" and rc in ("PointSetRegion", "PolylineRegion") and za_ not in (None, 0) and zb_ in (None, za_) and check in ("result.aabb", "result.sample", "result.contains", "result.distance") and "polyline" not in (ka, kb):
        # touching polygons at height z: the point / line they share is rebuilt as a PointSetRegion / PolylineRegion, which live at z = 0
        return "polygon.intersect-lower-dimensional-result-rebuilt-at-z0"
    if "polyline" in (ka, kb) and any(planar_nz) and ka != kb:
        if check == "intersects" and info.get("obs") is True:
            return "polygon-polyline.intersects-ignores-height"
        if op in ("and", "sub") and rc in ("PolylineRegion", "PointSetRegion", "PolygonalRegion", "EmptyRegion") and check in ("result.contains", "result.distance", "result.aabb", "result.sample", "result.true-contains", "result.empty") and not info.get("z_lost"):
            return f"polygon-polyline.{OPNAME[op]}-ignores-height"
    if op == "or" and rc == "PolygonalRegion" and check.startswith("result.") and not info.get("z_lost"):
        kinds = {ka, kb}
        if "footprint" in kinds and kinds & {"polygon", "circle", "sector", "rect"}:
            return "polygon.union-treats-footprint-as-flat-polygon"
        if "polyline" in kinds and kinds & {"polygon", "circle", "sector", "rect"}:
            return "polygon.union-drops-polyline-operand"
    if check == "containsRegion.error" and "'MeshSurfaceRegion' object has no attribute '_shape'" in err:
        return "meshsurface.boundingPolygon-reads-undefined-_shape"
    if check.startswith("result.") and rc == "PointSetRegion" and op == "and" and "grid" in (ka, kb) and {ka, kb} <= {"grid", "pointset"}:
        return "grid.cell-membership-inconsistent-with-pointset-measure"
    if check == "containsRegion.error" and "VoxelRegion.containsRegionInner() takes 2 positional arguments" in err:
        return "voxel.containsRegionInner-missing-tolerance-parameter"
    if check == "result.sample-error" and "ZeroDivisionError" in err and rc == "UnionRegion" and "polyline" in (ka, kb):
        return "union.genericSampler-zero-containment-count-for-polyline-sample"
    if check == "result.sample-error" and "setting an array element with a sequence" in err and "meshsurf" in (ka, kb) and info.get("label", "").startswith(("[random", "[delayed")):
        return "meshsurface.random-parameter-default-orientation-leaks-into-composite"
    if info.get("alt_key"):
        return info["alt_key"]
    if check == "op.error" and "RecursionError" in err and op == "and" and ((ka in ("pointset", "grid") and kb in ("pointset", "grid")) or (info.get("nested") and ("pointset" in (ka, kb) or "grid" in (ka, kb)))):
        return "pointset.intersect-pointset-infinite-recursion"
    if check == "containsRegion.error" and "too many values to unpack" in err and ka in ("pointset", "grid") and kb in ("pointset", "grid"):
        return "pointset.containsRegionInner-kdtree-query-unpack"
    if check in ("result.sample-error", "op.error") and "has no attribute 'circumcircle'" in err and ("pointset" in (ka, kb) or "grid" in (ka, kb)):
        return "pointset.intersection-sampler-requires-circumcircle"
    if check == "lazy.error" and "got multiple values for argument 'orientation'" in err and "meshsurf" in (ka, kb):
        return "meshsurface.evaluateInner-orientation-passed-twice"
    if check == "containsRegion.error" and "name 'other' is not defined" in err:
        return "footprint.containsRegionInner-undefined-other"
    if check == "containsRegion.error" and "'PolylineRegion' object has no attribute 'polygons'" in err:
        return "polyline.containsRegionInner-uses-polygons"
    if check == "lazy.error" and "unexpected keyword argument 'orientation'" in err:
        return "difference.evaluateInner-orientation-kwarg"
    if check == "lazy.error" and "RecursionError" in err and op == "or" and (ka in ("polygon", "circle", "sector", "rect") or kb in ("polygon", "circle", "sector", "rect")):
        return "polygon.union-lazy-operand-infinite-recursion"
    return None


def _rclass(R):
    return type(R).__name__


SECTOR_TRUNC = "sector.polygon-mask-truncates-angles-over-120deg"


def alt_models(A, B, SA, SB):
    """'as implemented' variants of the operand oracles used ONLY to name the mechanism of a disagreement that the
    independent oracle has already established: (key, which operand, replacement oracle)"""
    from rt import regionoracle as ro

    out = []
    for which, X, SX in (("A", A, SA), ("B", B, SB)):
        if X.kind == "sector" and X.params["angle"] > 2.0944 + 1e-3:
            alt = ro.OPolygon.__new__(ro.OPolygon)
            ro.Orc.__init__(alt, X.params)
            alt.poly = SX.polygons
            alt.planar_z = X.planar_z
            alt.eps = 1e-7
            alt.zfree = False
            alt.kind = "sector"
            out.append((SECTOR_TRUNC, which, alt))
        if X.kind == "polyline":
            out.append((POLYLINE_EXACT, which, _PolylineAsImplemented(X, SX)))
    both = [(k, w, a) for k, w, a in out if k == SECTOR_TRUNC]
    if len(both) == 2:
        out.append((SECTOR_TRUNC, "BOTH", (both[0][2], both[1][2])))
    return out


POLYLINE_EXACT = "polyline.containsPoint-exact-predicate-misses-own-points"


class _PolylineAsImplemented:
    """the polyline oracle, except that points the library's own exact predicate rejects count as non-members"""

    has_dist = False
    kind = "polyline"
    planar_z = None

    def __init__(self, X, SX):
        self.X, self.SX, self.params = X, SX, X.params
        self.eps, self.dim = X.eps, X.dim

    def describe(self):
        return self.X.describe()

    def member(self, P):
        from rt.regionrun import V

        m = self.X.member(P).copy()
        for i in np.where(m == 1)[0]:
            if not self.SX.containsPoint(V(P[i])):
                m[i] = 0
        return m

    fmember = member


def explain_point(mon, op, A, B, p, obs, contains_call=False):
    """key of the first alternative model under which the observed answer at p would be right"""
    for key, which, alt in getattr(mon, "alts", ()):
        if key == POLYLINE_EXACT and not contains_call:
            continue  # only explains answers of containsPoint itself
        A2, B2 = alt if which == "BOTH" else (alt, B) if which == "A" else (A, alt)
        P1 = np.asarray(p, float)[None]
        if op is None:
            e = alt.member(P1)
        else:
            e = _comb(op, A2.member(P1), B2.member(P1))
        # (an undetermined value of the *other* operand can complete either way)
        if e[0] == -1 or bool(e[0]) == bool(obs):
            return key
        if op is not None:
            e = _comb(op, A2.fmember(P1), B2.fmember(P1))
            if e[0] == -1 or bool(e[0]) == bool(obs):
                return key
    return None


def _comb(op, a, b):
    from rt import regionoracle as ro

    if op == "and":
        return ro.and3(a, b)
    if op == "or":
        return ro.or3(a, b)
    return ro.and3(a, ro.not3(b))


def expected_height(op, A, B):
    """height at which a planar result must sit, or None when the result is not (known to be) planar"""
    za, zb = A.planar_z, B.planar_z
    if B.kind == "empty" and op in ("or", "sub"):
        return za
    if A.kind == "empty" and op == "or":
        return zb
    if B.kind == "all" and op == "and":
        return za
    if A.kind == "all" and op == "and":
        return zb
    if op == "and":
        if za is not None and zb is not None:
            return za if za == zb else None
        if za is not None and B.dim >= 3:
            return za
        if zb is not None and A.dim >= 3:
            return zb
        return None
    if op == "sub":
        return za
    if za is not None and zb is not None and za == zb:
        return za
    return None


def fmt(p):
    return "(" + ", ".join(f"{float(x):.6g}" for x in p) + ")"


def check_unary(mon, X, SX, P, role):
    """containsPoint / distanceTo / AABB / size / dimensionality of one operand against its oracle"""
    from rt.regionrun import V, outcome

    cls = _rclass(SX)
    m3, mf = X.member(P), X.fmember(P)
    do = X.dist(P) if X.has_dist else None
    tol_d = 1e-6 if X.kind not in ("circle", "sector", "view") else X.eps
    for i, p in enumerate(P):
        k, obs = outcome(SX.containsPoint, V(p))
        if k != "ok":
            if k == "error":
                mon.report("unary.contains-error", f"{cls}.containsPoint{fmt(p)} raised {obs}", {"cls": cls, "error": obs})
            else:
                mon.bump("unary_contains_unsupported")
            break
        obs = bool(obs)
        e3, ef = int(m3[i]), int(mf[i])
        if e3 != -1 and obs == bool(e3):
            mon.bump("membership_compared")
            mon.bump(f"unary_contains_{cls}")
        elif X.zfree and ef != -1 and obs == bool(ef):
            mon.bump("membership_compared")
            mon.bump("membership_z_ignored_as_documented")
        elif e3 == -1 or (X.zfree and ef == -1):
            mon.skip("probe_near_boundary")
        else:
            mon.bump("membership_compared")
            mon.report("unary.contains", f"{cls}.containsPoint{fmt(p)} = {obs}, oracle says {'member' if e3 else 'not a member'} ({role}={X.describe()['params'] if len(str(X.params)) < 300 else X.kind})", {"cls": cls, "obs": obs, "p": [float(x) for x in p], "alt_key": explain_point(mon, None, X, None, p, obs, True) if mon.alt_for(X) else None})
        if do is None:
            continue
        k, d = outcome(SX.distanceTo, V(p))
        if k != "ok":
            if k == "error":
                mon.report("unary.distance-error", f"{cls}.distanceTo{fmt(p)} raised {d}", {"cls": cls, "error": d})
            else:
                mon.bump("unary_distance_unsupported")
            do = None
            continue
        d = float(d)
        if e3 == -1:
            mon.skip("distance_probe_near_boundary")
            continue
        mon.bump("distance_compared")
        want = float(do[i])
        bad = None
        if e3 == 1 and d > tol_d:
            bad = f"= {d:.6g} on a member (must be 0)"
        elif e3 == 0 and abs(d - want) > tol_d + 1e-6 * want:
            bad = f"= {d:.6g}, Euclidean distance to the nearest member is {want:.6g}"
        if bad:
            info = {"cls": cls}
            if cls == "CircularRegion":
                # mechanism probe: the wrong value equals the planar formula used when point.z == 0
                c, r = np.array(X.params["c"]), X.params["r"]
                planar3d = max(0.0, float(np.linalg.norm(p - c)) - r)
                info["circ_z0"] = bool(p[2] == 0 and c[2] != 0 and abs(d - planar3d) < 1e-9)
            alt = mon.alt_for(X)
            if alt is not None and abs(d - float(alt[1].dist(np.asarray(p, float)[None])[0])) <= tol_d:
                info["alt_key"] = alt[0]
            mon.report("unary.distance", f"{cls}.distanceTo{fmt(p)} {bad}; {role}={X.params if len(str(X.params)) < 300 else X.kind}", info)
        # distance zero <=> member, as observed from the region itself (only off the documented z-leniency)
        if not (X.zfree and ef != e3):
            if obs and d > max(tol_d, 1e-6) and e3 != -1:
                alt = mon.alt_for(X)
                mon.report("unary.contains-vs-distance", f"{cls}.containsPoint{fmt(p)} is True but distanceTo = {d:.6g}", {"cls": cls, "alt_key": alt[0] if alt is not None and abs(d - float(alt[1].dist(np.asarray(p, float)[None])[0])) <= tol_d else None})
    # AABB
    k, bb = outcome(lambda: SX.AABB)
    ob = X.aabb()
    if k == "ok" and ob is not None:
        lo, hi = np.array(bb[0], float), np.array(bb[1], float)
        tol = 1e-6 if X.kind not in ("circle", "sector") else X.eps
        mon.bump("aabb_compared")
        if np.abs(lo - ob[0]).max() > tol or np.abs(hi - ob[1]).max() > tol:
            alt = mon.alt_for(X)
            ak = None
            if alt is not None:
                ab = alt[1].aabb()
                ak = alt[0] if np.abs(lo - ab[0]).max() <= tol and np.abs(hi - ab[1]).max() <= tol else None
            mon.report("unary.aabb", f"{cls}.AABB = {fmt(lo)}..{fmt(hi)}, exact bounding box is {fmt(ob[0])}..{fmt(ob[1])}; params={X.params if len(str(X.params)) < 300 else X.kind}", {"cls": cls, "alt_key": ak})
    elif k == "error":
        mon.report("unary.aabb-error", f"{cls}.AABB raised {bb}", {"cls": cls, "error": bb})
    else:
        mon.bump("aabb_unsupported")
    # size / dimensionality
    k, sz = outcome(lambda: SX.size)
    om = X.measure()
    if k == "ok" and sz is not None and om is not None:
        mon.bump("size_compared")
        rel = 1e-6 if X.kind not in ("circle", "sector") else 2e-3
        if (om == math.inf) != (sz == math.inf) or (om != math.inf and abs(sz - om) > rel * max(1.0, om)):
            alt = mon.alt_for(X)
            mon.report("unary.size", f"{cls}.size = {sz:.6g}, exact measure is {om:.6g}; params={X.params if len(str(X.params)) < 300 else X.kind}", {"cls": cls, "alt_key": alt[0] if alt is not None and abs(alt[1].poly.area - sz) < 1e-9 else None})
    elif k == "error":
        mon.report("unary.size-error", f"{cls}.size raised {sz}", {"cls": cls, "error": sz})
    k, dm = outcome(lambda: SX.dimensionality)
    if k == "ok" and dm is not None and X.kind not in ("grid",):
        if dm != X.dim:
            mon.report("unary.dimensionality", f"{cls}.dimensionality = {dm}, the set has dimension {X.dim}", {"cls": cls})


def check_projection(mon, X, SX, rng, n=6):
    """projectVector: nearest member along +-direction (MeshRegion family); others must refuse"""
    from rt import regionoracle as ro
    from rt.regionrun import V, arr, outcome

    cls = _rclass(SX)
    bb = X.aabb()
    if bb is None:
        if X.kind == "view":
            c = np.array(X.params["c"], float)
            bb = (c - X.rad, c + X.rad)
        else:
            k, r = outcome(SX.projectVector, V((0, 0, 0)), V((0, 0, 1)))
            if k == "error":
                mon.report("project.error", f"{cls}.projectVector raised {r}", {"cls": cls, "error": r})
            else:
                mon.bump("projection_unsupported" if k == "unsupported" else "projection_other")
            return
    lo, hi = bb
    for t in range(n):
        o = rng.uniform(lo - 0.8, hi + 0.8)
        if X.kind == "meshvol" and X.params.get("disjoint") and t % 2 == 0:
            # a point between the two bodies, nearer to the second one
            c0, c1 = X.pieces[0][0], X.pieces[1][0]
            lam = rng.uniform(0.55, 0.9)
            o = c0 + lam * (c1 - c0)
            d = (c1 - c0) / np.linalg.norm(c1 - c0)
            if rng.random() < 0.5:
                d = -d
        else:
            d = rng.normal(size=3)
            if rng.random() < 0.4:
                d = np.array([0, 0, 1.0]) * rng.choice([-1, 1])
            d /= np.linalg.norm(d)
        k, r = outcome(SX.projectVector, V(o), V(d))
        if k == "unsupported":
            mon.bump("projection_unsupported")
            return
        if k == "error":
            mon.report("project.error", f"{cls}.projectVector({fmt(o)}, {fmt(d)}) raised {r}", {"cls": cls, "error": r})
            return
        if k != "ok":
            mon.bump("projection_other")
            continue
        # oracle
        m = int(X.member(o[None])[0])
        if m == -1:
            mon.skip("projection_origin_near_boundary")
            continue
        cands = []  # (|t|, t)
        degenerate = False
        if hasattr(X, "line_hits"):
            if m == 1:
                cands = [(0.0, 0.0)]
            else:
                for t0, t1 in X.line_hits(o, d):
                    if t1 - t0 < 1e-3:
                        degenerate = True
                    tt = t0 if t0 > 0 else t1
                    if t0 <= 0 <= t1:
                        tt = 0.0
                    cands.append((abs(tt), tt))
        elif X.kind == "meshsurf":
            if m == 1:
                cands = [(0.0, 0.0)]
            else:
                ts, marg = ro.ray_tris(o, d, X.T)
                if len(marg) and marg.min() < 1e-4:
                    degenerate = True
                cands = [(abs(t_), t_) for t_ in ts]
        else:
            mon.skip("projection_no_oracle")
            continue
        if degenerate:
            mon.skip("projection_grazing_hit")
            continue
        cands.sort()
        if len(cands) >= 2 and cands[1][0] - cands[0][0] < 1e-3:
            mon.skip("projection_tie")
            continue
        mon.bump("projections_compared")
        if not cands:
            if r is not None:
                mon.report("project.nearest", f"{cls}.projectVector({fmt(o)}, {fmt(d)}) = {fmt(arr(r))} but the line does not meet the region; params={X.params if len(str(X.params)) < 400 else X.kind}", {"cls": cls})
            else:
                mon.bump("projections_none_expected")
            continue
        want = o + cands[0][1] * d
        if r is None:
            mon.report("project.nearest", f"{cls}.projectVector({fmt(o)}, {fmt(d)}) = None, nearest member along the line is {fmt(want)}; params={X.params if len(str(X.params)) < 400 else X.kind}", {"cls": cls})
            continue
        got = arr(r)
        if np.linalg.norm(got - want) > 1e-4:
            # mechanism probe: did it return the first hit in the +direction although the hit behind is nearer?
            plus = [c for c in cands if c[1] > 0]
            first_hit = bool(any(np.linalg.norm(got - (o + c[1] * d)) < 1e-4 for c in cands[1:]))
            mon.report(
                "project.nearest",
                f"{cls}.projectVector({fmt(o)}, {fmt(d)}) = {fmt(got)} at distance {np.linalg.norm(got - o):.4g}; the nearest member along +-direction is {fmt(want)} at distance {cands[0][0]:.4g}; params={X.params if len(str(X.params)) < 400 else X.kind}",
                {"cls": cls, "first_hit": first_hit},
            )
        else:
            mon.bump("projections_agree")
            if cands[0][1] < 0:
                mon.bump("projections_nearest_behind")


def check_result(mon, R, op, A, B, P, mA, mB, fA, fB, dA, dB, rng, label="", variants=()):
    """one operation result against the Boolean combination of the operands' oracle memberships"""
    from rt.regionrun import V, arr, draw, outcome

    rc = _rclass(R)
    mon.bump("op_results_checked")
    mon.bump(f"result_{op}_{rc}")
    exp3, expf = _comb(op, mA, mB), _comb(op, fA, fB)
    opn = OPNAME[op] + label
    info0 = {"op": op, "rclass": rc, "label": label}
    if op == "sub" and B.dim < A.dim:
        # A minus a lower-dimensional set: the removed points have measure zero in A and no region class can
        # represent their absence -- not observable, skipped
        nz = int((mB == 1).sum())
        if nz:
            mon.skip("difference_with_lower_dimensional_subtrahend_probe", nz)
            mB = mB.copy()
            fB = fB.copy()
            mB[mB == 1] = -1
            fB[fB == 1] = -1
            exp3, expf = _comb(op, mA, mB), _comb(op, fA, fB)
    if rc == "EmptyRegion":
        hit = np.where(exp3 == 1)[0]
        if len(hit):
            p = P[hit[0]]
            mon.report("result.empty", f"A.{opn}(B) is empty but {fmt(p)} belongs to the expected set; A={_short(A)} B={_short(B)}", dict(info0, alt_key=explain_point(mon, op, A, B, p, False)))
        return False
    if rc == "AllRegion":
        hit = np.where(exp3 == 0)[0]
        if len(hit):
            mon.report("result.all", f"A.{opn}(B) is everywhere but {fmt(P[hit[0]])} must not belong to it", info0)
        return False
    lenient = rc in LENIENT
    want_z = expected_height(op, A, B)
    z_lost = False
    rz = getattr(R, "z", None)
    planar_res = rc in ("PolygonalRegion", "CircularRegion", "SectorRegion", "RectangularRegion")
    if planar_res and want_z is not None and not isinstance(rz, (int, float)):
        rz = None
    if planar_res and want_z is not None and rz is not None:
        mon.bump("result_heights_checked")
        if abs(float(rz) - want_z) > 1e-9:
            z_lost = rc == "PolygonalRegion" and float(rz) == 0.0
            mon.report("result.height", f"A.{opn}(B) is a {rc} at z = {rz} but the operands' plane is z = {want_z}; A={_short(A)} B={_short(B)}", dict(info0, got_z=float(rz), want_z=want_z))
    info0["z_lost"] = z_lost
    expp = None
    if planar_res and want_z is not None and lenient:
        # containsPoint of a planar result may ignore z (footprint semantics): expectation at the point's
        # projection onto the plane of the result
        Pp = P.copy()
        Pp[:, 2] = want_z
        expp = _comb(op, A.member(Pp), B.member(Pp))
    n_mem = n_non = 0
    dist_ok = True
    members = P[exp3 == 1]
    for i, p in enumerate(P):
        e3, ef = int(exp3[i]), int(expf[i])
        k, obs = outcome(R.containsPoint, V(p))
        if k != "ok":
            if k == "error":
                mon.report("result.contains-error", f"A.{opn}(B) -> {rc}.containsPoint{fmt(p)} raised {obs}; A={_short(A)} B={_short(B)}", dict(info0, error=obs))
            else:
                mon.bump("result_contains_unsupported")
            break
        obs = bool(obs)
        if e3 != -1 and obs == bool(e3):
            mon.bump("membership_compared")
            n_mem += e3 == 1
            n_non += e3 == 0
        elif lenient and ef != -1 and obs == bool(ef):
            mon.bump("membership_compared")
            mon.bump("membership_z_ignored_as_documented")
        elif expp is not None and expp[i] != -1 and obs == bool(expp[i]):
            mon.bump("membership_compared")
            mon.bump("membership_z_ignored_as_documented")
        elif any(v[i] != -1 and obs == bool(v[i]) for v in variants):
            mon.bump("membership_compared")
            mon.bump("membership_z_ignored_as_documented")
        elif e3 == -1 or (lenient and ef == -1) or (expp is not None and expp[i] == -1) or any(v[i] == -1 for v in variants):
            mon.skip("probe_near_boundary")
        else:
            mon.bump("membership_compared")
            mon.report(
                "result.contains",
                f"A.{opn}(B) -> {rc}.containsPoint{fmt(p)} = {obs} but point is {'in' if mA[i] == 1 else 'not in'} A and {'in' if mB[i] == 1 else 'not in'} B; A={_short(A)} B={_short(B)}",
                dict(info0, obs=obs, alt_key=explain_point(mon, op, A, B, p, obs, True), mesh_ray=_mesh_ray_probe(R, p, obs)),
            )
        # full-3D membership of planar results ("could this point be produced")
        if rc == "PolygonalRegion" and e3 != -1:
            k2, t = outcome(R._trueContainsPoint, V(p))
            if k2 == "ok":
                mon.bump("true_contains_compared")
                if bool(t) != bool(e3):
                    mon.report("result.true-contains", f"A.{opn}(B) -> {rc} (z={rz})._trueContainsPoint{fmt(p)} = {bool(t)} but point is {'in' if mA[i] == 1 else 'not in'} A and {'in' if mB[i] == 1 else 'not in'} B; A={_short(A)} B={_short(B)}", dict(info0, alt_key=explain_point(mon, op, A, B, p, bool(t))))
        # distance bracket
        if dist_ok and e3 != -1 and dA is not None and dB is not None:
            k3, d = outcome(R.distanceTo, V(p))
            if k3 != "ok":
                dist_ok = False
                if k3 == "error":
                    mon.report("result.distance-error", f"A.{opn}(B) -> {rc}.distanceTo raised {d}", dict(info0, error=d))
                else:
                    mon.bump("result_distance_unsupported")
                continue
            d = float(d)
            tol = max(A.eps if A.kind in ("circle", "sector") else 1e-6, B.eps if B.kind in ("circle", "sector") else 1e-6)
            if op == "and":
                lo = max(dA[i], dB[i])
            elif op == "or":
                lo = min(dA[i], dB[i])
            else:
                lo = dA[i]
            hi = np.linalg.norm(members - p, axis=1).min() if len(members) else math.inf
            if op == "or":
                hi = min(hi, lo)
            mon.bump("distance_compared")
            if e3 == 1 and d > tol:
                mon.report("result.distance", f"A.{opn}(B) -> {rc}.distanceTo{fmt(p)} = {d:.6g} on a member of the expected set; A={_short(A)} B={_short(B)}", dict(info0, **dist_probe(mon, R, rc, op, A, B, p, d, tol)))
            elif e3 == 0 and (d < lo - tol - 1e-6 * lo or d > hi + tol + 1e-6 * hi):
                mon.report("result.distance", f"A.{opn}(B) -> {rc}.distanceTo{fmt(p)} = {d:.6g}, outside the certain bracket [{lo:.6g}, {hi:.6g}] (lower: operands' distances, upper: nearest known member); A={_short(A)} B={_short(B)}", dict(info0, **dist_probe(mon, R, rc, op, A, B, p, d, tol)))
    if n_mem + n_non >= 10 and n_mem and n_non:
        mon.nontrivial = True
    # AABB soundness / tightness
    k, bb = outcome(lambda: R.AABB)
    if k == "ok":
        lo, hi = np.array(bb[0], float), np.array(bb[1], float)
        mon.bump("aabb_compared")
        tol = max(A.eps, B.eps)
        if len(members):
            out = (members < lo - tol).any(axis=1) | (members > hi + tol).any(axis=1)
            if out.any():
                mon.report("result.aabb", f"A.{opn}(B) -> {rc}.AABB = {fmt(lo)}..{fmt(hi)} does not contain the member {fmt(members[out][0])}; A={_short(A)} B={_short(B)}", dict(info0, alt_key=explain_point(mon, op, A, B, members[out][0], False)))
        ba, bbb = A.aabb(), B.aabb()
        outer = None
        if op == "sub" and ba is not None:
            outer = ba
        elif op == "and" and (ba is not None or bbb is not None):
            los = [b[0] for b in (ba, bbb) if b is not None]
            his = [b[1] for b in (ba, bbb) if b is not None]
            outer = (np.max(los, axis=0), np.min(his, axis=0))
        elif op == "or" and ba is not None and bbb is not None:
            outer = (np.minimum(ba[0], bbb[0]), np.maximum(ba[1], bbb[1]))
            if np.abs(lo - outer[0]).max() > tol or np.abs(hi - outer[1]).max() > tol:
                ak = None
                for key, which, alt in getattr(mon, "alts", ()):
                    if key == SECTOR_TRUNC and which in ("A", "B"):
                        a2 = alt.aabb() if which == "A" else ba
                        b2 = alt.aabb() if which == "B" else bbb
                        o2 = (np.minimum(a2[0], b2[0]), np.maximum(a2[1], b2[1]))
                        if np.abs(lo[:2] - o2[0][:2]).max() <= tol and np.abs(hi[:2] - o2[1][:2]).max() <= tol:
                            ak = key
                mon.report("result.aabb", f"A.union(B) -> {rc}.AABB = {fmt(lo)}..{fmt(hi)}, exact is {fmt(outer[0])}..{fmt(outer[1])}; A={_short(A)} B={_short(B)}", dict(info0, alt_key=ak))
        if outer is not None and ((lo < outer[0] - tol).any() or (hi > outer[1] + tol).any()):
            mon.report("result.aabb", f"A.{opn}(B) -> {rc}.AABB = {fmt(lo)}..{fmt(hi)} exceeds the bound {fmt(outer[0])}..{fmt(outer[1])} implied by the operands; A={_short(A)} B={_short(B)}", info0)
    elif k == "error":
        mon.report("result.aabb-error", f"A.{opn}(B) -> {rc}.AABB raised {bb}", dict(info0, error=bb))
    # a few samples of the result must be members of the expected set (cross-check with C03)
    from rt.regionrun import Watchdog, sampling_cost_guard, with_watchdog

    costly = sampling_cost_guard(R)
    if costly:
        mon.bump("result_sampling_skipped_" + costly.replace(" ", "_"))
        pts, rej, err, unsup = np.zeros((0, 3)), 0, None, None
    else:
        try:
            pts, rej, err, unsup = with_watchdog(90, draw, R, 12, 150)
        except Watchdog:
            mon.skip("result_sampling_watchdog")
            pts, rej, err, unsup = np.zeros((0, 3)), 0, None, None
    if err:
        mon.report("result.sample-error", f"A.{opn}(B) -> {rc}.uniformPointInner raised {err}; A={_short(A)} B={_short(B)}", dict(info0, error=err))
    if len(pts):
        mon.bump("result_samples_checked", len(pts))
        em = _comb(op, A.member(pts), B.member(pts))
        bad = np.where(em == 0)[0]
        if len(bad):
            p = pts[bad[0]]
            mon.report("result.sample", f"A.{opn}(B) -> {rc} produced the sample {fmt(p)} which is not in the expected set (in A: {int(A.member(p[None])[0])}, in B: {int(B.member(p[None])[0])}); A={_short(A)} B={_short(B)}", dict(info0, alt_key=explain_point(mon, op, A, B, p, True), has_sampler=getattr(R, "sampler", None) is not None))
    # size of the result where the oracle can compute it exactly (same-plane polygons)
    k, sz = outcome(lambda: R.size)
    if k == "ok" and sz is not None and hasattr(A, "poly") and hasattr(B, "poly") and rc == "PolygonalRegion":
        same = A.planar_z is None or B.planar_z is None or A.planar_z == B.planar_z
        if same and (op != "or" or (A.planar_z is not None and B.planar_z is not None)):
            g = A.poly.intersection(B.poly) if op == "and" else A.poly.union(B.poly) if op == "or" else A.poly.difference(B.poly)
            mon.bump("size_compared")
            if abs(g.area - sz) > 4e-3 * max(1.0, A.poly.area, B.poly.area) and not any(X.kind == "sector" and X.params["angle"] > 2.09 for X in (A, B)):
                mon.report("result.size", f"A.{opn}(B) -> {rc}.size = {sz:.6g}, exact area {g.area:.6g}; A={_short(A)} B={_short(B)}", info0)
    return True


def _mesh_ray_probe(R, p, obs):
    """mechanism probe: the mesh's own ray-casting containment contradicts the distance-based containsPoint"""
    try:
        if hasattr(R, "mesh") and hasattr(R, "_containsPointExact"):
            return bool(R.mesh.contains([np.asarray(p, float)])[0]) != bool(obs)
    except Exception:
        pass
    return False


def dist_probe(mon, R, rc, op, A, B, p, d, tol):
    """mechanism probes for a wrong distanceTo of an operation result (naming only)"""
    out = {}
    if rc == "CircularRegion":
        try:
            c, r = np.array([float(x) for x in R.center]), float(R.radius)
            out["circ_z0"] = bool(p[2] == 0 and c[2] != 0 and abs(d - max(0.0, float(np.linalg.norm(p - c)) - r)) < 1e-9)
        except Exception:
            pass
    for key, which, alt in getattr(mon, "alts", ()):
        if key == POLYLINE_EXACT:
            continue
        A2, B2 = alt if which == "BOTH" else (alt, B) if which == "A" else (A, alt)
        P1 = np.asarray(p, float)[None]
        e = _comb(op, A2.member(P1), B2.member(P1))[0]
        if not (A2.has_dist and B2.has_dist):
            continue
        da, db = float(A2.dist(P1)[0]), float(B2.dist(P1)[0])
        lo = max(da, db) if op == "and" else min(da, db) if op == "or" else da
        if (e == 1 and d <= tol) or (e == 0 and d >= lo - tol - 1e-6 * lo and (op != "or" or d <= lo + tol + 1e-6 * lo)):
            out["alt_key"] = key
    return out


def _short(X):
    s = str(X.params)
    return f"{X.kind}{s}" if len(s) < 260 else f"{X.kind}{s[:260]}..."


def definite_disjoint(A, B, margin=0.05):
    ba, bb = A.aabb(), B.aabb()
    if A.kind == "empty" or B.kind == "empty":
        return True
    if ba is None or bb is None:
        return False
    return bool(((ba[0] > bb[1] + margin) | (bb[0] > ba[1] + margin)).any())


def definite_contains(A, B, rng):
    """True/False when certain that B is a subset of A / is not, else None"""
    if A.kind == "all" or B.kind == "empty":
        return True
    if B.kind in ("all",) or A.kind == "empty":
        return False
    S = B.sample(rng, 200) if B.kind != "footprint" else None
    if S is not None and len(S):
        mm = A.member(S)
        if (mm == 0).any():
            return False
    if B.kind == "footprint":
        return False if A.kind != "footprint" else None
    bb = B.aabb()
    if A.kind in ("box", "spheroid") and bb is not None:
        corners = np.array([[bb[i][0], bb[j][1], bb[k][2]] for i in (0, 1) for j in (0, 1) for k in (0, 1)])
        if (A.member(corners) == 1).all():
            return True
    if A.kind in ("polygon", "circle", "sector", "rect", "footprint") and B.kind in ("polygon", "circle", "sector", "rect"):
        if A.planar_z is not None and A.planar_z != B.planar_z:
            return False
        if A.poly.buffer(-2 * max(A.eps, B.eps)).contains(B.poly):
            return True
    return None


LAZYABLE = ("box", "spheroid", "circle", "sector", "rect", "polygon", "meshvol", "meshsurf")


def build_lazy(X, mode):
    """the same region with one parameter given as a random value (mode 'random': Range(v, v), which
    samples to exactly v) or as a delayed argument (mode 'delayed')"""
    from scenic.core.distributions import Range
    from scenic.core.lazy_eval import DelayedArgument
    from scenic.core.regions import BoxRegion, CircularRegion, MeshSurfaceRegion, MeshVolumeRegion, PolygonalRegion, RectangularRegion, SectorRegion, SpheroidRegion
    from scenic.core.vectors import Vector
    from rt import regionoracle as ro

    p = X.params

    def wrap(v):
        v = float(v)
        if mode == "random":
            return Range(v, v)
        return DelayedArgument({"verifprop"}, lambda ctx, v=v: v)

    def wvec(c):
        return Vector(wrap(c[0]), float(c[1]), float(c[2]))

    k = X.kind
    if k == "box":
        return BoxRegion(dimensions=tuple(p["d"]), position=wvec(p["c"]), rotation=ro._orientation(p["ypr"]))
    if k == "spheroid":
        return SpheroidRegion(dimensions=tuple(p["d"]), position=wvec(p["c"]), rotation=ro._orientation(p["ypr"]))
    if k == "meshvol":
        return MeshVolumeRegion(X.local_mesh(), dimensions=None if p.get("d") is None else tuple(p["d"]), position=wvec(p["c"]), rotation=ro._orientation(p["ypr"]))
    if k == "meshsurf":
        import trimesh

        m = trimesh.Trimesh(vertices=np.array(p["V"], float), faces=np.array(p["F"], int), process=False)
        return MeshSurfaceRegion(m, position=wvec(p["c"]), rotation=ro._orientation(p["ypr"]))
    if k == "circle":
        return CircularRegion(wvec(p["c"]), wrap(p["r"]))
    if k == "sector":
        return SectorRegion(wvec(p["c"]), p["r"], wrap(p["heading"]), p["angle"])
    if k == "rect":
        return RectangularRegion(wvec(p["c"]), p["heading"], wrap(p["w"]), p["l"])
    if k == "polygon":
        return PolygonalRegion(polygon=ro._poly_from(p), z=wrap(p["z"]))
    return None


def check_case(case, C, S):
    from rt import regionoracle as ro
    from rt.regionrun import V, outcome, seed_global

    mon = Mon(case, C, S)
    mon.nontrivial = False
    A, B = ro.make(case["A"]), ro.make(case["B"])
    rng = np.random.default_rng(case["pseed"])
    seed_global(case["pseed"])
    k, SA = outcome(A.build)
    k2, SB = outcome(B.build)
    if k != "ok" or k2 != "ok":
        mon.report("build.error", f"constructor raised: A: {SA if k != 'ok' else 'ok'}; B: {SB if k2 != 'ok' else 'ok'}; A={_short(A)} B={_short(B)}", {"error": str(SA) + str(SB)})
        return mon
    mon.bump("pairs_run")
    mon.bump(f"relation_{case['relation']}")
    mon.alts = alt_models(A, B, SA, SB)
    P = make_probes(A, B, rng, case["nprobe"])
    mA, mB, fA, fB = A.member(P), B.member(P), A.fmember(P), B.fmember(P)
    dA = A.dist(P) if A.has_dist else None
    dB = B.dist(P) if B.has_dist else None

    # --- operands on their own (every kind appears as A in 17 pairs: do it for A only, on a subsample)
    sub = P[rng.permutation(len(P))[: max(30, len(P) // 3)]]
    check_unary(mon, A, SA, sub, "A")
    if A.kind in MESHY or A.kind in ("path", "polyline", "pointset", "polygon", "footprint"):
        check_projection(mon, A, SA, rng)

    # --- the three operations
    results = {}
    for op in OPS:
        k, R = outcome(getattr(SA, OPNAME[op]), SB)
        if k == "unsupported":
            mon.bump(f"op_{op}_not_accepted")
            continue
        if k != "ok":
            mon.report("op.error", f"A.{OPNAME[op]}(B) raised {R}; A={_short(A)} B={_short(B)}", {"op": op, "error": R})
            continue
        results[op] = R
        check_result(mon, R, op, A, B, P, mA, mB, fA, fB, dA, dB, rng)

    # --- one nested composition (depth 2): (A op1 B) op2 X with X one of the operands
    if results and mon.viol:
        mon.bump("nested_skipped_operands_or_inner_result_already_wrong")
    if results and not mon.viol:
        op1 = list(results)[int(rng.integers(0, len(results)))]
        op2 = OPS[int(rng.integers(0, 3))]
        which = "A" if rng.random() < 0.5 else "B"
        X, SXr, mX, fX = (A, SA, mA, fA) if which == "A" else (B, SB, mB, fB)
        R1 = results[op1]
        if _rclass(R1) in ("PolylineRegion", "PathRegion") and X.kind in ("polyline", "path"):
            # a clipped curve combined again with the curve it was cut from: coincident collinear segments, whose
            # overlap no floating-point geometry kernel can decide -- not a meaningful input
            mon.skip("nested_coincident_curves")
        elif _rclass(R1) not in ("EmptyRegion", "AllRegion"):
            k, R2 = outcome(getattr(R1, OPNAME[op2]), SXr)
            if k == "unsupported":
                mon.bump("nested_op_not_accepted")
            elif k != "ok":
                mon.report("op.error", f"(A.{OPNAME[op1]}(B)).{OPNAME[op2]}({which}) raised {R2}; A={_short(A)} B={_short(B)}", {"op": op2, "error": R2, "nested": True})
            else:
                mon.bump("nested_results_checked")
                inner = ro.Combo(op1, A, B)
                inner.planar_z = expected_height(op1, A, B) if _rclass(R1) in ("PolygonalRegion", "CircularRegion", "SectorRegion", "RectangularRegion") else None
                sel = rng.permutation(len(P))[: max(20, len(P) // 4)]
                m1, f1 = _comb(op1, mA, mB), _comb(op1, fA, fB)
                # documented footprint leniency can apply to the inner result and to the outer operand independently
                variants = [_comb(op2, f1[sel], mX[sel]), _comb(op2, m1[sel], fX[sel])]
                if inner.planar_z is not None:
                    # a planar inner result answers containsPoint for the point's projection onto its plane
                    Pq = P[sel].copy()
                    Pq[:, 2] = inner.planar_z
                    iq = _comb(op1, A.member(Pq), B.member(Pq))
                    variants += [_comb(op2, iq, mX[sel]), _comb(op2, iq, fX[sel])]
                saved = mon.alts
                mon.alts = []
                for key, w_, alt in saved:
                    if w_ == "BOTH":
                        A2, B2 = alt
                    else:
                        A2, B2 = (alt, B) if w_ == "A" else (A, alt)
                    X2 = A2 if which == "A" else B2
                    # the inner result and the outer operand may use the as-implemented variant independently
                    mon.alts.append((key, "BOTH", (ro.Combo(op1, A2, B2), X2)))
                    mon.alts.append((key, "BOTH", (ro.Combo(op1, A2, B2), X)))
                    mon.alts.append((key, "BOTH", (inner, X2)))
                check_result(mon, R2, op2, inner, X, P[sel], m1[sel], mX[sel], f1[sel], fX[sel], None, None, rng, label=f"[nested: A:=(A.{OPNAME[op1]}(B)), B:={which}]", variants=variants)
                mon.alts = saved

    # --- intersects
    k, r = outcome(SA.intersects, SB)
    if k == "unsupported":
        mon.bump("intersects_not_accepted")
    elif k != "ok":
        mon.report("intersects.error", f"A.intersects(B) raised {r}; A={_short(A)} B={_short(B)}", {"error": r})
    else:
        both = np.where(ro.and3(mA, mB) == 1)[0]
        want = None
        if len(both):
            want, why = True, f"{fmt(P[both[0]])} belongs to both"
        elif definite_disjoint(A, B):
            want, why = False, "their bounding boxes are separated"
        if want is None:
            mon.skip("intersects_undecided_by_oracle")
        else:
            mon.bump("intersects_definite")
            mon.bump(f"intersects_expected_{want}")
            if bool(r) != want:
                mon.report("intersects", f"A.intersects(B) = {bool(r)} but {why}; A={_short(A)} B={_short(B)}", {"obs": bool(r), "alt_key": explain_point(mon, "and", A, B, P[both[0]], False) if want and len(both) else None})

    # --- containsRegion
    k, r = outcome(SA.containsRegion, SB)
    if k == "unsupported":
        mon.bump("containsRegion_not_accepted")
    elif k != "ok":
        mon.report("containsRegion.error", f"A.containsRegion(B) raised {r}; A={_short(A)} B={_short(B)}", {"error": r})
    else:
        want = definite_contains(A, B, rng)
        if want is None:
            mon.skip("containsRegion_undecided_by_oracle")
        else:
            mon.bump("containsRegion_definite")
            mon.bump(f"containsRegion_expected_{want}")
            if bool(r) != want:
                ak = None
                if any(k_ == SECTOR_TRUNC for k_, _, _ in mon.alts) and hasattr(SA, "polygons") and hasattr(SB, "polygons"):
                    try:
                        ak = SECTOR_TRUNC if bool(SA.polygons.contains(SB.polygons)) == bool(r) else None
                    except Exception:
                        ak = None
                mon.report("containsRegion", f"A.containsRegion(B) = {bool(r)} but B is {'a subset of A' if want else 'not a subset of A (a point of B lies outside A)'}; A={_short(A)} B={_short(B)}", {"obs": bool(r), "alt_key": ak})

    # --- lazily constructed operands: random parameters (sampled) and delayed arguments (evaluated)
    if A.kind in LAZYABLE or B.kind in LAZYABLE:
        from scenic.core.distributions import needsSampling
        from scenic.core.lazy_eval import LazilyEvaluable, valueInContext

        for mode in ("random", "delayed"):
            k1, LA = outcome(build_lazy, A, mode) if A.kind in LAZYABLE else ("ok", None)
            k2, LB = outcome(build_lazy, B, mode) if B.kind in LAZYABLE else ("ok", None)
            if k1 != "ok" or k2 != "ok":
                bad = LA if k1 != "ok" else LB
                if "error" in (k1, k2):
                    mon.report("lazy.error", f"constructing an operand with a {mode} parameter raised {bad}; A={_short(A)} B={_short(B)}", {"error": str(bad), "mode": mode})
                continue
            LA = LA if LA is not None else SA
            LB = LB if LB is not None else SB
            lazy_ops = OPS if mon.case.get("all_lazy_ops") else (OPS[int(rng.integers(0, 3))], "sub" if mode == "delayed" else "or")
            for op in dict.fromkeys(lazy_ops):
                k, RL = outcome(getattr(LA, OPNAME[op]), LB)
                if k == "unsupported":
                    mon.bump("lazy_op_not_accepted")
                    continue
                if k != "ok":
                    mon.report("lazy.error", f"A.{OPNAME[op]}(B) with {mode} parameters raised {RL}; A={_short(A)} B={_short(B)}", {"op": op, "error": RL, "mode": mode})
                    continue
                if mode == "random":
                    k, RS = outcome(lambda: RL.sample() if needsSampling(RL) else RL)
                else:
                    ctx = LazilyEvaluable.makeContext(verifprop=1)
                    k, RS = outcome(valueInContext, RL, ctx)
                if k == "unsupported":
                    mon.bump("lazy_op_not_accepted")
                    continue
                if k != "ok":
                    mon.report("lazy.error", f"{'sampling' if mode == 'random' else 'evaluating'} A.{OPNAME[op]}(B) built from {mode} parameters raised {RS}; A={_short(A)} B={_short(B)}", {"op": op, "error": RS, "mode": mode})
                    continue
                mon.bump("lazy_results_checked")
                mon.bump(f"lazy_{mode}_results")
                eager = results.get(op)
                if eager is not None and _rclass(eager) != _rclass(RS):
                    mon.bump("lazy_result_class_differs_from_eager")
                subP = rng.permutation(len(P))[: max(18, len(P) // 6)]
                check_result(mon, RS, op, A, B, P[subP], mA[subP], mB[subP], fA[subP], fB[subP], None if dA is None else dA[subP], None if dB is None else dB[subP], rng, label=f"[{mode}-parameter operands]")
    return mon


def run_shard(spec):
    from rt import su

    tier = spec["tier"]
    res = {"evaluations": 0, "nontrivial": [], "counters": {}, "samples": [], "violations": [], "skipped": {}}
    for ka, kb, inst in spec["tasks"]:
        case = gen_case(ka, kb, inst, spec["seed"], tier)
        mon = check_case(case, res["counters"], res["skipped"])
        res["evaluations"] += 1
        if mon.nontrivial:
            res["nontrivial"].append(su.h([case["A"], case["B"]]))
        if len(res["samples"]) < 2 and mon.nontrivial:
            res["samples"].append({"A": case["A"], "B": case["B"], "relation": case["relation"]})
        res["violations"].extend(mon.viol)
    # history-dependent: one footprint object composed at very different heights in sequence
    from rt import footprint_reuse

    v, c = footprint_reuse.run(spec["seed"] * 131 + spec["shard"])
    res["violations"].extend(v)
    for k, n in c.items():
        res["counters"][k] = res["counters"].get(k, 0) + n
    return res


def replay(w):
    if w.get("check") == "footprint-reuse":
        from rt import footprint_reuse

        return footprint_reuse.run(w["seed"])[0]
    C, S = {}, {}
    case = {k: w[k] for k in ("A", "B", "relation", "pseed", "nprobe")}
    case["all_lazy_ops"] = True
    mon = check_case(case, C, S)
    want = w.get("check")
    out = [v for v in mon.viol if v["witness"].get("check") == want and v["key"] == w.get("key")] or [v for v in mon.viol if v["witness"].get("check") == want] or mon.viol
    for v in out:
        v["what"] = f"key={v['key']} " + v["what"]
    return out
