"""C12 — simulation steps run in the documented order and stop at the documented step.

Scheduler event log (user-code events from compose blocks / monitors / behaviours / record expressions plus a
logging Simulation subclass for executeActions / step / updateObjects) of real simulations, compared with the
executable model of the ten documented steps in rt/dynmodel.py (SimModel), under several agent schedules.
"""

import itertools
import random

PROPERTY = "C12"
LEVEL = "exploration"
RULE = (
    "seeded programs of the core dynamic fragment: 1-3 agents whose behaviours use take / wait / wait for "
    "(steps, seconds) / wait until / do / do-for / do-until / loops / terminate / terminate simulation; "
    "monitors (require monitor) that wait, log and may terminate; records (record / record initial / record "
    "final); terminate after (steps, seconds), terminate when, terminate simulation when; top-level and "
    "modular form (Main with setup+compose running sub-scenarios sequentially / in parallel / for / until, "
    "sub-scenarios with their own limits, monitors and records); time steps 1, 0.5, 0.25; step limit; each "
    "program under identity, reversed and rotating agent schedules. Non-trivial = the run executed >= 1 full "
    "step and ended by something other than the step limit, or used >= 2 agents; distinct = (program, schedule)."
)
ASSUMPTIONS = [
    "reference model rt/dynmodel.py (SimModel/ScenModel) written from docs/reference/dynamic_scenarios.rst; calibrated choices for orders the reference leaves open are listed in dynmodel.CALIBRATED",
    "conditions are pure functions of the current step",
]
MIN_COUNTERS = {
    "quick": {"runs": 1000, "programs": 400, "term_scenarioComplete": 100, "term_timeLimit": 100, "term_terminatedByBehavior": 40, "term_terminatedByMonitor": 20, "term_simulationTerminationCondition": 20, "modular_form": 100, "multi_agent": 150, "nonidentity_schedule": 300},
    "thorough": {"runs": 11000, "programs": 5000, "term_scenarioComplete": 1200, "term_timeLimit": 1200, "term_terminatedByBehavior": 500, "term_terminatedByMonitor": 250, "term_simulationTerminationCondition": 250, "modular_form": 1200, "multi_agent": 2000, "nonidentity_schedule": 3500},
}
MANIFEST_ENTRY = {
    "technique": "runtime monitoring: scheduler event log of real simulations checked against an executable model of the documented step order (history + reference model), under permuted agent schedules",
    "text": "Generated dynamic programs are compiled and simulated by the real code with a logging Simulation subclass; the complete ordered event log (compose / monitor / behaviour statements, record evaluations, executeActions, step, updateObjects with their time stamps), trajectory and action-log lengths, records and termination type must equal what an independent model of the ten documented steps produces, for identity / reversed / rotating agent schedules. Bounded exploration of a generated fragment; nothing is claimed beyond it.",
    "note": "Trusts rt/dynmodel.py; three orders the reference leaves unspecified are calibrated to the implementation and listed in dynmodel.CALIBRATED. Agents created by sub-scenarios at run time are outside the fragment.",
}

NATOMS = 2


def gen_program(rng):
    ids = itertools.count(1)
    nid = lambda: next(ids)
    dt = rng.choice([1, 1, 0.5, 0.25])
    maxSteps = rng.randint(4, 9)

    def dur():
        if rng.random() < 0.6:
            return rng.randint(1, 3), "steps"
        return rng.randint(1, 4) * dt, "seconds"

    def cond():
        if rng.random() < 0.75:
            return ["t>=", rng.randint(1, 6)]
        return ["tab", rng.randrange(NATOMS)]

    subbeh = [f"S{i}" for i in range(rng.randint(0, 2))]

    def beh_body(depth, allow_sub, n=None):
        out = []
        for _ in range(n or rng.randint(1, 4)):
            r = rng.random()
            if r < 0.4:
                out.append(["take", nid()])
            elif r < 0.5:
                out.append(["wait", nid()])
            elif r < 0.6:
                out.append(["waitfor", nid(), *dur()])
            elif r < 0.66:
                out.append(["waituntil", nid(), cond()])
            elif r < 0.78 and allow_sub and subbeh:
                s = rng.choice(subbeh)
                rr = rng.random()
                if rr < 0.4:
                    out.append(["do", nid(), s])
                elif rr < 0.75:
                    out.append(["dofor", nid(), s, *dur()])
                else:
                    out.append(["dountil", nid(), s, cond()])
            elif r < 0.88 and depth > 0:
                out.append(["loop", rng.randint(2, 3), beh_body(depth - 1, allow_sub, n=rng.randint(1, 2))])
            elif r < 0.92:
                out.append(["terminate", nid()])
            elif r < 0.95:
                out.append(["terminatesim", nid()])
            else:
                out.append(["log", nid()])
        return out

    behaviors = {}
    for s in subbeh:
        b = beh_body(1, False, n=rng.randint(2, 4))
        b = [st for st in b if st[0] not in ("terminate", "terminatesim")] or [["take", nid()]]
        if not any(st[0] in ("take", "wait", "waitfor") for st in b):
            b.append(["take", nid()])
        behaviors[s] = {"body": b}
    nag = rng.choice([1, 1, 2, 2, 3])
    agents = []
    for i in range(nag):
        b = beh_body(1, True)
        if not any(st[0] in ("take", "wait", "waitfor", "waituntil", "do", "dofor", "dountil", "loop", "terminate", "terminatesim") for st in b):
            b.append(["take", nid()])
        if rng.random() < 0.3:
            b = [["forever", b + [["take", nid()]]]]

        def has_yield(stmts):
            return any(st[0] in ("take", "wait", "waitfor", "waituntil", "do", "dofor", "dountil", "terminate", "terminatesim") or (st[0] == "loop" and has_yield(st[2])) or (st[0] == "forever" and has_yield(st[1])) for st in stmts)

        if not has_yield(b):
            b.append(["take", nid()])
        behaviors[f"B{i}"] = {"body": b}
        agents.append(["agent", f"a{i}", f"B{i}"])

    monitors = {}

    def monitor_body():
        r = rng.random()
        if r < 0.4:
            return [["forever", [["log", nid()], ["wait", nid()]]]]
        if r < 0.7:
            return [["waituntil", nid(), cond()], ["log", nid()], [rng.choice(["terminate", "terminatesim"]), nid()]]
        return [["loop", rng.randint(1, 3), [["log", nid()], ["wait", nid()]]], ["log", nid()], ["wait", nid()]]

    def extras(allow_simwhen, nmon, top=True):
        out = []
        if rng.random() < 0.35:
            out.append(["terminate_after", *dur()])
        if rng.random() < 0.25:
            out.append(["terminate_when", cond()])
        if allow_simwhen and rng.random() < 0.2:
            out.append(["terminate_sim_when", cond()])
        for _ in range(nmon):
            m = f"M{len(monitors)}"
            monitors[m] = {"body": monitor_body()}
            out.append(["require_monitor", m])
        for kind in ("record", "record_initial", "record_final") if top else ("record",):
            if rng.random() < 0.3:
                out.append([kind, nid()])
        rng.shuffle(out)
        return out

    scenarios = {}
    form = "modular" if rng.random() < 0.45 else "toplevel"
    if form == "toplevel":
        scenarios["Main"] = {"setup": agents + extras(True, rng.choice([0, 0, 1, 2])), "compose": None}
    else:
        subs = [f"Sub{i}" for i in range(rng.randint(1, 3))]
        for sname in subs:
            comp = None
            if rng.random() < 0.75:
                comp = []
                for _ in range(rng.randint(1, 3)):
                    r = rng.random()
                    if r < 0.4:
                        comp.append(["wait", nid()])
                    elif r < 0.6:
                        comp.append(["waitfor", nid(), *dur()])
                    elif r < 0.7:
                        comp.append(["waituntil", nid(), cond()])
                    elif r < 0.85:
                        comp.append(["loop", 2, [["log", nid()], ["wait", nid()]]])
                    elif r < 0.93:
                        comp.append(["terminate", nid()])
                    else:
                        comp.append(["log", nid()])
                if not any(st[0] in ("wait", "waitfor", "waituntil", "loop") for st in comp):
                    comp.append(["wait", nid()])
            setup = extras(False, rng.choice([0, 0, 1]), top=False)
            if comp is None and not any(st[0] in ("terminate_after", "terminate_when") for st in setup):
                setup.append(["terminate_after", *dur()])
            scenarios[sname] = {"setup": setup, "compose": comp}
        comp = []
        for _ in range(rng.randint(1, 3)):
            r = rng.random()
            names = rng.sample(subs, rng.randint(1, min(2, len(subs))))
            if r < 0.35:
                comp.append(["dosc", nid(), names])
            elif r < 0.5:
                comp.append(["doscfor", nid(), names, *dur()])
            elif r < 0.62:
                comp.append(["doscuntil", nid(), names, cond()])
            elif r < 0.75:
                comp.append(["wait", nid()])
            elif r < 0.85:
                comp.append(["waitfor", nid(), *dur()])
            elif r < 0.9:
                comp.append(["terminate", nid()])
            elif r < 0.93:
                comp.append(["terminatesim", nid()])
            else:
                comp.append(["log", nid()])
        if not any(st[0] in ("dosc", "doscfor", "doscuntil", "wait", "waitfor") for st in comp):
            comp.insert(0, ["dosc", nid(), [subs[0]]])
        if rng.random() < 0.3:
            comp.append(["forever", [["wait", nid()]]])
        scenarios["Main"] = {"setup": agents + extras(True, rng.choice([0, 0, 1])), "compose": comp}
    L = 14
    table = [[rng.random() < 0.4 for _ in range(L)] for _ in range(NATOMS)]
    return {"timestep": dt, "maxSteps": maxSteps, "form": form, "behaviors": behaviors, "monitors": monitors, "scenarios": scenarios, "table": table}


SCHEDULES = {
    "identity": lambda t, n: list(range(n)),
    "reversed": lambda t, n: list(reversed(range(n))),
    "rotating": lambda t, n: [(i + t) % n for i in range(n)] if n else [],
}

KINDS = ("take", "wait", "log", "require", "terminate", "terminatesim", "waitfor", "waituntil", "do", "dofor", "dountil", "dosc", "doscfor", "doscuntil", "rec", "exec", "simstep", "update")


def _make_simulator(schedule):
    from rt import su
    from scenic.core.simulators import DummySimulation, DummySimulator

    class LogSimulation(DummySimulation):
        def executeActions(self, allActions):
            su.script.LOG.append(("exec", tuple(sorted((a.vname, tuple(acts)) for a, acts in allActions.items() if acts)), self.currentTime))
            super().executeActions(allActions)

        def step(self):
            su.script.LOG.append(("simstep", None, self.currentTime))
            super().step()

        def updateObjects(self):
            su.script.LOG.append(("update", None, self.currentTime))
            super().updateObjects()

        def scheduleForAgents(self):
            order = schedule(self.currentTime, len(self.agents))
            return [self.agents[i] for i in order]

    class LogSimulator(DummySimulator):
        def createSimulation(self, scene, **kw):
            return LogSimulation(scene, drift=0, **kw)

    return LogSimulator()


def real_run(scene, prog, schedule):
    from rt import su

    su.script.TABLE = {i: row for i, row in enumerate(prog["table"])}
    su.script.EXTRA["mode"] = "bool"
    su.script.LOG.clear()
    sim = _make_simulator(schedule)
    try:
        s = sim.simulate(scene, maxSteps=prog["maxSteps"], maxIterations=1, timestep=prog["timestep"], verbosity=0)
    except Exception as e:
        return {"outcome": f"error:{type(e).__name__}: {str(e)[:160]}", "log": _log()}
    if s is None:
        return {"outcome": "reject", "log": _log()}
    res = s.result
    acts = [{a.vname: tuple(v) for a, v in step.items()} for step in res.actions]
    recs = {}
    for k, v in res.records.items():
        recs[k] = [tuple(x) for x in v] if isinstance(v, list) else v
    return {"outcome": "ok", "term": res.terminationType.name, "actions": acts, "steps": s.currentTime, "trajectory": len(res.trajectory), "records": recs, "log": _log()}


def _log():
    from rt import su

    return [tuple(e) for e in su.script.LOG if e[0] in KINDS]


def source(prog):
    from rt import dynmodel

    return dynmodel.program_src(prog).replace("with name ", "with vname ")


def _align(ml, rl):
    """model log may contain optional events ('rec?', id, t): each matches ('rec', id, t) or nothing.
    Returns None if the logs can be aligned, else (i, j) of the furthest point reached."""
    import functools
    import sys

    sys.setrecursionlimit(max(sys.getrecursionlimit(), 10000))
    best = [0, 0]

    @functools.lru_cache(maxsize=None)
    def go(i, j):
        if i + j > best[0] + best[1]:
            best[0], best[1] = i, j
        if i == len(ml) and j == len(rl):
            return True
        a = ml[i] if i < len(ml) else None
        b = rl[j] if j < len(rl) else None
        if a is not None and a[0] == "rec?":
            if b == ("rec", a[1], a[2]) and go(i + 1, j + 1):
                return True
            return go(i + 1, j)
        if a is None or a != b:
            return False
        return go(i + 1, j + 1)

    return None if go(0, 0) else (best[0], best[1])


def compare(m, r):
    if m["outcome"] != r["outcome"]:
        return f"outcome: model={m['outcome']} real={r['outcome']}"
    ml = [tuple(e) for e in m["log"]]
    bad = _align(ml, r["log"])
    if bad:
        i, j = bad
        return f"event log differs at entry {j}: model={ml[i:i+3]} real={r['log'][j:j+3]}"
    if m["outcome"] == "ok":
        if m["term"] != r["term"]:
            return f"termination type: model={m['term']} real={r['term']}"
        if m["steps"] != r["steps"]:
            return f"final clock: model={m['steps']} real={r['steps']}"
        if r["trajectory"] != r["steps"] + 1:
            return f"trajectory has {r['trajectory']} states for {r['steps']} steps"
        if len(r["actions"]) != r["steps"]:
            return f"action log has {len(r['actions'])} entries for {r['steps']} executed steps"
        ma = [{k: v for k, v in a.items() if v} for a in m["actions"]]
        ra = [{k: v for k, v in a.items() if v} for a in r["actions"]]
        if ma != ra:
            k = next((i for i, (a, b) in enumerate(zip(ma, ra)) if a != b), min(len(ma), len(ra)))
            return f"actions differ at step {k}: model={ma[k:k+2]} real={ra[k:k+2]}"
        opt = set(tuple(x) for x in m.get("optional_records", []))
        keys = set(m["records"]) | set(r["records"])
        for k in sorted(keys):
            mv, rv = m["records"].get(k), r["records"].get(k)
            if isinstance(mv, list) or isinstance(rv, list):
                left = list(rv or [])
                for x in mv or []:
                    if tuple(x) in [tuple(y) for y in left]:
                        left.remove(next(y for y in left if tuple(y) == tuple(x)))
                    else:
                        return f"record {k}: entry {x} missing: model={mv} real={rv}"
                extra = [y for y in left if (k, y[0]) not in opt]
                if extra:
                    return f"record {k}: unexpected entries {extra}: model={mv} real={rv}"
            elif mv != rv:
                return f"record {k}: model={mv} real={rv}"
    return None


def plan(tier, seed):
    n_prog = 560 if tier == "quick" else 6400
    n_sh = 16 if tier == "quick" else 64
    return [{"shard": i, "programs": n_prog // n_sh, "timeout": 1500 if tier == "quick" else 3400} for i in range(n_sh)]


def classify(prog, m, r, d):
    return None


def check_program(prog, res, bump):
    from rt import dynmodel, su
    import scenic

    src = source(prog)
    kw = {"scenario": "Main"} if prog["form"] == "modular" else {}
    try:
        scenario = scenic.scenarioFromString(src, **kw)
        scene, _ = scenario.generate(maxIterations=1)
    except Exception as e:
        return [(None, f"a program of the fragment does not compile/generate: {type(e).__name__}: {str(e)[:160]}", None)], src, 0
    bump("programs")
    nag = sum(1 for st in prog["scenarios"]["Main"]["setup"] if st[0] == "agent")
    if prog["form"] == "modular":
        bump("modular_form")
    viol = []
    nontriv = 0
    names = ["identity"] if nag < 2 else ["identity", "reversed", "rotating"]
    for sname in names:
        sched = SCHEDULES[sname]
        m = dynmodel.SimModel(prog, prog["table"], sched).run()
        r = real_run(scene, prog, sched)
        res["evaluations"] += 1
        bump("runs")
        if nag >= 2:
            bump("multi_agent")
        if sname != "identity":
            bump("nonidentity_schedule")
        if m["outcome"] == "ok":
            bump("term_" + m["term"])
        else:
            bump("outcome_" + m["outcome"])
        d = compare(m, r)
        if d:
            viol.append((classify(prog, m, r, d), f"[schedule {sname}] " + d, sname))
        if (m["outcome"] == "ok" and m["steps"] >= 1 and m["term"] != "timeLimit") or nag >= 2:
            nontriv += 1
    return viol, src, nontriv


def run_shard(spec):
    from rt import su

    res = {"evaluations": 0, "nontrivial": [], "counters": {}, "samples": [], "violations": [], "skipped": {}}
    C = res["counters"]

    def bump(k, n=1):
        C[k] = C.get(k, 0) + n

    seen = set()
    for i in range(spec["programs"]):
        pseed = (spec["seed"] * 1000003 + spec["shard"]) * 100003 + i
        rng = random.Random(pseed)
        prog = gen_program(rng)
        viol, src, nontriv = check_program(prog, res, bump)
        for k in range(nontriv):
            res["nontrivial"].append(su.h([pseed, k]))
        if len(res["samples"]) < 1 and nontriv:
            res["samples"].append({"program": src, "timestep": prog["timestep"], "maxSteps": prog["maxSteps"]})
        for key, what, sname in viol[:1]:
            sig = key or what[:70]
            if sig in seen:
                continue
            seen.add(sig)
            res["violations"].append({"key": key, "what": what + f" || dt={prog['timestep']} maxSteps={prog['maxSteps']} || " + src.replace("\n", " ; ")[:1500], "witness": {"pseed": pseed, "schedule": sname}})
    return res


def replay(w):
    rng = random.Random(w["pseed"])
    prog = gen_program(rng)
    res = {"evaluations": 0, "skipped": {}}
    viol, src, _ = check_program(prog, res, lambda *a: None)
    return [{"key": k, "what": what, "witness": w} for k, what, s in viol]
