"""C07 — built-in specifiers and operators have their documented geometric meaning.

Generated Scenic programs (random full-3D / 2D-mode worlds: ego, reference objects with non-global
parentOrientation, oriented points, heading and orientation vector fields, regions) are compiled and sampled
through the real front end; positions / orientations / corners / operator values are read back from the
scene and compared with closed-form geometry computed by rt/geo7.py (own numpy rotation matrices written
from the documented conventions, corner enumeration).  A second family drives the Orientation / Vector API
directly and compares with the same matrices.
"""

import math
import random

import numpy as np

PROPERTY = "C07"
LEVEL = "exploration"
RULE = (
    "random worlds (positions up to +-100, full yaw/pitch/roll, non-global parentOrientation, random sizes, "
    "some values drawn from Range distributions and read back from the scene) x one generator per documented "
    "form: six directional specifiers x {Object, OrientedPoint, vector} x {no by, by scalar, by vector}, "
    "beyond (2/3 args, scalar/vector), offset by, offset along (heading/orientation/field), relative to / "
    "offset by operators (all documented forms), following / follow, on (vector, region with/without "
    "orientation, Object; specifying and modifying), the 18 side/edge/corner operators, the facing family "
    "under global / yaw-only / full-3D parent orientations, distance / angle / altitude / relative heading / "
    "apparent heading / distance past / relative position, field at, and Orientation/Vector algebra "
    "identities; 3D and 2D compatibility mode. A case is non-trivial when the pose involved is not "
    "axis-aligned and not at the origin; distinct = distinct (form, argument kinds, mode) signature x case."
)
ASSUMPTIONS = [
    "conventions from the docs: heading 0 = +Y, counter-clockwise positive; orientation = intrinsic yaw(Z), pitch(X), roll(Y); width/length/height along local X/Y/Z",
    "the local frame of `beyond` has zero roll (yaw = azimuth, pitch = altitude of the line of sight)",
    "directional specifiers: the gap is measured with corner enumeration only when the new object keeps the inherited orientation (the specifier is documented to depend on one dimension only)",
    "`on` without `by`: base = position + baseOffset in the parent frame, lifted by contactTolerance/2; references for `on Object` are tilted < 0.35 rad so that the top surface is the local +Z face",
    "`following` uses the documented forward-Euler scheme with max(minSteps, ceil(D/defaultStepSize)) equal steps",
    "quaternion -> matrix conversion of the values read from the scene is done by the oracle (not scipy/Scenic)",
    "`apparently facing` / `distance past` are only judged for parents / points with zero pitch and roll (3D meaning not documented)",
]
MIN_COUNTERS = {
    "quick": {
        "programs_sampled": 300,
        "cases_checked": 6000,
        "kind_dir": 1500,
        "kind_beyond": 200,
        "kind_offsetby": 100,
        "kind_offsetalong": 150,
        "kind_relto": 300,
        "kind_following": 100,
        "kind_on": 200,
        "kind_side": 300,
        "kind_facing": 500,
        "kind_scalarop": 500,
        "kind_algebra": 500,
        "mode_2d": 500,
        "mode_3d": 3000,
        "world_checks": 1000,
    },
    "thorough": {
        "programs_sampled": 5000,
        "cases_checked": 100000,
        "kind_dir": 25000,
        "kind_beyond": 3000,
        "kind_offsetby": 1500,
        "kind_offsetalong": 2500,
        "kind_relto": 5000,
        "kind_following": 1500,
        "kind_on": 3000,
        "kind_side": 5000,
        "kind_facing": 8000,
        "kind_scalarop": 8000,
        "kind_algebra": 8000,
        "mode_2d": 8000,
        "mode_3d": 50000,
        "world_checks": 15000,
    },
}

TOL = 2e-7  # relative to (1 + magnitude)
COMMON = "with allowCollisions True, with requireVisible False"


def plan(tier, seed):
    n = 16 if tier == "quick" else 64
    progs = 26 if tier == "quick" else 50
    return [{"shard": i, "programs": progs, "timeout": 1500 if tier == "quick" else 3000} for i in range(n)]


# ----------------------------------------------------------------------------------------------
# formatting helpers


def f4(x):
    s = f"{x:.4f}"
    return s


def fv(v):
    return "(" + ", ".join(f4(float(c)) for c in v) + ")"


def rnd(rng, lo, hi):
    return float(f4(rng.uniform(lo, hi)))


class Ent:
    """An entity of the oracle's world model."""

    def __init__(self, name, kind, pos, R, dims=(0.0, 0.0, 0.0)):
        self.name = name
        self.kind = kind  # 'obj' | 'op'
        self.pos = np.array(pos, dtype=float)
        self.R = np.array(R, dtype=float)
        self.dims = np.array(dims, dtype=float)


class Field:
    def __init__(self, name, kind, coef):
        self.name, self.kind, self.coef = name, kind, coef

    def text(self):
        c = self.coef
        if self.kind == "const":
            return f'{self.name} = VectorField("{self.name}", lambda pos: {f4(c[0])})'
        if self.kind == "heading":
            return f'{self.name} = VectorField("{self.name}", lambda pos: {f4(c[0])} + {f4(c[1])} * pos.x + {f4(c[2])} * pos.y)'
        return (
            f'{self.name} = VectorField("{self.name}", lambda pos: Orientation.fromEuler('
            f"{f4(c[0])} + {f4(c[1])} * pos.x, {f4(c[2])} + {f4(c[3])} * pos.y, {f4(c[4])} + {f4(c[5])} * pos.z))"
        )

    def at(self, p):
        from rt import geo7 as G

        c = self.coef
        if self.kind == "const":
            return G.euler(c[0])
        if self.kind == "heading":
            return G.euler(c[0] + c[1] * p[0] + c[2] * p[1])
        return G.euler(c[0] + c[1] * p[0], c[2] + c[3] * p[1], c[4] + c[5] * p[2])


# ----------------------------------------------------------------------------------------------
# program generation


class Ctx:
    def __init__(self, rng, mode, randomized):
        self.rng = rng
        self.mode = mode  # '3d' | '2d'
        self.randomized = randomized
        self.lines = []
        self.cases = []  # (kind, sig, first_line, last_line, checker)
        self.k = 0
        self.ents = {}
        self.entdefs = {}
        self.fields = {}
        self.three = mode == "3d"
        self.randpos = False

    def uid(self):
        self.k += 1
        return self.k

    # random ingredients -----------------------------------------------------------------
    def pos(self, scale=100.0):
        r = self.rng
        s = r.choice((scale, scale, 10.0, 1.0))
        return np.array([rnd(r, -s, s), rnd(r, -s, s), rnd(r, -s, s) if self.three else 0.0])

    def off(self, scale=8.0):
        r = self.rng
        return np.array([rnd(r, -scale, scale), rnd(r, -scale, scale), rnd(r, -scale, scale) if self.three else 0.0])

    def angles(self, tilt=1.45):
        r = self.rng
        if not self.three:
            return (rnd(r, -3.1, 3.1), 0.0, 0.0)
        return (rnd(r, -3.1, 3.1), rnd(r, -tilt, tilt), rnd(r, -min(3.1, 2 * tilt), min(3.1, 2 * tilt)))

    def dims(self):
        r = self.rng
        return np.array([rnd(r, 0.2, 6), rnd(r, 0.2, 6), rnd(r, 0.2, 6)])

    def vtext(self, v):
        if self.three:
            return fv(v)
        return fv(v[:2]) if self.rng.random() < 0.7 else fv(v)

    def otext(self, a):
        """Text of an orientation-valued argument for `facing`."""
        if not self.three:
            return f4(a[0])
        return fv(a)


def build_world(cx, tilt_small=False):
    """ego, reference objects A (parentOrientation + local angles) and B (facing), oriented points Q, Q2, fields."""
    from rt import geo7 as G

    r = cx.rng
    L = cx.lines
    L.append("import verif_script as V")

    def rangetext(x, w):
        if cx.randomized and r.random() < 0.5:
            return f"Range({f4(x - w)}, {f4(x + w)})"
        return f4(x)

    def define(name, cls, style):
        p = cx.pos()
        d = cx.dims()
        tilt = 0.33 if (tilt_small and name in ("A", "B")) else 1.45
        ptext = rangetext if cx.randpos else (lambda x, w: f4(x))
        if cx.three:
            ptxt = "(" + ", ".join(ptext(c, 3.0) for c in p) + ")"
        else:
            ptxt = "(" + ", ".join(ptext(c, 3.0) for c in p[:2]) + ")"
        spec = [f"at {ptxt}"]
        info = {"cls": cls, "style": style}
        if style == "facing":
            a = cx.angles(tilt)
            if tilt_small and name in ("A", "B") and cx.three:
                a = (a[0], rnd(r, -0.3, 0.3), rnd(r, -0.3, 0.3))
            spec.append(f"facing {cx.otext(a)}")
            info["facing"] = a
        elif style == "parent":
            if cx.three:
                pa = cx.angles(tilt / 2 if tilt_small else tilt)
                la = cx.angles(tilt / 2 if tilt_small else tilt)
                if tilt_small:
                    pa = (pa[0], pa[1] / 2, pa[2] / 4)
                    la = (la[0], la[1] / 2, la[2] / 4)
                    pa = tuple(float(f4(c)) for c in pa)
                    la = tuple(float(f4(c)) for c in la)
                spec.append(f"with parentOrientation {fv(pa)}")
                spec.append(f"with yaw {rangetext(la[0], 0.2)}")
                spec.append(f"with pitch {rangetext(la[1], 0.05)}")
                spec.append(f"with roll {rangetext(la[2], 0.05)}")
            else:
                pa = cx.angles()
                la = cx.angles()
                spec.append(f"with parentOrientation {f4(pa[0])}")
                spec.append(f"with yaw {rangetext(la[0], 0.2)}")
            info["parent"] = pa
        else:
            info["facing"] = (0.0, 0.0, 0.0)
        if cls == "Object":
            spec.append(f"with width {rangetext(d[0], 0.1)}")
            spec.append(f"with length {rangetext(d[1], 0.1)}")
            if cx.three:
                spec.append(f"with height {rangetext(d[2], 0.1)}")
            spec.append(COMMON)
        r.shuffle(spec)
        L.append(f"{name} = new {cls} " + ", ".join(spec))
        if cls == "Object":
            L[-1] += f", with vid '{name}'"
        else:
            L.append(f"param w_{name} = {name}")
        cx.entdefs[name] = info

    define("ego", "Object", r.choice(("facing", "parent")))
    L[-1] = L[-1]  # ego is assigned by name
    define("A", "Object", "parent")
    define("B", "Object", "facing")
    define("Q", "OrientedPoint", "facing")
    define("Q2", "OrientedPoint", "parent")
    cx.fields["FH"] = Field("FH", "const", [rnd(r, -3, 3)])
    cx.fields["FV"] = Field("FV", "heading", [rnd(r, -3, 3), rnd(r, -0.02, 0.02), rnd(r, -0.02, 0.02)])
    if cx.three:
        cx.fields["FO"] = Field(
            "FO",
            "orient",
            [rnd(r, -3, 3), rnd(r, -0.02, 0.02), rnd(r, -1, 1), rnd(r, -0.005, 0.005), rnd(r, -1.5, 1.5), rnd(r, -0.01, 0.01)],
        )
    for f in cx.fields.values():
        L.append(f.text())


class SceneView:
    """Values read back from the sampled scene + the oracle's world model."""

    def __init__(self, cx, scene):
        from rt import geo7 as G

        self.cx = cx
        self.scene = scene
        self.params = scene.params
        self.byid = {}
        for o in scene.objects:
            vid = getattr(o, "vid", None)
            if vid is not None:
                self.byid[vid] = o
        self.W = {}
        for name, info in cx.entdefs.items():
            o = self.byid[name] if info["cls"] == "Object" else self.params["w_" + name]
            pos = np.array([float(c) for c in o.position])
            if "facing" in info:
                R = G.euler(*info["facing"])
            else:
                R = G.euler(*info["parent"]) @ G.euler(float(o.yaw), float(o.pitch), float(o.roll))
            dims = (float(o.width), float(o.length), float(o.height)) if info["cls"] == "Object" else (0, 0, 0)
            self.W[name] = Ent(name, "obj" if info["cls"] == "Object" else "op", pos, R, dims)
            self.W[name].scenic = o

    def new(self, k):
        return self.read(self.byid[k])

    def read(self, o):
        from rt import geo7 as G

        e = Ent(
            None,
            "obj",
            [float(c) for c in o.position],
            G.quat_to_mat(o.orientation.q),
            (float(o.width), float(o.length), float(o.height)),
        )
        e.scenic = o
        return e


def vclose(a, b, scale=None):
    a = np.asarray(a, dtype=float)
    b = np.asarray(b, dtype=float)
    s = 1.0 + float(max(np.abs(a).max(), np.abs(b).max())) if scale is None else scale
    return bool(np.all(np.isfinite(a))) and float(np.abs(a - b).max()) <= TOL * s


def rclose(A, B):
    return float(np.abs(np.asarray(A) - np.asarray(B)).max()) <= 1e-7


def aclose(a, b):
    from rt import geo7 as G

    return G.ang_diff(float(a), float(b)) <= 1e-7


def tovec(v):
    return np.array([float(c) for c in v])


# ---- case generators: each appends program lines and returns (sig, checker) -----------------------
# checker(sv) -> list of discrepancy strings ("" none) or the string "skip:<reason>"


def newobj_line(cx, k, specs, dims=None, extra=()):
    parts = list(specs)
    if dims is not None:
        parts.append(f"with width {f4(dims[0])}")
        parts.append(f"with length {f4(dims[1])}")
        if cx.three:
            parts.append(f"with height {f4(dims[2])}")
    parts.extend(extra)
    cx.rng.shuffle(parts)
    return f"n{k} = new Object " + ", ".join(parts) + f", {COMMON}, with vid {k}"


def gen_dir(cx):
    from rt import geo7 as G

    r = cx.rng
    k = cx.uid()
    dirs = ("left", "right", "ahead", "behind", "above", "below") if cx.three else ("left", "right", "ahead", "behind")
    d = r.choice(dirs)
    kw = {"left": "left of", "right": "right of", "ahead": "ahead of", "behind": "behind", "above": "above", "below": "below"}[d]
    xk = r.choice(("obj", "obj", "op", "vec"))
    byk = r.choice(("none", "scalar", "scalar", "vector"))
    dims = cx.dims()
    extra = []
    ct = None
    if r.random() < 0.4:
        ct = rnd(r, 0.0, 0.5)
        extra.append(f"with contactTolerance {f4(ct)}")
    D = None
    if byk == "scalar":
        D = rnd(r, 0, 10) if r.random() < 0.8 else rnd(r, -3, 0)
        by = f" by {f4(D)}"
        if cx.randomized and r.random() < 0.4:
            cx.lines.append(f"dv{k} = Range({f4(D - 0.5)}, {f4(D + 0.5)})")
            cx.lines.append(f"param dv{k} = dv{k}")
            by = f" by dv{k}"
            D = ("param", f"dv{k}")
    elif byk == "vector":
        D = cx.off(5.0)
        by = f" by {cx.vtext(D)}"
    else:
        by = ""
    localyaw = None
    if xk == "vec":
        X = cx.pos()
        xt = cx.vtext(X)
        style = r.choice(("facing", "parent", "none"))
        if style == "facing":
            extra.append(f"facing {cx.otext(cx.angles())}")
        elif style == "parent":
            pa, la = cx.angles(), cx.angles()
            if cx.three:
                extra += [f"with parentOrientation {fv(pa)}", f"with yaw {f4(la[0])}", f"with pitch {f4(la[1])}", f"with roll {f4(la[2])}"]
            else:
                extra += [f"with parentOrientation {f4(pa[0])}", f"with yaw {f4(la[0])}"]
    else:
        xt = r.choice(("A", "B", "ego")) if xk == "obj" else r.choice(("Q", "Q2"))
        if r.random() < 0.2:
            localyaw = rnd(r, -3, 3)
            extra.append(f"with yaw {f4(localyaw)}")
    cx.lines.append(newobj_line(cx, k, [f"{kw} {xt}{by}"], dims, extra))
    sig = f"dir.{d}.{xk}.{byk}" + (".yawed" if localyaw is not None else "")

    def check(sv):
        N = sv.new(k)
        out = []
        ax = G.AXES[d]
        i = G.AXIS_INDEX[d]
        sgn = ax[i]
        Dv = sv.params[D[1]] if isinstance(D, tuple) else D
        ctv = float(N.scenic.contactTolerance)
        if ct is not None and abs(ctv - ct) > 1e-12:
            out.append(f"contactTolerance read back {ctv} != {ct}")
        if not vclose(N.dims if cx.three else N.dims[:2], dims if cx.three else dims[:2]):
            out.append(f"dimensions read back {N.dims} != {dims}")
        if byk == "vector":
            along, lateral = float(Dv[i]), np.array([float(c) for c in Dv])
            lateral[i] = 0.0
        elif byk == "scalar":
            along, lateral = float(Dv), np.zeros(3)
        else:
            along, lateral = None, np.zeros(3)
        if xk == "vec":
            gap = 0.0 if along is None else along
            exp = X + N.R @ (ax * (N.dims[i] / 2 + gap) + lateral)
            if not vclose(N.pos, exp):
                out.append(f"position {N.pos} expected {exp} (side midpoint of the new box must be at X{'+D' if along else ''})")
            return out
        E = sv.W[xt]
        gap = along if along is not None else (ctv / 2 if xk == "obj" else 0.0)
        expR = E.R @ G.euler(localyaw or 0.0)
        if not rclose(N.R, expR):
            out.append(f"orientation not inherited from {xt}: got euler {G.euler_of(N.R)} expected {G.euler_of(expR)}")
        c = E.R.T @ (N.pos - E.pos)
        exp_c = lateral.copy()
        exp_c[i] = sgn * (E.dims[i] / 2 + N.dims[i] / 2 + gap)
        if not vclose(c, exp_c, scale=1 + float(np.abs(N.pos).max())):
            out.append(f"centre in {xt}'s frame {c} expected {exp_c} (gap {gap})")
        if localyaw is None:
            dvec = E.R @ ax
            cn = G.corners(N.pos, N.R, N.dims) @ dvec
            ce = G.corners(E.pos, E.R, E.dims) @ dvec
            g = float(cn.min() - ce.max())
            if abs(g - gap) > TOL * (1 + float(np.abs(N.pos).max()) + abs(gap)):
                out.append(f"gap between bounding boxes along {xt}'s {d} axis is {g!r}, expected {gap!r}")
        return out

    return "dir", sig, check


def gen_beyond(cx):
    from rt import geo7 as G

    r = cx.rng
    k = cx.uid()
    ak = r.choice(("vec", "obj"))
    if ak == "vec":
        Apos = cx.pos()
        at = cx.vtext(Apos)
    else:
        at = r.choice(("A", "B"))
    ok = r.choice(("scalar", "vector"))
    if ok == "scalar":
        O = rnd(r, -5, 20)
        ot = f4(O)
        Ov = np.array([0.0, O, 0.0])
    else:
        Ov = cx.off()
        ot = cx.vtext(Ov)
    bk = r.choice(("none", "vec", "op", "obj"))
    if bk == "none":
        bt, frm = "ego", ""
    elif bk == "vec":
        Bpos = cx.pos()
        bt = None
        frm = f" from {cx.vtext(Bpos)}"
    else:
        bt = r.choice(("Q", "Q2")) if bk == "op" else r.choice(("A", "B", "ego"))
        if bt == at:
            bt = "ego"
        frm = f" from {bt}"
    cx.lines.append(newobj_line(cx, k, [f"beyond {at} by {ot}{frm}"]))

    def check(sv):
        N = sv.new(k)
        A_ = Apos if ak == "vec" else sv.W[at].pos
        if bt is None:
            Bp, BR = Bpos, np.eye(3)
        else:
            Bp, BR = sv.W[bt].pos, sv.W[bt].R
        dvec = A_ - Bp
        if math.hypot(dvec[0], dvec[1]) < 1e-3:
            return "skip:vertical-line-of-sight"
        Rl = G.euler(G.azimuth(dvec), G.altitude(dvec), 0.0)
        exp = A_ + Rl @ Ov
        out = []
        if not vclose(N.pos, exp):
            out.append(f"position {N.pos} expected {exp}")
        if ok == "scalar":
            exp2 = A_ + O * dvec / np.linalg.norm(dvec)
            if not vclose(N.pos, exp2):
                out.append(f"position {N.pos} is not {O} beyond A on the line of sight ({exp2})")
        if not rclose(N.R, BR):
            key = "beyond.from-orientation-ignored" if (bt is not None and rclose(N.R, np.eye(3))) else None
            out.append((key, f"orientation euler {G.euler_of(N.R)} expected that of the `from` argument {G.euler_of(BR)}"))
        return out

    return "beyond", f"beyond.{ak}.{ok}.{bk}", check


def gen_offsetby(cx):
    from rt import geo7 as G

    k = cx.uid()
    V = cx.off()
    cx.lines.append(newobj_line(cx, k, [f"offset by {cx.vtext(V)}"]))

    def check(sv):
        N = sv.new(k)
        E = sv.W["ego"]
        out = []
        exp = E.pos + E.R @ V
        if not vclose(N.pos, exp):
            out.append(f"position {N.pos} expected ego.position + R_ego.V = {exp}")
        if not rclose(N.R, E.R):
            out.append(f"orientation {G.euler_of(N.R)} expected ego's {G.euler_of(E.R)}")
        return out

    return "offsetby", "offsetby.spec", check


def direction_arg(cx, at_name_or_pos):
    """Random direction argument for `offset along`: (text, kind, matrix-function(sv, position))"""
    from rt import geo7 as G

    r = cx.rng
    kinds = ["heading", "field"] + (["orient", "tuple"] if cx.three else [])
    dk = r.choice(kinds)
    if dk == "heading":
        h = rnd(r, -3.1, 3.1)
        return f4(h), "heading", lambda sv, p: G.euler(h)
    if dk == "orient":
        a = cx.angles()
        return f"Orientation.fromEuler({f4(a[0])}, {f4(a[1])}, {f4(a[2])})", "orient", lambda sv, p: G.euler(*a)
    if dk == "tuple":
        a = cx.angles()
        return fv(a), "tuple", lambda sv, p: G.euler(*a)
    f = cx.fields[r.choice(sorted(cx.fields))]
    return f.name, "field-" + f.kind, lambda sv, p: f.at(p)


def gen_offsetalong(cx):
    from rt import geo7 as G

    r = cx.rng
    k = cx.uid()
    V = cx.off()
    if r.random() < 0.5:
        dt, dk, Rf = direction_arg(cx, "ego")
        cx.lines.append(newobj_line(cx, k, [f"offset along {dt} by {cx.vtext(V)}"]))

        def check(sv):
            N = sv.new(k)
            E = sv.W["ego"]
            out = []
            exp = E.pos + Rf(sv, E.pos) @ V
            if not vclose(N.pos, exp):
                out.append(f"position {N.pos} expected {exp}")
            if not rclose(N.R, E.R):
                out.append(f"orientation {G.euler_of(N.R)} expected ego's {G.euler_of(E.R)}")
            return out

        return "offsetalong", f"offsetalong.spec.{dk}", check
    xk = r.choice(("vec", "ent"))
    dt, dk, Rf = direction_arg(cx, None)
    if xk == "vec":
        X = cx.pos()
        xt = cx.vtext(X)
    else:
        xt = r.choice(("A", "B", "Q", "ego"))
    cx.lines.append(f"param r{k} = {xt} offset along {dt} by {cx.vtext(V)}")

    def check2(sv):
        got = tovec(sv.params[f"r{k}"])
        base = X if xk == "vec" else sv.W[xt].pos
        exp = base + Rf(sv, base) @ V
        return [] if vclose(got, exp) else [f"value {got} expected {exp}"]

    return "offsetalong", f"offsetalong.op.{xk}.{dk}", check2


def gen_relto(cx):
    from rt import geo7 as G

    r = cx.rng
    k = cx.uid()
    forms = ["hh", "vv", "vv_offset", "v_op", "op_v", "op_offset", "field_h", "h_field", "field_field"]
    if cx.three:
        forms += ["oo", "oo", "field_o"]
    form = r.choice(forms)
    if form == "hh":
        a, b = rnd(r, -3, 3), rnd(r, -3, 3)
        cx.lines.append(f"param r{k} = {f4(a)} relative to {f4(b)}")

        def check_hh(sv):
            got = sv.params[f"r{k}"]
            if hasattr(got, "q"):  # an Orientation: must be the pure heading a+b
                return [] if rclose(G.quat_to_mat(got.q), G.euler(a + b)) else [f"{got} expected heading {a + b}"]
            return [] if aclose(got, a + b) else [f"{got} expected {a + b}"]

        return "relto", "relto.heading", check_hh
    if form in ("vv", "vv_offset"):
        a, b = cx.off(50), cx.pos()
        word = "relative to" if form == "vv" else "offset by"
        cx.lines.append(f"param r{k} = {cx.vtext(a)} {word} {cx.vtext(b)}")
        return "relto", "relto." + form, lambda sv: ([] if vclose(tovec(sv.params[f"r{k}"]), a + b) else [f"{sv.params[f'r{k}']} expected {a + b}"])
    if form in ("v_op", "op_v", "op_offset"):
        v = cx.off()
        e = r.choice(("A", "B", "Q", "Q2", "ego"))
        if form == "v_op":
            cx.lines.append(f"param r{k} = {cx.vtext(v)} relative to {e}")
        elif form == "op_v":
            cx.lines.append(f"param r{k} = {e} relative to {cx.vtext(v)}")
        else:
            cx.lines.append(f"param r{k} = {e} offset by {cx.vtext(v)}")
        # also use the result as a specifier argument: the new object must sit there and inherit nothing
        use = r.random() < 0.4
        if use:
            cx.lines.append(newobj_line(cx, k, [f"at ({cx.vtext(v)} relative to {e})"]))

        def check(sv):
            E = sv.W[e]
            p = sv.params[f"r{k}"]
            out = []
            exp = E.pos + E.R @ v
            if not hasattr(p, "orientation"):
                return [f"result is a {type(p).__name__}, expected an OrientedPoint"]
            if not vclose(tovec(p.position), exp):
                out.append(f"position {tovec(p.position)} expected {exp}")
            if not rclose(G.quat_to_mat(p.orientation.q), E.R):
                out.append(f"orientation of result differs from {e}'s")
            if use:
                N = sv.new(k)
                if not vclose(N.pos, exp):
                    out.append(f"`at (V relative to {e})` put the object at {N.pos} expected {exp}")
            return out

        return "relto", f"relto.{form}.{'op' if e.startswith('Q') else 'obj'}", check
    if form == "oo":
        a, b = cx.angles(), cx.angles()
        cx.lines.append(
            f"param r{k} = Orientation.fromEuler({f4(a[0])}, {f4(a[1])}, {f4(a[2])}) relative to Orientation.fromEuler({f4(b[0])}, {f4(b[1])}, {f4(b[2])})"
        )

        def check(sv):
            got = G.quat_to_mat(sv.params[f"r{k}"].q)
            exp = G.euler(*b) @ G.euler(*a)
            return [] if rclose(got, exp) else [f"X relative to Y: euler {G.euler_of(got)} expected R_Y.R_X = {G.euler_of(exp)}"]

        return "relto", "relto.orientation", check
    # field forms: used through `facing`, evaluated at the object's position
    f = cx.fields[r.choice(sorted(cx.fields))]
    P = cx.pos()
    if form == "field_h":
        h = rnd(r, -3, 3)
        expr = f"{f.name} relative to {f4(h)}"
        expf = lambda p: G.euler(h) @ f.at(p)
    elif form == "h_field":
        h = rnd(r, -3, 3)
        expr = f"{f4(h)} relative to {f.name}"
        expf = lambda p: f.at(p) @ G.euler(h)
    elif form == "field_o":
        a = cx.angles()
        expr = f"{f.name} relative to Orientation.fromEuler({f4(a[0])}, {f4(a[1])}, {f4(a[2])})"
        expf = lambda p: G.euler(*a) @ f.at(p)
    else:
        g = cx.fields[r.choice(sorted(cx.fields))]
        expr = f"{f.name} relative to {g.name}"
        expf = lambda p: g.at(p) @ f.at(p)
    cx.lines.append(newobj_line(cx, k, [f"at {cx.vtext(P)}", f"facing ({expr})"]))

    def check(sv):
        N = sv.new(k)
        exp = expf(N.pos)
        out = []
        if not vclose(N.pos, P):
            out.append(f"position {N.pos} expected {P}")
        if not rclose(N.R, exp):
            out.append(f"facing ({expr}): euler {G.euler_of(N.R)} expected {G.euler_of(exp)}")
        return out

    return "relto", f"relto.{form}.{f.kind}", check


def euler_follow(f, p0, D, minSteps=4, stepSize=5.0):
    n = max(minSteps, math.ceil(D / stepSize))
    p = np.array(p0, dtype=float)
    h = D / n
    for _ in range(n):
        p = p + f.at(p) @ np.array([0.0, h, 0.0])
    return p


def gen_following(cx):
    from rt import geo7 as G

    r = cx.rng
    k = cx.uid()
    f = cx.fields[r.choice(sorted(cx.fields))]
    D = rnd(r, 0.5, 40)
    fk = r.choice(("none", "vec", "ent"))
    if fk == "none":
        frm, src = "", "ego"
    elif fk == "vec":
        P = cx.pos()
        frm, src = f" from {cx.vtext(P)}", None
    else:
        src = r.choice(("A", "Q", "B"))
        frm = f" from {src}"
    as_op = r.random() < 0.35
    if as_op:
        start = src if src else cx.vtext(P)
        cx.lines.append(f"param r{k} = follow {f.name} from {start} for {f4(D)}")
    else:
        cx.lines.append(newobj_line(cx, k, [f"following {f.name}{frm} for {f4(D)}"]))

    def check(sv):
        p0 = sv.W[src].pos if src else P
        exp = euler_follow(f, p0, D)
        expR = f.at(exp)
        if as_op:
            res = sv.params[f"r{k}"]
            pos, R = tovec(res.position), G.quat_to_mat(res.orientation.q)
        else:
            N = sv.new(k)
            pos, R = N.pos, N.R
        out = []
        if not vclose(pos, exp):
            out.append(f"position {pos} expected {exp} (forward Euler, {max(4, math.ceil(D / 5))} steps)")
        if not rclose(R, expR):
            out.append(f"orientation {G.euler_of(R)} expected field at end point {G.euler_of(expR)}")
        return out

    return "following", f"following.{'op' if as_op else 'spec'}.{fk}.{f.kind}", check


def gen_on(cx):
    from rt import geo7 as G

    r = cx.rng
    k = cx.uid()
    dims = cx.dims()
    extra = []
    ct = None
    if r.random() < 0.5:
        ct = rnd(r, 0.0, 0.6)
        extra.append(f"with contactTolerance {f4(ct)}")
    bo = None
    if r.random() < 0.3 and cx.three:
        bo = np.array([0.0, 0.0, rnd(r, -3, 1)])
        extra.append(f"with baseOffset {fv(bo)}")
    forms = ["vec", "rect", "poly", "polyfield"]
    if cx.three and cx.tilt_small:
        forms += ["obj", "obj", "mod_obj", "mod_obj"]
    form = r.choice(forms)
    specs = []
    info = {}
    if form == "vec":
        P = cx.pos()
        specs.append(f"on {cx.vtext(P)}")
        if cx.three and r.random() < 0.5:
            extra.append(f"facing {fv(cx.angles())}")
    elif form == "rect":
        c, h, w, l = cx.pos()[:2], rnd(r, -3, 3), rnd(r, 1, 20), rnd(r, 1, 20)
        cx.lines.append(f"rg{k} = RectangularRegion({fv(c)}, {f4(h)}, {f4(w)}, {f4(l)})")
        specs.append(f"on rg{k}")
        info = dict(c=c, h=h, w=w, l=l, z=0.0)
    elif form in ("poly", "polyfield"):
        c, h, w, l = cx.pos()[:2], rnd(r, -3, 3), rnd(r, 1, 20), rnd(r, 1, 20)
        z = rnd(r, -20, 20) if cx.three else 0.0
        Rz_ = G.Rz(h)
        pts = [np.array([c[0], c[1], 0]) + Rz_ @ np.array([sx * w / 2, sy * l / 2, 0]) for sx, sy in ((1, 1), (-1, 1), (-1, -1), (1, -1))]
        ptxt = "[" + ", ".join(fv(p[:2]) for p in pts) + "]"
        fld = ""
        if form == "polyfield":
            f = cx.fields[r.choice(("FH", "FV"))]
            fld = f", orientation={f.name}"
            info["field"] = f
        cx.lines.append(f"rg{k} = PolygonalRegion({ptxt}, z={f4(z)}{fld})")
        specs.append(f"on rg{k}")
        info.update(c=c, h=h, w=w, l=l, z=z)
    elif form == "obj":
        ref = r.choice(("A", "B"))
        specs.append(f"on {ref}")
        info["ref"] = ref
    else:  # modifying: at P, on Object
        ref = r.choice(("A", "B"))
        info["ref"] = ref
        # a point above the top face, given in the reference's frame so that the projection hits the face
        u, v, hgt = rnd(r, -0.45, 0.45), rnd(r, -0.45, 0.45), rnd(r, 0.5, 15)
        info.update(u=u, v=v, hgt=hgt)
        cx.lines.append(f"pp{k} = (({f4(u)} * {ref}.width, {f4(v)} * {ref}.length, {ref}.height / 2 + {f4(hgt)}) relative to {ref}).position")
        cx.lines.append(f"param pp{k} = pp{k}")
        specs.append(f"at pp{k}")
        specs.append(f"on {ref}")
    cx.lines.append(newobj_line(cx, k, specs, dims, extra))

    def check(sv):
        N = sv.new(k)
        o = N.scenic
        ctv = float(o.contactTolerance)
        bov = tovec(o.baseOffset)
        out = []
        if ct is not None and abs(ctv - ct) > 1e-12:
            out.append("contactTolerance not read back")
        exp_bo = bo if bo is not None else (np.array([0, 0, -N.dims[2] / 2]) if cx.three else np.zeros(3))
        if not vclose(bov, exp_bo):
            out.append(f"baseOffset {bov} expected {exp_bo}")
        if not cx.three:
            ctv_eff = ctv
        lift = np.array([0.0, 0.0, ctv / 2])
        if form == "vec":
            base = N.pos + bov - lift
            if not cx.three:
                base[2] = 0.0 if abs(N.pos[2]) < 1e-12 else base[2]
                Pz = np.array([P[0], P[1], 0.0])
                if not vclose(N.pos[:2], Pz[:2]):
                    out.append(f"2D position {N.pos} expected {Pz}")
                return out
            if not vclose(base, P):
                out.append(f"base point {base} (position + baseOffset - contactTolerance/2 up) expected {P}")
            return out
        if form in ("rect", "poly", "polyfield"):
            Rpar = info["field"].at(N.pos) if "field" in info else np.eye(3)
            if not rclose(N.R, Rpar):
                out.append(f"orientation {G.euler_of(N.R)} expected {'field at position' if 'field' in info else 'global'} {G.euler_of(Rpar)}")
            base = N.pos + Rpar @ (bov - lift)
            if cx.three and abs(base[2] - info["z"]) > TOL * (1 + abs(info["z"])):
                out.append(f"base z {base[2]} expected region z {info['z']} (ct/2={ctv / 2})")
            loc = G.Rz(info["h"]).T @ (np.array([base[0], base[1], 0]) - np.array([info["c"][0], info["c"][1], 0]))
            if abs(loc[0]) > info["w"] / 2 + 1e-6 or abs(loc[1]) > info["l"] / 2 + 1e-6:
                out.append(f"base point {base} outside the region (local {loc})")
            return out
        E = sv.W[info["ref"]]
        n = E.R @ np.array([0, 0, 1.0])
        if n[2] < 0.8:
            return "skip:reference-too-tilted"
        # the surface provides an orientation whose Z axis is the face normal
        if not vclose(N.R @ np.array([0, 0, 1.0]), n, scale=10.0):
            out.append(f"new object's up axis {N.R @ np.array([0, 0, 1.0])} expected the face normal {n}")
        base = N.pos + N.R @ (bov - lift)
        loc = E.R.T @ (base - E.pos)
        if abs(loc[2] - E.dims[2] / 2) > 1e-6 * (1 + float(np.abs(N.pos).max())):
            out.append(f"base point is {loc[2] - E.dims[2] / 2} away from the top face plane of {info['ref']}")
        if abs(loc[0]) > E.dims[0] / 2 + 1e-6 or abs(loc[1]) > E.dims[1] / 2 + 1e-6:
            out.append(f"base point outside the top face (local {loc})")
        if form == "mod_obj":
            Pp = tovec(sv.params[f"pp{k}"])
            expP = E.pos + E.R @ np.array([info["u"] * E.dims[0], info["v"] * E.dims[1], E.dims[2] / 2 + info["hgt"]])
            if not vclose(Pp, expP):
                out.append(f"helper point {Pp} expected {expP}")
            expbase = E.pos + E.R @ np.array([info["u"] * E.dims[0], info["v"] * E.dims[1], E.dims[2] / 2])
            if not vclose(base, expbase, scale=1 + 1e1 * float(np.abs(expbase).max())):
                out.append(f"projected base point {base} expected {expbase} (projection along the face normal)")
        return out

    return "on", f"on.{form}" + (".ct" if ct is not None else "") + (".bo" if bo is not None else ""), check


SIDES = {
    "front": (0, 1, 0),
    "back": (0, -1, 0),
    "left": (-1, 0, 0),
    "right": (1, 0, 0),
    "top": (0, 0, 1),
    "bottom": (0, 0, -1),
    "front left": (-1, 1, 0),
    "front right": (1, 1, 0),
    "back left": (-1, -1, 0),
    "back right": (1, -1, 0),
    "top front left": (-1, 1, 1),
    "top front right": (1, 1, 1),
    "top back left": (-1, -1, 1),
    "top back right": (1, -1, 1),
    "bottom front left": (-1, 1, -1),
    "bottom front right": (1, 1, -1),
    "bottom back left": (-1, -1, -1),
    "bottom back right": (1, -1, -1),
}


def gen_side(cx):
    from rt import geo7 as G

    r = cx.rng
    k = cx.uid()
    names = sorted(SIDES) if cx.three else [n for n in sorted(SIDES) if "top" not in n and "bottom" not in n]
    s = r.choice(names)
    e = r.choice(("A", "B", "ego"))
    use = r.random() < 0.3
    cx.lines.append(f"param r{k} = {s} of {e}")
    if use:
        cx.lines.append(newobj_line(cx, k, [f"at {s} of {e}"]))

    def check(sv):
        E = sv.W[e]
        res = sv.params[f"r{k}"]
        exp = E.pos + E.R @ (np.array(SIDES[s]) * E.dims / 2)
        out = []
        if not vclose(tovec(res.position), exp):
            out.append(f"position {tovec(res.position)} expected {exp}")
        if not rclose(G.quat_to_mat(res.orientation.q), E.R):
            out.append("orientation not inherited from the object")
        if use and not vclose(sv.new(k).pos, exp):
            out.append(f"`at {s} of {e}` placed the object at {sv.new(k).pos} expected {exp}")
        return out

    return "side", "side." + s.replace(" ", "_"), check


def gen_facing(cx):
    from rt import geo7 as G

    r = cx.rng
    k = cx.uid()
    P = cx.pos()
    specs = [f"at {cx.vtext(P)}"]
    pk = r.choice(("global", "yaw", "full")) if cx.three else r.choice(("global", "yaw"))
    if pk == "global":
        Rpar = np.eye(3)
    elif pk == "yaw":
        a = rnd(r, -3, 3)
        specs.append(f"with parentOrientation {f4(a)}")
        Rpar = G.euler(a)
    else:
        a = cx.angles()
        specs.append(f"with parentOrientation {fv(a)}")
        Rpar = G.euler(*a)
    forms = ["heading", "field", "toward", "away", "apparent", "apparent_from"]
    if cx.three:
        forms += ["euler", "orientation", "dtoward", "daway", "toward", "away"]
    else:
        forms += ["withheading"]
    form = r.choice(forms)
    T = cx.pos()
    tk = r.choice(("vec", "ent"))
    tname = r.choice(("A", "B", "Q"))
    ttxt = cx.vtext(T) if tk == "vec" else tname
    localpitch = localroll = None
    if form == "heading":
        h = rnd(r, -3.1, 3.1)
        specs.append(f"facing {f4(h)}")
    elif form == "withheading":
        h = rnd(r, -3.1, 3.1)
        specs.append(f"with heading {f4(h)}")
    elif form == "euler":
        a3 = cx.angles()
        specs.append(f"facing {fv(a3)}")
    elif form == "orientation":
        a3 = cx.angles()
        specs.append(f"facing Orientation.fromEuler({f4(a3[0])}, {f4(a3[1])}, {f4(a3[2])})")
    elif form == "field":
        f = cx.fields[r.choice(sorted(cx.fields))]
        specs.append(f"facing {f.name}")
    elif form in ("toward", "away", "dtoward", "daway"):
        word = {"toward": "facing toward", "away": "facing away from", "dtoward": "facing directly toward", "daway": "facing directly away from"}[form]
        specs.append(f"{word} {ttxt}")
        if cx.three and r.random() < 0.3:
            localroll = rnd(r, -1.2, 1.2)
            specs.append(f"with roll {f4(localroll)}")
        if cx.three and form in ("toward", "away") and r.random() < 0.3:
            localpitch = rnd(r, -1.2, 1.2)
            specs.append(f"with pitch {f4(localpitch)}")
    elif form == "apparent":
        h = rnd(r, -3.1, 3.1)
        specs.append(f"apparently facing {f4(h)}")
    else:
        h = rnd(r, -3.1, 3.1)
        specs.append(f"apparently facing {f4(h)} from {ttxt}")
    cx.lines.append(newobj_line(cx, k, specs))

    def check(sv):
        N = sv.new(k)
        out = []
        if not vclose(N.pos, P if cx.three else np.array([P[0], P[1], 0.0])):
            out.append(f"position {N.pos} expected {P}")
        Tp = T if tk == "vec" else sv.W[tname].pos
        fwd = N.R @ np.array([0.0, 1.0, 0.0])
        if form in ("heading", "withheading"):
            if not rclose(N.R, G.euler(h)):
                out.append(f"global orientation {G.euler_of(N.R)} expected heading {h}")
        elif form in ("euler", "orientation"):
            if not rclose(N.R, G.euler(*a3)):
                out.append(f"global orientation {G.euler_of(N.R)} expected {a3}")
        elif form == "field":
            if not rclose(N.R, f.at(N.pos)):
                out.append(f"global orientation {G.euler_of(N.R)} expected field value {G.euler_of(f.at(N.pos))}")
        elif form in ("toward", "away", "dtoward", "daway"):
            dvec = Tp - N.pos
            if form in ("away", "daway"):
                dvec = -dvec
            dl = Rpar.T @ dvec  # target direction in the parent frame
            if math.hypot(dl[0], dl[1]) < 1e-3 * (1 + np.linalg.norm(dl)):
                return "skip:target-on-parent-z-axis"
            # local angles the specifier may set
            loc = G.euler_of(Rpar.T @ N.R)
            if loc is None:
                return "skip:gimbal"
            if form in ("toward", "away"):
                if not aclose(loc[0], G.azimuth(dl)):
                    out.append(f"yaw in parent frame {loc[0]} expected azimuth of target {G.azimuth(dl)}")
                if not aclose(loc[1], localpitch or 0.0) or not aclose(loc[2], localroll or 0.0):
                    out.append(f"pitch/roll changed: {loc[1:]} expected {(localpitch or 0.0, localroll or 0.0)}")
            else:
                u = dvec / np.linalg.norm(dvec)
                if not vclose(fwd, u, scale=10.0):
                    out.append(f"forward axis {fwd} expected unit vector to target {u}")
                if not aclose(loc[2], localroll or 0.0):
                    out.append(f"roll changed: {loc[2]} expected {localroll or 0.0}")
        else:
            src = sv.W["ego"].pos if form == "apparent" else Tp
            los = N.pos - src
            if math.hypot(los[0], los[1]) < 1e-3:
                return "skip:vertical-line-of-sight"
            if pk == "full":
                return "skip:apparently-facing-3d-parent"
            hd = G.heading_of(N.R)
            exp = G.azimuth(los) + h
            if not aclose(hd, exp):
                key = None
                if pk == "yaw" and aclose(hd, exp + a):
                    key = "facing.apparently-facing-ignores-parentOrientation"
                out.append((key, f"heading {hd} expected line-of-sight azimuth {G.azimuth(los)} + {h} = {G.norm_angle(exp)} (parentOrientation {pk})"))
        return out

    return "facing", f"facing.{form}.{pk}" + (f".{tk}" if form not in ("heading", "euler", "orientation", "field", "withheading", "apparent") else ""), check


def gen_scalarop(cx):
    from rt import geo7 as G

    r = cx.rng
    k = cx.uid()
    op = r.choice(("distance", "angle", "altitude", "relheading", "appheading", "distpast", "relpos", "fieldat"))
    if op == "altitude" and not cx.three:
        op = "angle"

    def arg():
        if r.random() < 0.5:
            p = cx.pos()
            return cx.vtext(p), (lambda sv: p)
        e = r.choice(("A", "B", "Q", "Q2", "ego"))
        return e, (lambda sv: sv.W[e].pos)

    if op in ("distance", "angle", "altitude", "relpos"):
        word = {"distance": "distance", "angle": "angle", "altitude": "altitude", "relpos": "relative position"}[op]
        t2, g2 = arg()
        withfrom = r.random() < 0.6
        if withfrom:
            t1, g1 = arg()
            if op == "relpos":
                cx.lines.append(f"param r{k} = relative position of {t2} from {t1}")
            else:
                cx.lines.append(f"param r{k} = {word} from {t1} to {t2}")
        else:
            g1 = lambda sv: sv.W["ego"].pos
            cx.lines.append(f"param r{k} = {word} {'of' if op == 'relpos' else 'to'} {t2}")

        def check(sv):
            d = g2(sv) - g1(sv)
            got = sv.params[f"r{k}"]
            if op == "distance":
                exp = float(np.linalg.norm(d))
                return [] if abs(got - exp) <= TOL * (1 + exp) else [f"distance {got} expected {exp}"]
            if op == "relpos":
                return [] if vclose(tovec(got), d) else [f"relative position {got} expected {d}"]
            if op == "angle":
                if math.hypot(d[0], d[1]) < 1e-6:
                    return "skip:vertical"
                return [] if aclose(got, G.azimuth(d)) else [f"angle {got} expected {G.azimuth(d)}"]
            return [] if abs(got - G.altitude(d)) <= 1e-7 else [f"altitude {got} expected {G.altitude(d)}"]

        return "scalarop", f"scalarop.{op}.{'from' if withfrom else 'ego'}", check
    if op == "relheading":
        h1 = rnd(r, -3.1, 3.1)
        form = r.choice(("ego", "h", "ent"))
        if form == "ego":
            cx.lines.append(f"param r{k} = relative heading of {f4(h1)}")
        elif form == "h":
            h2 = rnd(r, -3.1, 3.1)
            cx.lines.append(f"param r{k} = relative heading of {f4(h1)} from {f4(h2)}")
        else:
            e = r.choice(("A", "B", "Q", "Q2"))
            cx.lines.append(f"param r{k} = relative heading of {e} from ego")

        def check(sv):
            got = sv.params[f"r{k}"]
            if form == "h":
                a, b = h1, h2
            elif form == "ego":
                a, b = h1, G.heading_of(sv.W["ego"].R)
            else:
                a, b = G.heading_of(sv.W[e].R), G.heading_of(sv.W["ego"].R)
            if a is None or b is None:
                return "skip:gimbal"
            if not (-math.pi - 1e-9 <= got <= math.pi + 1e-9):
                return [f"relative heading {got} not normalised"]
            return [] if aclose(got, a - b) else [f"relative heading {got} expected {G.norm_angle(a - b)}"]

        return "scalarop", f"scalarop.relheading.{form}", check
    if op == "appheading":
        e = r.choice(("A", "B", "Q", "Q2"))
        withfrom = r.random() < 0.6
        if withfrom:
            t1, g1 = arg()
            if t1 == e:
                t1, g1 = "ego", (lambda sv: sv.W["ego"].pos)
            cx.lines.append(f"param r{k} = apparent heading of {e} from {t1}")
        else:
            g1 = lambda sv: sv.W["ego"].pos
            cx.lines.append(f"param r{k} = apparent heading of {e}")

        def check(sv):
            E = sv.W[e]
            los = E.pos - g1(sv)
            hd = G.heading_of(E.R)
            if hd is None or math.hypot(los[0], los[1]) < 1e-6:
                return "skip:degenerate"
            got = sv.params[f"r{k}"]
            return [] if aclose(got, hd - G.azimuth(los)) else [f"apparent heading {got} expected heading {hd} - line of sight {G.azimuth(los)} = {G.norm_angle(hd - G.azimuth(los))}"]

        return "scalarop", f"scalarop.appheading.{'from' if withfrom else 'ego'}", check
    if op == "distpast":
        t1, g1 = arg()
        form = r.choice(("ego", "of"))
        e = "ego" if form == "ego" else r.choice(("A", "B", "Q", "Q2"))
        if t1 == e:
            t1, g1 = fv(np.zeros(3)), (lambda sv: np.zeros(3))
        cx.lines.append(f"param r{k} = distance past {t1}" + ("" if form == "ego" else f" of {e}"))

        def check(sv):
            E = sv.W[e]
            ang = G.euler_of(E.R)
            if ang is None or abs(ang[1]) > 1e-9 or abs(ang[2]) > 1e-9:
                return "skip:distance-past-3d-orientation"
            got = sv.params[f"r{k}"]
            exp = float((E.pos - g1(sv)) @ (E.R @ np.array([0.0, 1.0, 0.0])))
            return [] if abs(got - exp) <= TOL * (1 + abs(exp)) * 100 else [f"distance past {got} expected {exp}"]

        return "scalarop", f"scalarop.distpast.{form}", check
    f = cx.fields[r.choice(sorted(cx.fields))]
    t1, g1 = arg()
    cx.lines.append(f"param r{k} = {f.name} at {t1}")

    def check(sv):
        got = G.quat_to_mat(sv.params[f"r{k}"].q)
        exp = f.at(g1(sv))
        return [] if rclose(got, exp) else [f"field at: {G.euler_of(got)} expected {G.euler_of(exp)}"]

    return "scalarop", f"scalarop.fieldat.{f.kind}", check


GENERATORS = [
    (gen_dir, 9),
    (gen_beyond, 2),
    (gen_offsetby, 1),
    (gen_offsetalong, 2),
    (gen_relto, 3),
    (gen_following, 1),
    (gen_on, 2),
    (gen_side, 3),
    (gen_facing, 5),
    (gen_scalarop, 5),
]


def make_program(seed, shard, index, tier, variant="main"):
    """variant 'main': ~28 cases, positions literal (angles/sizes/distances possibly drawn from Range);
    variant 'randpos': one case in a world whose positions are vectors with random coordinates."""
    rng = random.Random(((seed * 1000003 + shard) * 7919 + index) * 2 + (1 if variant == "randpos" else 0))
    mode = "2d" if rng.random() < 0.2 else "3d"
    randomized = rng.random() < 0.3 or variant == "randpos"
    cx = Ctx(rng, mode, randomized)
    cx.randpos = variant == "randpos"
    cx.tilt_small = rng.random() < 0.4
    build_world(cx, tilt_small=cx.tilt_small)
    ncases = 28 if variant == "main" else 1
    if variant == "main":
        gens = [g for g, w in GENERATORS for _ in range(w)]
    else:
        gens = [gen_scalarop] * 6 + [gen_facing] * 3 + [gen_beyond, gen_dir, gen_side, gen_offsetby, gen_relto, gen_following]
    for _ in range(ncases):
        g = rng.choice(gens)
        first = len(cx.lines)
        kind, sig, chk = g(cx)
        body = cx.lines[first:]
        del cx.lines[first:]
        cx.cases.append((kind, sig, body, chk, cx.k))
    return cx


def world_checks(cx, sv):
    """The world entities themselves: orientation composition, heading, corners as reported by Scenic."""
    from rt import geo7 as G

    out = []
    n = 0
    for name, E in sv.W.items():
        o = E.scenic
        n += 1
        Rs = G.quat_to_mat(o.orientation.q)
        if not rclose(Rs, E.R):
            out.append((name, f"orientation of {name}: euler {G.euler_of(Rs)} expected parentOrientation * (yaw,pitch,roll) = {G.euler_of(E.R)}"))
            continue
        hd = G.heading_of(E.R)
        if hd is not None and not aclose(float(o.heading), hd):
            out.append((name, f"heading of {name} {float(o.heading)} expected azimuth of forward axis {hd}"))
        ea = G.euler_of(E.R)
        if ea is not None:
            got = (float(o.orientation.yaw), float(o.orientation.pitch), float(o.orientation.roll))
            if not rclose(G.euler(*got), E.R):
                out.append((name, f"Euler angles {got} of {name}.orientation do not reproduce it (expected {ea})"))
        if E.kind == "obj":
            mine = G.corners(E.pos, E.R, E.dims)
            theirs = np.array([tovec(c) for c in o.corners])
            if not cx.three:
                # 2D objects: height irrelevant, compare footprints
                mine = np.unique(np.round(mine[:, :2], 6), axis=0)
                theirs = np.unique(np.round(theirs[:, :2], 6), axis=0)
                ok = mine.shape == theirs.shape and np.abs(mine - theirs).max() < 1e-5
            else:
                ok = theirs.shape == (8, 3) and all(np.abs(theirs - c).sum(axis=1).min() < 1e-6 * (1 + np.abs(c).max()) for c in mine)
            if not ok:
                out.append((name, f"corners of {name} {theirs.tolist()} expected {mine.tolist()}"))
    return n, out


def classify(kind, sig, msg):
    return None


def assemble(cx, active):
    lines = list(cx.lines)
    owner = {}
    for c in active:
        lines.append(f'V.EXTRA["k"] = {c[4]}')
        owner[c[4]] = c
        for ln in c[2]:
            lines.append(ln)
    return "\n".join(lines) + "\n", owner


def run_program(cx, res, bump, wit, isolate=True):
    """Compile + sample the program, run all checkers."""
    from rt import su

    active = list(cx.cases)
    viols = []
    scene = None
    mode2D = cx.mode == "2d"
    tag = f"[{cx.mode}{',randomized' if cx.randomized else ''}]"

    def err_violation(c, e, src):
        kind, sig, body, chk, k = c
        bump("cases_raising")
        res["evaluations"] += 1
        return {
            "key": classify_error(cx, sig, type(e).__name__, str(e)),
            "what": f"{tag} {sig}: documented form raised {type(e).__name__}: {str(e)[:160]} :: {' / '.join(body)[:300]}",
            "witness": dict(wit, case=k, sig=sig, program=src),
        }

    for attempt in range(12):
        src, owner = assemble(cx, active)
        su.script.EXTRA["k"] = None
        compiled = False
        try:
            scenario = su.compile_scenic(src, mode2D=mode2D)
            compiled = True
            scene, _ = scenario.generate(maxIterations=200, verbosity=0)
            break
        except Exception as e:
            bump("program_errors")
            c = None if compiled else owner.get(su.script.EXTRA.get("k"))
            if c is not None:
                viols.append(err_violation(c, e, src))
                active = [x for x in active if x is not c]
                continue
            # no line information (sampling-time failure): try every case on its own
            bad = []
            for c in active:
                sub, _ = assemble(cx, [c])
                try:
                    su.compile_scenic(sub, mode2D=mode2D).generate(maxIterations=200, verbosity=0)
                except Exception as e2:
                    bad.append(c)
                    viols.append(err_violation(c, e2, sub))
            if not bad:
                viols.append({"key": None, "what": f"{tag} program failed as a whole: {type(e).__name__}: {str(e)[:200]}", "witness": dict(wit, program=src)})
                return viols
            active = [x for x in active if x not in bad]
    if scene is None:
        viols.append({"key": None, "what": f"{tag} program still failing after removing 12 cases", "witness": dict(wit, program=src)})
        return viols
    bump("programs_sampled")
    sv = SceneView(cx, scene)
    n, wout = world_checks(cx, sv)
    bump("world_checks", n)
    for name, msg in wout:
        viols.append({"key": None, "what": f"{tag} world: {msg}", "witness": dict(wit, case="world", program=src)})
    for kind, sig, body, chk, k in active:
        try:
            out = chk(sv)
        except Exception as e:  # reading back failed
            out = [f"reading the result failed: {type(e).__name__}: {str(e)[:200]}"]
        res["evaluations"] += 1
        if isinstance(out, str):
            res["skipped"][out[5:]] = res["skipped"].get(out[5:], 0) + 1
            continue
        bump("cases_checked")
        bump("kind_" + kind)
        bump("mode_" + cx.mode)
        if cx.randomized:
            bump("randomized_world_cases")
        res["_sigs"].add(sig + "." + cx.mode)
        res["nontrivial"].append(su.h([wit["seed"], wit["shard"], wit["index"], k]))
        for msg in out:
            key = None
            if isinstance(msg, tuple):
                key, msg = msg
            viols.append(
                {
                    "key": key,
                    "what": f"{tag} {sig}: {msg} :: {' / '.join(body)[:400]}",
                    "witness": dict(wit, case=k, sig=sig, program=src),
                }
            )
    return viols


def classify_error(cx, sig, ename, emsg):
    if cx.randomized and ename == "RandomControlFlowError" and "cannot iterate through a random value" in emsg:
        if sig.startswith(("scalarop.distance", "scalarop.angle", "scalarop.altitude", "facing.apparent")):
            return "vector-scalar-operator.random-self-not-lifted"
    if cx.randomized and ename == "TypeError" and "must be real number, not" in emsg and sig.startswith("scalarop.appheading"):
        return "apparent-heading.random-position-not-lifted"
    return None


# ----------------------------------------------------------------------------------------------
# direct API: Orientation / Vector algebra


def algebra_cases(rng, n, res, bump):
    from rt import geo7 as G
    from scenic.core.vectors import Orientation, Vector

    viols = []

    def bad(key, what, w):
        viols.append({"key": key, "what": "algebra: " + what, "witness": {"kind": "algebra", **w}})

    def ang3():
        return (rng.uniform(-3.1, 3.1), rng.uniform(-1.5, 1.5), rng.uniform(-3.1, 3.1))

    def M(o):
        return G.quat_to_mat(o.q)

    for _ in range(n):
        a, b = ang3(), ang3()
        v = np.array([rng.uniform(-50, 50) for _ in range(3)])
        w = np.array([rng.uniform(-50, 50) for _ in range(3)])
        A, B = Orientation.fromEuler(*a), Orientation.fromEuler(*b)
        wit = {"a": a, "b": b, "v": v.tolist(), "w": w.tolist()}
        res["evaluations"] += 1
        bump("cases_checked")
        bump("kind_algebra")
        if not rclose(M(A), G.euler(*a)):
            bad(None, f"fromEuler{a} is not Rz.Rx.Ry", wit)
        if not rclose(M(A * B), G.euler(*a) @ G.euler(*b)):
            bad(None, f"A*B is not the matrix product R_A R_B for {a},{b}", wit)
        if not rclose(M(A.inverse), G.euler(*a).T):
            bad(None, f"inverse of {a}", wit)
        if not rclose(M(A * A.inverse), np.eye(3)) or not rclose(M(A.inverse * A), np.eye(3)):
            bad(None, f"A*A^-1 != identity for {a}", wit)
        ea = A.eulerAngles
        if not rclose(G.euler(*ea), G.euler(*a)):
            bad(None, f"eulerAngles round trip {a} -> {tuple(ea)}", wit)
        if not (aclose(ea[0], a[0]) and aclose(ea[1], a[1]) and aclose(ea[2], a[2])) and abs(a[1]) < 1.5 and abs(a[2]) < math.pi / 2:
            bad(None, f"eulerAngles {tuple(ea)} differ from the principal angles {a}", wit)
        if not (aclose(A.yaw, ea[0]) and aclose(A.pitch, ea[1]) and aclose(A.roll, ea[2])):
            bad(None, "yaw/pitch/roll properties differ from eulerAngles", wit)
        la = A.localAnglesFor(B)
        if not rclose(G.euler(*a) @ G.euler(*la), G.euler(*b)):
            bad(None, f"localAnglesFor: parent{a} * local{tuple(la)} != target{b}", wit)
        la2 = A.globalToLocalAngles(*b)
        if not rclose(G.euler(*a) @ G.euler(*la2), G.euler(*b)):
            bad(None, "globalToLocalAngles inconsistent", wit)
        h = a[0]
        H = Orientation._fromHeading(h)
        if not rclose(M(H), G.Rz(h)):
            bad(None, f"_fromHeading({h})", wit)
        if not rclose(M(A + h), G.euler(*a) @ G.Rz(h)) or not rclose(M(h + A), G.Rz(h) @ G.euler(*a)):
            bad(None, "Orientation +/radd heading", wit)
        V, W = Vector(*v), Vector(*w)
        got = tovec(V.applyRotation(A))
        if not vclose(got, G.euler(*a) @ v):
            bad(None, f"applyRotation {got} expected {G.euler(*a) @ v}", wit)
        if not vclose(tovec(V.rotatedBy(A)), G.euler(*a) @ v) or not vclose(tovec(V.rotatedBy(h)), G.Rz(h) @ v):
            bad(None, "rotatedBy", wit)
        if not vclose(tovec(V.offsetRotated(h, W)), v + G.Rz(h) @ w) or not vclose(tovec(V.offsetLocally(A, W)), v + G.euler(*a) @ w):
            bad(None, "offsetRotated/offsetLocally", wit)
        if not vclose(tovec(V.offsetRadially(3.5, h)), v + G.Rz(h) @ np.array([0, 3.5, 0])):
            bad(None, "offsetRadially", wit)
        sc = tovec(V.sphericalCoordinates())
        if not (abs(sc[0] - np.linalg.norm(v)) < 1e-9 and aclose(sc[1], G.azimuth(v)) and abs(sc[2] - G.altitude(v)) < 1e-9):
            bad(None, f"sphericalCoordinates {sc}", wit)
        # heading convention: heading h faces Rz(h)(0,1,0): 0 -> +Y, +90deg -> -X
        fw = tovec(Vector(0, 1, 0).rotatedBy(h))
        if not aclose(G.azimuth(fw), h) or not aclose(Vector(0, 0, 0).angleTo(Vector(*fw)), h):
            bad(None, f"heading convention: forward of heading {h} is {fw}", wit)
        if not (abs(V.distanceTo(W) - np.linalg.norm(v - w)) < 1e-9 and aclose(V.angleTo(W), G.azimuth(w - v)) and abs(V.altitudeTo(W) - G.altitude(w - v)) < 1e-9):
            bad(None, "distanceTo/angleTo/altitudeTo", wit)
        if abs(V.dot(W) - float(v @ w)) > 1e-9 * (1 + abs(float(v @ w))) or abs(V.norm() - np.linalg.norm(v)) > 1e-9:
            bad(None, "dot/norm", wit)
        if not vclose(tovec(V.normalized()), v / np.linalg.norm(v)):
            bad(None, "normalized", wit)
        if not aclose(V.angleWith(W), math.atan2(w[1], w[0]) - math.atan2(v[1], v[0])):
            bad(None, "angleWith", wit)
        if not (vclose(tovec(V + W), v + w) and vclose(tovec(V - W), v - w) and vclose(tovec(V * 2.5), v * 2.5) and vclose(tovec(V / 2.5), v / 2.5)):
            bad(None, "vector arithmetic", wit)
        try:
            cr = tovec(V.cross(W))
            if not vclose(cr, np.cross(v, w)):
                bad(None, f"cross {cr} expected {np.cross(v, w)}", wit)
        except NameError as e:
            bad("vector.cross-undefined-name", f"Vector.cross raises {type(e).__name__}: {e}", wit)
        except Exception as e:
            bad(None, f"Vector.cross raises {type(e).__name__}: {e}", wit)
        res["_sigs"].add("algebra")
        if len(res["nontrivial"]) < 100000:
            from rt import su

            res["nontrivial"].append(su.h(["alg", a, b]))
    return viols


# ----------------------------------------------------------------------------------------------


def run_shard(spec):
    tier = spec["tier"]
    res = {"evaluations": 0, "nontrivial": [], "counters": {}, "samples": [], "violations": [], "skipped": {}, "_sigs": set()}
    C = res["counters"]

    def bump(k, n=1):
        C[k] = C.get(k, 0) + n

    seen = {}
    for index in range(spec["programs"]):
        cx = make_program(spec["seed"], spec["shard"], index, tier)
        wit = {"seed": spec["seed"], "shard": spec["shard"], "index": index, "tier": tier, "kind": "program"}
        viols = run_program(cx, res, bump, wit)
        for v in viols:
            sig = (v["key"], v["witness"].get("sig"), v["what"].split("::")[0][:60] if v["key"] is None else "")
            seen[sig] = seen.get(sig, 0) + 1
            if seen[sig] <= 2 and len(res["violations"]) < 60:
                res["violations"].append(v)
            bump("discrepancies")
        if index == 0 and spec["shard"] < 3:
            res["samples"].append({"mode": cx.mode, "randomized_world": cx.randomized, "program": assemble(cx, cx.cases[:6])[0] + "..."})
    for index in range(spec["programs"] // 2):
        cx = make_program(spec["seed"], spec["shard"], index, tier, variant="randpos")
        wit = {"seed": spec["seed"], "shard": spec["shard"], "index": index, "tier": tier, "kind": "program", "variant": "randpos"}
        bump("randpos_programs")
        for v in run_program(cx, res, bump, wit):
            sig = (v["key"], v["witness"].get("sig"), v["what"].split("::")[0][:60] if v["key"] is None else "")
            seen[sig] = seen.get(sig, 0) + 1
            if seen[sig] <= 2 and len(res["violations"]) < 80:
                res["violations"].append(v)
            bump("discrepancies")
    rng = random.Random(spec["seed"] * 31 + spec["shard"] + 5)
    for v in algebra_cases(rng, 60 if tier == "quick" else 250, res, bump):
        sig = (v["key"], v["what"][:50])
        seen[sig] = seen.get(sig, 0) + 1
        if seen[sig] <= 1:
            res["violations"].append(v)
        bump("discrepancies")
    sigs = sorted(res.pop("_sigs"))
    res["extra"] = {"form_signatures_seen": sigs}
    bump("distinct_form_signatures_in_shard", len(sigs))
    return res


def finalize(m, tier, seed):
    sigs = m.get("extra", {}).get("form_signatures_seen", [])
    m["counters"]["distinct_form_signatures"] = len(sigs)
    m["counters"].pop("distinct_form_signatures_in_shard", None)
    m["extra"]["form_signatures_seen"] = len(sigs)


def replay(w):
    res = {"evaluations": 0, "nontrivial": [], "counters": {}, "samples": [], "violations": [], "skipped": {}, "_sigs": set()}

    def bump(k, n=1):
        pass

    if w.get("kind") == "algebra":
        from rt import geo7 as G
        from scenic.core.vectors import Vector

        class OneShot(random.Random):
            pass

        # re-run the identities on the recorded angles/vectors
        vals = list(w["a"]) + list(w["b"]) + list(w["v"]) + list(w["w"])
        it = iter([w["a"][0], w["a"][1], w["a"][2], w["b"][0], w["b"][1], w["b"][2]] + list(w["v"]) + list(w["w"]))

        class R:
            def uniform(self, a, b):
                return next(it)

        return algebra_cases(R(), 1, res, bump)
    cx = make_program(w["seed"], w["shard"], w["index"], w.get("tier", "quick"), variant=w.get("variant", "main"))
    wit = {k: w[k] for k in ("seed", "shard", "index", "tier", "kind", "variant") if k in w}
    viols = run_program(cx, res, bump, wit)
    if "case" in w:
        mine = [v for v in viols if v["witness"].get("case") == w["case"]]
        return mine
    return viols


MANIFEST_ENTRY = {
    "technique": "runtime monitoring: values read from scenes produced by the real compiler/sampler compared with an independent closed-form geometric reference (numpy rotation matrices, corner enumeration)",
    "text": "Random 3D / 2D-mode worlds with non-global parent orientations are written as Scenic programs (about 28 specifier/operator uses each), compiled and sampled by the real front end; every resulting position, orientation, bounding-box gap and operator value is compared with geometry computed from the documented conventions by rt/geo7.py; Orientation/Vector methods are additionally driven directly. Bounded exploration: held on the programs driven.",
    "note": "Trusts numpy, the oracle's own quaternion->matrix conversion and the documented conventions listed under assumptions; forms whose 3D meaning the reference leaves open (apparently facing / distance past under pitch or roll, rotated new objects in directional specifiers) are skipped and counted.",
}


# thorough-tier floors: the quick-tier floors scaled by a conservative fraction of the size ratio of the two tiers
MIN_COUNTERS["thorough"] = {k: int(v * 4) for k, v in MIN_COUNTERS["quick"].items()}
