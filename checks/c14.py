"""C14 — simulations leave scenes, scenarios and global state untouched, even on failure.

Fault enumeration with three oracles.  Generated dynamic programs (behaviours with guards and interrupts,
monitors, nested scenarios with setup/compose, `override` of several properties / of the same object twice /
nested / of `behavior`, records, `initial scenario`, `model` imports, 2D mode, parameter overrides) carry fault
points (`verif_fault.fp`) at every callback kind; for each (fault point, k-th evaluation, failure mode) the
real compile -> generate -> simulate pipeline is run with the fault armed and then
  (a) deep canonical snapshots of every property of every scene object, of the scenario, of the module
      namespace and of the veneer globals / sys.modules / sys.path before and after each operation are compared;
  (b) in-run: the program logs the observable properties before and after every `do <sub-scenario>`; they
      must be equal (every override undone when its scenario ends);
  (c) identical follow-up operations (re-simulate the scene, re-generate from the scenario, re-compile the
      program; same seeds) in the same, now used, process must produce the dump a fresh subprocess produces.
"""

import json
import os
import random
import re
import shutil
import subprocess
import sys
import tempfile

PROPERTY = "C14"
LEVEL = "fault_enumeration"
RULE = (
    "programs: flat (top-level objects, behaviours with precondition/invariant/try-interrupt, monitor, require / "
    "require always / eventually, records, terminate when, sample-time specifier arguments) or modular (Main with "
    "setup+compose invoking sub-scenarios twice with different endings: compose finishing / `for N steps` / `until` / "
    "terminate when / terminate after / behaviour `terminate`; override statements drawn from a pool: several "
    "properties at once, same object twice, same property twice, behaviour, nested sub-sub-scenario overriding the "
    "same properties, override in the top-level compose), optionally with `initial scenario`, a `model` import, 2D "
    "mode, param overrides, run-time randomness. Fault points: every tag hit in a clean traced run x k in "
    "{1,2,middle,last} x failure modes (raise / RejectionException / RejectSimulationException / flipped condition), "
    "plus simulator create/step/getProperties, Action.applyTo, failing model import and three compile-time failures "
    "(syntax error, exception in top-level code, infeasible scenario). A case is non-trivial when its fault actually "
    "fired; distinct = distinct (program, fault tag, k, mode) tuples."
)
ASSUMPTIONS = [
    "generated programs never mutate property values in place and export every compile-time random value through params/objects (so a fresh process is a deterministic reference, independent of C15's set-order issue)",
    "snapshots compare observable state only: object properties, params, module namespace values, veneer globals, sys.modules/sys.path",
    "nested (LIFO) and sequential overrides only: a property must read after `do Sub` what it read before",
    "the reference for oracle (c) is one fresh subprocess per program (rt/c14_ref.py) running the same pipeline without faults",
]
MIN_COUNTERS = {
    "quick": {
        "cases": 600, "faults_fired": 500, "end_exception": 100, "end_rejected": 80, "end_completed": 50,
        "followup_resimulate": 150, "followup_regenerate": 150, "followup_recompile": 150, "override_pairs_checked": 300,
        "fired_compile": 20, "fired_generate": 30, "fired_simulate": 300, "snapshots_compared": 2000,
        "fresh_references": 24,
    },
    "thorough": {
        "cases": 15000, "faults_fired": 12000, "end_exception": 2000, "end_rejected": 2000, "end_completed": 1000,
        "followup_resimulate": 3000, "followup_regenerate": 3000, "followup_recompile": 3000, "override_pairs_checked": 8000,
        "fired_compile": 400, "fired_generate": 600, "fired_simulate": 6000, "snapshots_compared": 50000,
        "fresh_references": 400,
    },
}

PY = "/venv/bin/python"
VERIF = os.path.dirname(os.path.dirname(os.path.abspath(__file__)))

# ---------------------------------------------------------------------------------------------------
# program generator

OBS = "(a.foo, a.bar, a.baz, b.foo, b.bar, type(a.behavior).__name__, type(b.behavior).__name__)"
OBS_FIELDS = ["ego.foo", "ego.bar", "ego.baz", "other.foo", "other.bar", "ego.behavior", "other.behavior"]

THING = """class Thing(Object):
    foo: 1
    bar: 2
    baz: F.fpv('default', 3)
    cnt: 0
    mut: 0
    ini: -1
    tagp: 0
    allowCollisions: True
"""

COMMON_DEFS = """def snapshot(a, b):
    return {OBS}

behavior Drive(v):
    precondition: F.fp('pre')
    invariant: F.fp('inv')
    try:
        while True:
            F.fp('beh')
            take F.SetProp('cnt', v)
            do Inner(v)
    interrupt when F.fp('int', False):
        take F.SetProp('cnt', -1)
        {RT}

behavior Inner(v):
    F.fp('inner')
    take F.SetProp('cnt', v + 0.5)
    wait

behavior Drive2(v):
    while True:
        F.fp('beh3')
        take F.SetProp('cnt', v + 1000)

behavior Idle():
    while True:
        F.fp('idle')
        wait

behavior Other():
    invariant: F.fp('oinv')
    while True:
        self.mut = self.mut + 1
        do Idle() for 2 steps

behavior Other2():
    while True:
        F.fp('beh2')
        self.mut = self.mut + 100
        wait

behavior Ender():
    wait
    wait
    terminate
"""

CANSEE = """wall = new Thing at (Range(-4, 4), 6), with width 4, with length 0.3, with height 3
target = new Thing at (Range(-3, 3), 10), with width 0.7, with length 0.7
require ego can see target
"""

OVERRIDE_POOL_SUB = [
    [("ego", "foo", "10")],
    [("ego", "bar", "11")],
    [("ego", "foo", "12"), ("ego", "bar", "13")],
    [("other", "foo", "14")],
    [("other", "behavior", "Other2()")],
    [("ego", "foo", "15")],
    [("ego", "behavior", "Drive2(5)")],
    [("other", "bar", "16"), ("other", "foo", "17")],
    [("ego", "baz", "18")],
]
OVERRIDE_POOL_SUBSUB = [
    [("ego", "foo", "20"), ("ego", "bar", "30")],
    [("ego", "bar", "31")],
    [("other", "foo", "22")],
    [("ego", "foo", "23")],
    [("other", "behavior", "Other2()")],
]


def _ov_stmt(st, names):
    obj = names[st[0][0]]
    return f"override {obj} " + ", ".join(f"with {p} {v}" for _, p, v in st)


def gen_program(rng, idx):
    kind = "modular" if rng.random() < 0.7 else "flat"
    o = {
        "idx": idx,
        "kind": kind,
        "mode2D": rng.random() < 0.2,
        "model": rng.random() < 0.3,
        "initial": kind == "modular" and rng.random() < 0.5,
        "rt_random": rng.random() < 0.3,
        "param_override": rng.random() < 0.3,
        "cansee": rng.random() < 0.3,
        "steps": 9 if kind == "modular" else 5,
    }
    rt = "x = Range(0, 1)\n        take F.SetProp('cnt', x)" if o["rt_random"] else "wait"
    defs = COMMON_DEFS.replace("{OBS}", OBS).replace("{RT}", rt)
    head = ["import verif_fault as F"]
    model_src = None
    if o["model"]:
        o["model_name"] = f"vmodel_{idx}"
        model_src = "import verif_fault as F\nF.fp('model')\nparam mp = 5\n" + THING
        head.append(f"model {o['model_name']}")
    head.append("workspace = Workspace(RectangularRegion((0, 0), 0, 100, 100))")
    head.append("param p1 = Range(0, 1)")
    head.append("param p2 = Options([1, 2, 3])")
    head.append("param extra = 3")
    head.append("x1 = globalParameters.p1")
    src = "\n".join(head) + "\n"
    if not o["model"]:
        src += THING
    src += defs
    if kind == "flat":
        src += """
monitor Mon():
    while True:
        F.fp('mon')
        F.obs('mon', snapshot(ego, other), ego.cnt, other.mut)
        wait

ego = new Thing at (F.dfp('dspec', Range(-1, 1)), 0), with behavior Drive(x1), with tagp globalParameters.extra
other = new Thing at (5, F.fpv('spec', 5)), with behavior Other(), with foo globalParameters.p2
third = new Thing at (Range(-9, -8), Range(8, 9)), facing Range(0, 90) deg
require F.fp('req')
require ego.position.x < 0.8
require always F.fp('always')
require eventually F.fp('ev')
require monitor Mon()
record F.fpv('rec', ego.cnt) as cnt
record initial snapshot(ego, other) as snap0
record final (snapshot(ego, other), other.mut, third.heading) as fin
terminate when F.fp('term', False)
terminate simulation when F.fp('termsim', False)
"""
        if rng.random() < 0.4:
            src += "mutate third\n"
        if o["cansee"]:
            src += CANSEE
        o["subs"] = []
    else:
        names = {"ego": "a", "other": "b"}
        n_sub_st = rng.randint(1, 3)
        sub_sts = rng.sample(OVERRIDE_POOL_SUB, n_sub_st)
        # never two behaviour overrides of the same object in one scenario (second would be a reuse question)
        nested = rng.random() < 0.6
        subsub_sts = rng.sample(OVERRIDE_POOL_SUBSUB, rng.randint(1, 2)) if nested else []
        place = [rng.choice(["setup", "compose"]) for _ in sub_sts]
        main_ov = rng.random() < 0.3
        endings = [rng.choice(["finish", "for", "until", "termafter", "ender"]) for _ in range(2)]
        D = rng.randint(1, 3)
        o.update({"sub_statements": sub_sts, "sub_places": place, "subsub_statements": subsub_sts, "endings": endings, "main_override": main_ov, "D": D})
        src += """
monitor Mon(a, b):
    while True:
        F.fp('mon')
        F.obs('mon', snapshot(a, b), a.cnt, b.mut, F.running())
        wait
"""
        if nested:
            src += "\nscenario SubSub(a, b):\n    setup:\n        F.fp('setup2')\n"
            for st in subsub_sts:
                src += "        " + _ov_stmt(st, names) + "\n"
            src += "    compose:\n        F.fp('compose3')\n        wait\n"
        src += "\nscenario Sub(n, a, b, mode):\n    precondition: F.fp('spre')\n    invariant: F.fp('sinv')\n    setup:\n        F.fp('setup')\n"
        if o["initial"]:
            src += "        if initial scenario:\n            F.obs('initial', 'Sub', 1)\n        else:\n            F.obs('initial', 'Sub', 0)\n"
        for st, pl in zip(sub_sts, place):
            if pl == "setup":
                src += "        " + _ov_stmt(st, names) + "\n"
        src += "        extra = new Thing at (F.fpv('spec', 20), 20 + n), with behavior (Ender() if mode == 'ender' else None)\n"
        src += "        require always F.fp('subreq')\n"
        # (`terminate when` inside a sub-scenario's setup is avoided: it is turned into a requirement, a C12 matter)
        src += "        if mode == 'termafter':\n            terminate after 2 steps\n"
        src += "    compose:\n        F.fp('compose2')\n"
        for st, pl in zip(sub_sts, place):
            if pl == "compose":
                src += "        " + _ov_stmt(st, names) + "\n"
        if nested:
            src += "        F.obs('pre:SubSub', snapshot(a, b))\n        do SubSub(a, b)\n        F.obs('post:SubSub', snapshot(a, b))\n"
        src += "        if mode == 'finish':\n" + "".join("            wait\n" for _ in range(D))
        src += "        else:\n            while True:\n                F.fp('compose2')\n                wait\n"
        src += "\nscenario Main():\n    setup:\n        F.fp('msetup')\n"
        if o["initial"]:
            src += (
                "        if initial scenario:\n            F.obs('initial', 'Main', 1)\n"
                "            ego = new Thing at (0, 0), with behavior Drive(x1), with tagp globalParameters.extra, with ini 1\n"
                "        else:\n            F.obs('initial', 'Main', 0)\n"
                "            ego = new Thing at (0, 0), with behavior Drive(x1), with tagp globalParameters.extra, with ini 0\n"
            )
        else:
            src += "        ego = new Thing at (F.dfp('dspec', Range(-1, 1)), 0), with behavior Drive(x1), with tagp globalParameters.extra\n"
        # N.B. locals of the top-level scenario other than `ego` are not rebound to their sampled values inside
        # the compose block (a separate Scenic limitation), so `other` must not be random here
        src += "        other = new Thing at (5, F.fpv('spec', 5)), with behavior Other()\n"
        src += "        third = new Thing at (Range(-9, -8), Range(8, 9)), with foo globalParameters.p2\n"
        if o["cansee"]:
            src += "".join("        " + l + "\n" for l in CANSEE.strip().splitlines())
        src += "        require F.fp('req')\n        require always F.fp('always')\n        require monitor Mon(ego, other)\n"
        src += "        record F.fpv('rec', ego.cnt) as cnt\n        record initial snapshot(ego, other) as snap0\n"
        src += "        record final (snapshot(ego, other), other.mut) as fin\n"
        src += "    compose:\n        F.fp('compose')\n"
        if main_ov:
            src += "        override ego with baz 40\n"
        for i, e in enumerate(endings):
            call = f"Sub({i + 1}, ego, other, '{e}')"
            src += f"        F.obs('pre:Sub{i + 1}', snapshot(ego, other))\n"
            if e == "for":
                src += f"        do {call} for 2 steps\n"
            elif e == "until":
                src += f"        do {call} until (F.fp('until', False) or F.now() >= {3 + 4 * i})\n"
            else:
                src += f"        do {call}\n"
            src += f"        F.obs('post:Sub{i + 1}', snapshot(ego, other))\n"
        src += "        wait\n"
    o["source"] = src
    o["model_source"] = model_src
    o["params"] = {"extra": 7} if o["param_override"] else {}
    return o


BROKEN = {
    "syntax": "\nego2 = = new Object\n",
    "toplevel_exc": "\nzz = F.fpv('late', 1)\nqq = 1 / 0\n",
    "infeasible": "\nbadobj = new Object at (1000, 1000)\n",
}

BOOL_TAGS = {"req", "always", "ev", "subreq", "pre", "inv", "oinv", "spre", "sinv", "int", "term", "termsim", "until"}
VALUE_TAGS = {"default", "spec", "dspec", "rec", "late"}
SIM_TAGS = {"sim_create", "sim_step", "sim_get", "apply"}


def modes_for(tag):
    if tag in BOOL_TAGS:
        return ["flip", "raise", "reject"]
    if tag in VALUE_TAGS:
        return ["raise", "reject"]
    if tag == "model":
        return ["raise"]
    return ["raise", "reject", "rejectsim"]


# ---------------------------------------------------------------------------------------------------
# the pipeline (used by the shard process and by the fresh reference subprocess)


def _exc(e):
    return [type(e).__name__, re.sub(r"0x[0-9a-fA-F]+", "0x?", str(e))[:200]]


def glob_state():
    """Observable interpreter-global state of Scenic."""
    import scenic.core.object_types as ot
    import scenic.syntax.veneer as v
    from scenic.syntax.translator import ScenicModule

    from rt import canon, su

    st = su.veneer_state()
    st["inInitialScenario"] = v.inInitialScenario
    st["globalParameters"] = canon.canon(dict(v._globalParameters))
    st["scenarios"] = len(v.scenarios)
    st["simulatorFactory"] = v.simulatorFactory is None
    st["loadingModel"] = v.loadingModel
    st["classes"] = [v.Point.__name__, v.OrientedPoint.__name__, v.Object.__name__, ot.Point.__name__, ot.OrientedPoint.__name__, ot.Object.__name__]
    st["scenic_modules"] = sorted(n for n, m in list(sys.modules.items()) if isinstance(m, ScenicModule))
    st["sys_path_head"] = sys.path[:2]
    st["sys_path_len"] = len(sys.path)
    return st


def snap_scenario(scenario):
    from rt import canon

    ds = scenario.dynamicScenario
    ns = {}
    for mod, space in scenario.behaviorNamespaces.items():
        ns[mod] = {k: canon.canon(val) for k, val in sorted(space.items()) if not k.startswith("_") and k != "F"}
    return {
        "objects": [canon.dump_object(o) for o in scenario.objects],
        "params": canon.canon(dict(scenario.params)),
        "ndeps": len(scenario.dependencies),
        "dyn_running": bool(ds._isRunning),
        "dyn_iter": ds._runningIterator is not None,
        "namespace": ns,
    }


def snap_scene(scene):
    from rt import canon

    d = canon.dump_scene(scene)
    d["monitors"] = [[type(m).__name__, bool(m._isRunning), m._runningIterator is not None] for m in scene.monitors]
    d["sample_objs"] = len(scene.objects)
    return d


REVERTS_ON_ORIGINAL = []  # property names written by Object._revert onto an object whose proxy is already disabled
_revert_hooked = [False]


def hook_revert():
    """Observation hook (class attribute): which properties does `_revert` write onto ORIGINAL objects?"""
    if _revert_hooked[0]:
        return
    _revert_hooked[0] = True
    import scenic.core.object_types as ot

    orig = ot.Constructible._revert

    def _revert(self, oldVals):
        try:
            if object.__getattribute__(self, "_dynamicProxy") is self:
                REVERTS_ON_ORIGINAL.extend(oldVals)
        except AttributeError:
            pass
        return orig(self, oldVals)

    ot.Constructible._revert = _revert


class Ctx:
    """What survives between cases of one program in the shard process."""

    scenario = None
    scene = None


def check_pairs(log):
    """Oracle (b): observations logged before / after each `do <scenario>` must agree."""
    bad = []
    pre = {}
    n = 0
    for tag, val in log:
        if tag.startswith("pre:"):
            pre[tag[4:]] = val
        elif tag.startswith("post:"):
            name = tag[5:]
            if name in pre:
                n += 1
                if pre[name] != val:
                    bad.append((name, pre[name], val))
    return n, bad


def pipeline(prog, ctx, seeds, fault=None, recompile=True, pristine=None, broken=None, sim_opts=None, stages=("compile", "generate", "simulate"), compensate=False):
    """Run compile -> generate -> simulate on the real code with `fault` armed.

    Returns {"dump": comparable dump, "events": [...snapshot differences...], "fired": [...], "end": ...}."""
    import scenic

    from rt import canon, su, vfault

    F = vfault.late_init()
    F.reset(fault)
    events = []
    dump = {}
    out = {"dump": dump, "events": events, "end": None, "snapshots": 0}
    sim_opts = sim_opts or {}

    import scenic.syntax.veneer as _veneer

    flag = [_veneer.inInitialScenario]

    def cmp(kind, before, after):
        out["snapshots"] += 1
        if kind.startswith("globals-"):
            # every other global must have its import-time value; this flag is compared with its value before
            # the operation (otherwise one stale flag would be reported after every later operation)
            before = dict(before, inInitialScenario=flag[0])
            flag[0] = after["inInitialScenario"]
        d = canon.all_diffs(before, after)
        if d and kind.startswith("globals-"):
            # one event per global, so that each is classified on its own
            tops = sorted({"." + x.split(".")[1].split("[")[0] for x in d})
            for t in tops:
                events.append({"kind": kind, "diffs": [t], "first": f"{t}: {json.dumps(before.get(t[1:]), default=str)[:80]} != {json.dumps(after.get(t[1:]), default=str)[:80]}"})
            if ".currentBehavior" in tops and _veneer.currentSimulation is None:
                # show the consequence once, then compensate (otherwise every later compilation in this process fails)
                try:
                    scenic.scenarioFromString("ego = new Object\n")
                    cons = "a following compilation of `ego = new Object` still works"
                except BaseException as e:  # noqa
                    cons = f"a following compilation of `ego = new Object` raises {type(e).__name__}: {str(e)[:80]}"
                events[-len(tops) + tops.index(".currentBehavior")]["first"] += "; " + cons
                _veneer.currentBehavior = None
        elif d:
            events.append({"kind": kind, "diffs": d, "first": canon.first_diff(before, after)})

    # ---- compile
    if "compile" in stages and (recompile or ctx.scenario is None):
        F.PHASE = "compile"
        if compensate:
            # harness-side compensation of the confirmed stale-flag defect (reported where it is detected),
            # so that the remaining cases of the program are not all dominated by it
            _veneer.inInitialScenario = True
            flag[0] = True
        src = prog["source"] + (BROKEN[broken] if broken else "")
        su.seed_all(seeds[0])
        try:
            scenario = scenic.scenarioFromString(src, mode2D=prog["mode2D"], params=dict(prog["params"]))
        except BaseException as e:  # noqa
            dump["compile"] = _exc(e)
            out["end"] = "compile_exception"
            if pristine is not None:
                cmp("globals-after-failed-compile", pristine, glob_state())
            ctx.scenario = None
            ctx.scene = None
            out["fired"] = list(F.FIRED)
            out["log"] = list(F.LOG)
            F.PHASE = "idle"
            return out
        dump["compile"] = "ok"
        dump["compile_log"] = list(F.LOG)
        ctx.scenario = scenario
        ctx.scene = None
        if pristine is not None:
            cmp("globals-after-compile", pristine, glob_state())
    scenario = ctx.scenario
    # ---- generate
    if "generate" in stages:
        F.PHASE = "generate"
        su.seed_all(seeds[1])
        s0 = snap_scenario(scenario)
        try:
            scene, its = scenario.generate(maxIterations=30, verbosity=0)
        except BaseException as e:  # noqa
            dump["generate"] = _exc(e)
            out["end"] = "generate_exception"
            cmp("scenario-after-failed-generate", _strip_ns(s0), _strip_ns(snap_scenario(scenario)))
            if pristine is not None:
                cmp("globals-after-failed-generate", pristine, glob_state())
            ctx.scene = None
            out["fired"] = list(F.FIRED)
            out["log"] = list(F.LOG)
            F.PHASE = "idle"
            return out
        dump["generate"] = {"scene": canon.dump_scene(scene), "iterations": its}
        ctx.scene = scene
        cmp("scenario-after-generate", _strip_ns(s0), _strip_ns(snap_scenario(scenario)))
        if pristine is not None:
            cmp("globals-after-generate", pristine, glob_state())
    scene = ctx.scene
    # ---- simulate
    if "simulate" in stages:
        F.PHASE = "simulate"
        F.LOG.clear()
        hook_revert()
        del REVERTS_ON_ORIGINAL[:]
        su.seed_all(seeds[2])
        sc0 = snap_scene(scene)
        s0 = snap_scenario(scenario)
        simulator = F.FaultySimulator()
        try:
            sim = simulator.simulate(
                scene,
                maxSteps=prog["steps"],
                maxIterations=sim_opts.get("maxIterations", 1),
                raiseGuardViolations=sim_opts.get("raiseGuardViolations", False),
                verbosity=0,
            )
        except BaseException as e:  # noqa
            dump["simulate"] = {"exception": _exc(e), "log": list(F.LOG)}
            out["end"] = "simulate_exception"
        else:
            dump["simulate"] = {"result": canon.dump_result(sim), "log": list(F.LOG)}
            out["end"] = "simulate_completed" if sim is not None else "simulate_rejected"
        import gc

        gc.collect()  # suspended generators of the dead simulation are finalised now, not at some later point
        cmp("scene-after-simulation", sc0, snap_scene(scene))
        if events and events[-1]["kind"] == "scene-after-simulation":
            events[-1]["reverted_on_original"] = sorted(set(REVERTS_ON_ORIGINAL))
        cmp("scenario-after-simulation", s0, snap_scenario(scenario))
        if pristine is not None:
            cmp("globals-after-simulation", pristine, glob_state())
        npairs, bad = check_pairs(F.LOG)
        out["pairs"] = npairs
        out["bad_pairs"] = bad
    out["fired"] = list(F.FIRED)
    out["log"] = list(F.LOG)
    out["phase_counts"] = dict(F.PHASE_COUNTS)
    F.PHASE = "idle"
    F.FAULT = None
    return out


def _strip_ns(snap):
    # generating a scene legitimately rebinds module globals to sampled values while checking requirements
    s = dict(snap)
    s.pop("namespace", None)
    return s


def write_model(prog, d):
    if prog.get("model_source"):
        with open(os.path.join(d, prog["model_name"] + ".scenic"), "w") as f:
            f.write(prog["model_source"])


def fresh_reference(prog, seeds, workdir, timeout=600):
    env = dict(os.environ)
    env["PYTHONPATH"] = VERIF + os.pathsep + env.get("PYTHONPATH", "")
    for v in ("OMP_NUM_THREADS", "OPENBLAS_NUM_THREADS", "MKL_NUM_THREADS"):
        env[v] = "1"
    env.setdefault("PYTHONHASHSEED", "0")
    try:
        r = subprocess.run(
            [PY, "-W", "ignore", "-m", "rt.c14_ref"],
            input=json.dumps({"prog": prog, "seeds": seeds}),
            capture_output=True,
            text=True,
            env=env,
            cwd=workdir,
            timeout=timeout,
        )
    except subprocess.TimeoutExpired:
        return None, "timeout"
    if r.returncode != 0:
        return None, "crash: " + (r.stderr or "")[-600:]
    try:
        return json.loads(r.stdout), None
    except Exception as e:  # noqa
        return None, f"bad output {e}"


# ---------------------------------------------------------------------------------------------------
# classification of the confirmed defects (narrow; everything else stays unclassified)


def _unwrap(v):
    """observation = canon((snapshot_tuple,)) -> list of the snapshot's fields"""
    if isinstance(v, list) and v and v[0] == "t":
        v = v[1:]
        if len(v) == 1 and isinstance(v[0], list) and v[0] and v[0][0] == "t":
            v = v[0][1:]
        return list(v)
    return None


def _diff_fields(pre, post):
    a, b = _unwrap(pre), _unwrap(post)
    if a is None or b is None or len(a) != len(b) or len(a) != len(OBS_FIELDS):
        return ["?"]
    return [OBS_FIELDS[i] for i in range(len(a)) if a[i] != b[i]]


def _val(v):
    v = str(v)
    if v.endswith(")"):
        return v.split("(")[0]  # behaviours are observed by class name
    try:
        return int(v)
    except ValueError:
        return v


def _model_first_oldvals(prog, name, pre_fields):
    """Executable model of the confirmed defect: per (scenario, object) only the old values gathered by the
    FIRST override statement are restored when the scenario ends.  Returns the predicted observation after
    `do <name>` ended, given the observation before it started."""
    st = dict(zip(OBS_FIELDS, pre_fields))

    def apply(statements, old):
        for stm in statements:
            obj = stm[0][0]
            if obj not in old:
                old[obj] = {f"{obj}.{p}": st[f"{obj}.{p}"] for _, p, _ in stm}
            for _, p, v in stm:
                st[f"{obj}.{p}"] = _val(v)

    def revert(old):
        for vals in old.values():
            st.update(vals)

    subsub = [list(map(tuple, x)) for x in (prog.get("subsub_statements") or [])]
    if name == "SubSub":
        old2 = {}
        apply(subsub, old2)
        revert(old2)
        return [st[f] for f in OBS_FIELDS]
    sts = [list(map(tuple, x)) for x in (prog.get("sub_statements") or [])]
    places = prog.get("sub_places") or []
    ordered = [x for x, pl in zip(sts, places) if pl == "setup"] + [x for x, pl in zip(sts, places) if pl == "compose"]
    old1 = {}
    apply(ordered, old1)
    if subsub:
        old2 = {}
        apply(subsub, old2)
        revert(old2)
    revert(old1)
    return [st[f] for f in OBS_FIELDS]


def predicted_by_single_oldvals(prog, name, pre, post):
    """True iff the observation after `do <name>` is exactly what the first-oldVals-only model predicts
    (and differs from the observation before)."""
    a, b = _unwrap(pre), _unwrap(post)
    if a is None or b is None or len(a) != len(OBS_FIELDS) or len(b) != len(OBS_FIELDS) or a == b:
        return False
    key = "SubSub" if name == "SubSub" else "Sub"
    try:
        return _model_first_oldvals(prog, key, a) == b
    except KeyError:
        return False


def classify_event(prog, ev):
    """Snapshot differences: only the veneer flag that is never reset is a known mechanism."""
    if ev["kind"].startswith("globals-") and ev["diffs"] == [".inInitialScenario"]:
        return "veneer.inInitialScenario-not-reset"
    if ev["kind"] == "scene-after-simulation" and ev.get("reverted_on_original"):
        # Simulation.__init__'s finally block disables the dynamic proxies BEFORE it stops the still-running
        # scenarios, so their override reverts are written onto the original scene objects
        props = set()
        for d in ev["diffs"]:
            m = re.match(r"^\.objects\[\d+\]\[2\]\.(\w+)", d)
            if not m:
                m2 = re.match(r"^\.objects\[\d+\]\[3\]\.beh", d)
                if m2:
                    props.add("behavior")
                    continue
                return None
            props.add(m.group(1))
        if props and props <= set(ev["reverted_on_original"]):
            return "simulation.finally-reverts-overrides-onto-original-objects"
    if ev["kind"] == "globals-after-simulation" and ev["diffs"] == [".currentBehavior"]:
        # a generator suspended inside `with veneer.executeInBehavior(sub)` is finalised after endSimulation and
        # its context manager puts the dead simulation's behaviour back into veneer.currentBehavior
        return "veneer.currentBehavior-restored-after-endSimulation"
    return None


# ---------------------------------------------------------------------------------------------------


def plan(tier, seed):
    n = 16 if tier == "quick" else 64
    return [
        {"shard": i, "programs": 2, "max_cases": 32 if tier == "quick" else 60, "max_compile": 5 if tier == "quick" else 8, "timeout": 3000 if tier == "quick" else 9000}
        for i in range(n)
    ]


def fault_points(prog, counts, rng, max_cases, max_compile=8):
    """All (tag, k, mode) with k in {1, 2, middle, last}; sampled down to the budget, every tag first.
    Points whose tag is evaluated during compilation need a compilation each, so they are capped separately."""
    per_tag = {}
    compile_tags = set()
    for key, c in counts.items():
        ph, tag = key.split(":", 1)
        per_tag[tag] = per_tag.get(tag, 0) + c
        if ph == "compile":
            compile_tags.add(tag)
    pts = []
    for tag, c in sorted(per_tag.items()):
        ks = sorted({1, 2, (c + 1) // 2, c} & set(range(1, c + 1)))
        for k in ks:
            for m in modes_for(tag):
                pts.append((tag, k, m))
    rng.shuffle(pts)
    seen, first, rest = set(), [], []
    for p in pts:
        if p[0] not in seen:
            seen.add(p[0])
            first.append(p)
        else:
            rest.append(p)
    chosen, ncomp = [], 0
    for p in first + rest:
        if p[0] in compile_tags:
            if ncomp >= max_compile:
                continue
            ncomp += 1
        chosen.append(p)
        if len(chosen) >= max_cases:
            break
    return chosen, len(pts)


def run_case(prog, ctx, seeds, fault, ref, pristine, followups, rng, res, bump, broken=None, sim_opts=None, recompile=False, compensate=True):
    """One fault case + follow-ups.  Appends violations to res."""
    from rt import canon, su

    tagdesc = f"fault={fault} broken={broken} sim_opts={sim_opts}"
    viols = res["violations"]

    def add(key, what, extra=None):
        w = {"prog": prog, "seeds": seeds, "fault": list(fault) if fault else None, "broken": broken, "sim_opts": sim_opts, "followups": followups, "recompile": recompile}
        if extra:
            w.update(extra)
        viols.append({"key": key, "what": what, "witness": w})

    out = pipeline(
        prog, ctx, seeds, fault=fault, recompile=recompile or broken is not None, pristine=pristine, broken=broken, sim_opts=sim_opts,
        compensate=compensate,
    )
    res["evaluations"] += 1
    bump("cases")
    bump("snapshots_compared", out["snapshots"])
    bump("end_" + (out["end"].split("_", 1)[1] if out["end"] else "none"))
    bump("exit_" + (out["end"] or "none"))
    fired = out["fired"]
    if fired:
        bump("faults_fired")
        bump("fired_" + fired[0][3])
        bump("fired_tag_" + fired[0][0])
        bump("fired_mode_" + fired[0][2])
        res["nontrivial"].append(su.h([prog["source"], list(fault)]))
    elif broken:
        bump("broken_" + broken)
        if out["end"] == "compile_exception":
            bump("faults_fired")
            bump("fired_compile")
            res["nontrivial"].append(su.h([prog["source"], broken]))
    exc = None
    for st in ("compile", "generate"):
        if isinstance(out["dump"].get(st), list):
            exc = out["dump"][st][0]
    if isinstance(out["dump"].get("simulate"), dict) and "exception" in out["dump"]["simulate"]:
        exc = out["dump"]["simulate"]["exception"][0]
    if exc:
        bump("exception_" + exc)
    # (a) snapshots
    for ev in out["events"]:
        key = classify_event(prog, ev)
        extra = f"; properties written by _revert onto original objects: {ev['reverted_on_original']}" if ev.get("reverted_on_original") else ""
        add(key, f"(a) {ev['kind']}: state differs at {ev['diffs'][:6]} (first: {ev['first']}){extra}; {tagdesc}; end={out['end']}")
    # (b) override pairs
    bump("override_pairs_checked", out.get("pairs", 0))
    for name, pre, post in out.get("bad_pairs", []):
        key = "override.only-first-oldvals-per-object-reverted" if predicted_by_single_oldvals(prog, name, pre, post) else None
        fields = _diff_fields(pre, post)
        bump("override_pairs_bad")
        add(
            key,
            f"(b) after `do {name}` ended, {fields} read {post} but read {pre} before it started; overrides in Sub: "
            f"{prog.get('sub_statements')} at {prog.get('sub_places')}, SubSub: {prog.get('subsub_statements')}; {tagdesc}",
        )
    # (c) follow-ups in the now used process
    if ref is None:
        return out
    for fu in followups:
        if fu == "resimulate":
            if ctx.scene is None or ctx.scenario is None:
                continue
            ref_scene = ref["dump"]["generate"].get("scene") if isinstance(ref["dump"].get("generate"), dict) else None
            mine = canon.dump_scene(ctx.scene)
            o2 = pipeline(prog, ctx, seeds, None, recompile=False, pristine=pristine, stages=("simulate",))
            bump("followup_resimulate")
            bump("snapshots_compared", o2["snapshots"])
            _follow_events(prog, o2, add, "resimulate", tagdesc)
            if mine == ref_scene:
                d = canon.first_diff(ref["dump"].get("simulate"), o2["dump"].get("simulate"))
                bump("followup_resimulate_compared")
                if d:
                    add(None, f"(c) re-simulating the same scene after the faulted run differs from a fresh process at {d}; {tagdesc}")
            else:
                # the scene differs from the fresh one (the fault changed sampling): two clean re-runs must agree
                o3 = pipeline(prog, ctx, seeds, None, recompile=False, pristine=pristine, stages=("simulate",))
                bump("followup_resimulate_selfcompared")
                d = canon.first_diff(o2["dump"].get("simulate"), o3["dump"].get("simulate"))
                if d:
                    add(None, f"(c) two re-simulations of the same scene with the same seed differ at {d}; {tagdesc}")
        elif fu == "regenerate":
            if ctx.scenario is None:
                continue
            stale = _stale_binding(ctx.scenario)
            o2 = pipeline(prog, ctx, seeds, None, recompile=False, pristine=pristine, stages=("generate", "simulate"))
            bump("followup_regenerate")
            bump("snapshots_compared", o2["snapshots"])
            _follow_events(prog, o2, add, "regenerate", tagdesc)
            a = {k: ref["dump"].get(k) for k in ("generate", "simulate")}
            b = {k: o2["dump"].get(k) for k in ("generate", "simulate")}
            d = canon.first_diff(a, b)
            if d:
                key = None
                if stale:
                    # mechanism check: undo what DynamicScenario._bindTo did for the last simulation, repeat
                    _unbind(ctx.scenario)
                    o3 = pipeline(prog, ctx, seeds, None, recompile=False, pristine=None, stages=("generate", "simulate"))
                    if canon.first_diff(a, {k: o3["dump"].get(k) for k in ("generate", "simulate")}) is None:
                        key = "simulation.scenario-stays-bound-to-simulated-scene"
                add(
                    key,
                    f"(c) re-generating + simulating from the same scenario after the faulted run differs from a fresh process at {d}; "
                    f"scenario still bound to the objects of the last simulated scene={stale}; {tagdesc}",
                )
        elif fu == "recompile":
            import scenic.syntax.veneer as veneer

            was = veneer.inInitialScenario
            o2 = pipeline(prog, ctx, seeds, None, recompile=True, pristine=pristine)
            bump("followup_recompile")
            bump("snapshots_compared", o2["snapshots"])
            _follow_events(prog, o2, add, "recompile", tagdesc)
            d = canon.first_diff(ref["dump"], o2["dump"])
            if d:
                key = None
                if "initial scenario" in prog["source"] and was is False:
                    # mechanism check: the same recompilation with the stale flag put back to its import-time value
                    o3 = pipeline(prog, ctx, seeds, None, recompile=True, pristine=None, compensate=True)
                    if canon.first_diff(ref["dump"], o3["dump"]) is None:
                        key = "veneer.inInitialScenario-not-reset"
                add(key, f"(c) re-compiling + generating + simulating after the faulted run differs from a fresh process at {d}; veneer.inInitialScenario was {was} before the compile; {tagdesc}")
                if ctx.scenario is None or key is None:
                    pipeline(prog, ctx, seeds, None, recompile=True, pristine=None, stages=("compile",), compensate=True)
    return out


def _stale_binding(scenario):
    ds = scenario.dynamicScenario
    objs = list(scenario.objects)
    return any(all(o is not p for p in objs) for o in ds._objects) or (ds._ego is not scenario.egoObject)


def _unbind(scenario):
    ds = scenario.dynamicScenario
    ds._objects = list(scenario.objects)
    ds._ego = scenario.egoObject


def _follow_events(prog, o2, add, name, tagdesc):
    for ev in o2["events"]:
        add(classify_event(prog, ev), f"(a) during follow-up {name}: {ev['kind']}: state differs at {ev['diffs'][:6]} (first: {ev['first']}); {tagdesc}")
    for nm, pre, post in o2.get("bad_pairs", []):
        key = "override.only-first-oldvals-per-object-reverted" if predicted_by_single_oldvals(prog, nm, pre, post) else None
        add(key, f"(b) during follow-up {name}: after `do {nm}` ended the observation {post} differs from {pre} before it; {tagdesc}")


def run_shard(spec):
    from rt import bootstrap, su, vfault

    tier = spec["tier"]
    rng = random.Random(spec["seed"] * 1000003 + spec["shard"] * 7 + 1)
    res = {"evaluations": 0, "nontrivial": [], "counters": {}, "samples": [], "violations": [], "skipped": {}}
    C = res["counters"]

    def bump(k, n=1):
        if n:
            C[k] = C.get(k, 0) + n

    def skip(k):
        res["skipped"][k] = res["skipped"].get(k, 0) + 1

    import scenic  # noqa

    F = vfault.late_init()
    pristine = glob_state()
    workdir = tempfile.mkdtemp(prefix="verif-c14-")
    oldcwd = os.getcwd()
    os.chdir(workdir)
    try:
        for pi in range(spec["programs"]):
            prog = gen_program(rng, spec["shard"] * 100 + pi)
            write_model(prog, workdir)
            seeds = [rng.randrange(1 << 20) for _ in range(3)]
            ref, err = fresh_reference(prog, seeds, workdir)
            if ref is None:
                skip("reference-" + err.split(":")[0])
                if err.startswith("crash"):
                    res["violations"].append({"key": None, "what": "fresh reference process crashed: " + err, "witness": {"prog": prog, "seeds": seeds}})
                continue
            bump("fresh_references")
            bump("program_" + prog["kind"])
            for f in ("mode2D", "model", "initial", "rt_random", "param_override", "cansee"):
                if prog[f]:
                    bump("program_with_" + f)
            if ref["end"] != "simulate_completed":
                skip("reference-run-" + str(ref["end"]))
            for ev in ref["events"]:
                res["violations"].append({"key": classify_event(prog, ev), "what": f"(a) in a fresh process, clean run: {ev['kind']} differs at {ev['diffs'][:6]} ({ev['first']})", "witness": {"prog": prog, "seeds": seeds, "fault": None}})
            ctx = Ctx()
            # clean traced run in this (used) process: itself a recompile follow-up of everything before
            import scenic.syntax.veneer as veneer

            from rt import canon

            was = veneer.inInitialScenario
            out = run_case(prog, ctx, seeds, None, ref, pristine, [], rng, res, bump, recompile=True, compensate=False)
            d = canon.first_diff(ref["dump"], out["dump"])
            bump("clean_runs")
            if d:
                key = None
                if "initial scenario" in prog["source"] and was is False:
                    o3 = pipeline(prog, ctx, seeds, None, recompile=True, pristine=None, compensate=True)
                    if canon.first_diff(ref["dump"], o3["dump"]) is None:
                        key = "veneer.inInitialScenario-not-reset"
                        out = o3
                res["violations"].append(
                    {
                        "key": key,
                        "what": f"(c) clean compile+generate+simulate in a process that ran other programs before differs from a fresh process at {d}; veneer.inInitialScenario was {was} before the compile",
                        "witness": {"prog": prog, "seeds": seeds, "fault": None, "followups": ["recompile"], "history": "earlier programs of the shard"},
                    }
                )
            counts = out.get("phase_counts") or {}
            for k2, c in counts.items():
                bump("hits_" + k2.split(":")[0], c)
            pts, total = fault_points(prog, counts, rng, spec["max_cases"], spec.get("max_compile", 8))
            bump("fault_points_available", total)
            if len(res["samples"]) < 2:
                res["samples"].append({"program": prog["source"], "model": prog.get("model_source"), "options": {"mode2D": prog["mode2D"], "params": prog["params"]}, "fault_points_sample": [list(p) for p in pts[:6]], "tags": sorted({p[0] for p in pts})})
            fus = ["resimulate", "regenerate", "recompile"]
            for ci, fault in enumerate(pts):
                # re-compilation is the expensive follow-up: every 6th case; the others alternate
                if ci % 6 == 5:
                    followups = ["recompile"]
                elif ci % 12 == 4:
                    followups = ["resimulate", "regenerate"]
                else:
                    followups = [fus[ci % 2]]
                sim_opts = None
                if ci % 5 == 3:
                    sim_opts = {"maxIterations": 2}
                elif ci % 5 == 4:
                    sim_opts = {"raiseGuardViolations": True}
                compile_phase = any(k2 == "compile:" + fault[0] for k2 in counts)
                run_case(prog, ctx, seeds, fault, ref, pristine, followups, rng, res, bump, sim_opts=sim_opts, recompile=compile_phase)
                if ctx.scenario is None:
                    # a failed compile leaves nothing to reuse: rebuild for the next case (that is a follow-up too)
                    pipeline(prog, ctx, seeds, None, recompile=True, pristine=None, stages=("compile",), compensate=True)
            for broken in BROKEN:
                run_case(prog, ctx, seeds, None, ref, pristine, ["recompile"], rng, res, bump, broken=broken)
    finally:
        os.chdir(oldcwd)
        shutil.rmtree(workdir, ignore_errors=True)
    # de-duplicate violations (same key + same oracle text prefix) to keep the output small
    seen = {}
    for v in res["violations"]:
        sig = (v["key"], v["what"][:60] if v["key"] is None else "")
        seen.setdefault(sig, []).append(v)
    out = []
    for sig, vs in seen.items():
        out.extend(vs[:3])
        if len(vs) > 3:
            bump("violations_suppressed_duplicates", len(vs) - 3)
    res["violations"] = out
    return res


def replay(w):
    from rt import bootstrap, canon, vfault

    import scenic  # noqa

    F = vfault.late_init()
    pristine = glob_state()
    prog, seeds = w["prog"], w["seeds"]
    workdir = tempfile.mkdtemp(prefix="verif-c14-")
    oldcwd = os.getcwd()
    os.chdir(workdir)
    res = {"evaluations": 0, "nontrivial": [], "counters": {}, "violations": []}
    try:
        write_model(prog, workdir)
        ref, err = fresh_reference(prog, seeds, workdir)
        if ref is None:
            return [{"key": None, "what": "reference failed: " + str(err), "witness": w}]
        ctx = Ctx()
        if not w.get("broken"):
            pipeline(prog, ctx, seeds, None, recompile=True, pristine=None, stages=("compile",), compensate=True)
        run_case(
            prog, ctx, seeds, tuple(w["fault"]) if w.get("fault") else None, ref, pristine, w.get("followups") or ["resimulate", "regenerate", "recompile"],
            random.Random(0), res, lambda k, n=1: None, broken=w.get("broken"), sim_opts=w.get("sim_opts"), recompile=bool(w.get("recompile")),
        )
    finally:
        os.chdir(oldcwd)
        shutil.rmtree(workdir, ignore_errors=True)
    return res["violations"]


MANIFEST_ENTRY = {
    "technique": "runtime monitoring: fault injection at every callback of the real compile/generate/simulate pipeline with before/after state snapshots, in-run override observations, and differential comparison of follow-up operations against a fresh process",
    "text": "Generated dynamic programs carry fault points (requirement, specifier argument at compile and at sample time, class default, setup and compose blocks of top-level and nested scenarios, behaviours, monitor, preconditions/invariants, interrupt and until conditions, record expressions, Action.applyTo, simulator create/step/getProperties, model import) and three compile-time failures; each (tag, k-th evaluation, failure mode) is armed in turn on the real code. Oracles: (a) canonical snapshots of all scene-object properties, scenario, module namespace, veneer globals, sys.modules/sys.path equal before/after (globals equal to their import-time values); (b) properties read after every `do Sub` equal those read before; (c) re-simulate / re-generate / re-compile with the same seeds in the used process equals the dump of one fresh subprocess per program. Fault enumeration bounded by k in {1,2,middle,last} and the per-program case budget.",
    "note": "Trusts rt/canon.py, DummySimulation as the simulator, and that generated programs have no in-place mutation of property values. Known-defect classification is by mechanism check: the stale veneer.inInitialScenario flag is confirmed by repeating the follow-up with the flag restored; the override leak only when the leaked properties are exactly those named by second-or-later override statements of the same object and scenario.",
}


# thorough-tier floors: the quick-tier floors scaled by a conservative fraction of the size ratio of the two tiers
# (counters of *distinct* things do not scale with the size and keep their quick-tier floor)
_NONSCALING = ('fresh_references', 'fired_compile', 'fired_generate')
MIN_COUNTERS["thorough"] = {k: (v if k in _NONSCALING else int(v * 3)) for k, v in MIN_COUNTERS["quick"].items()}
