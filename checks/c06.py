"""C06 — specifier resolution follows the documented priorities, whatever the order.

Every subset (up to a size bound) of the built-in specifier forms, with argument kinds / target class drawn per
subset, is written in ALL its permutations as `new C <specifiers>` lines of real Scenic programs.  Hooks on
Constructible._withSpecifiers / Specifier.getValuesFor / Constructible._specify record, per creation: the
Specifier objects (properties, priorities, dependencies), the evaluation order, which dependencies were
available at each evaluation, which specifier set each property, the outcome (values or kind of error).
Oracle: rt/spectable.py — the specifier table *parsed from docs/reference/specifiers.rst* and a reference
resolver written from the five documented resolution steps.
"""

import itertools
import math
import random

PROPERTY = "C06"
LEVEL = "exploration"
RULE = (
    "all subsets of size <= 3 (thorough: <= 4, size 4 sampled) of the 24 built-in specifier forms (with user/"
    "built-in property, at, in, contained in, on, offset by, offset along, beyond, visible, not visible, the "
    "six directional specifiers, following, facing, facing [directly] toward / away from, apparently facing) "
    "x a seeded draw of the argument kind of each (vector / Point / OrientedPoint / Object / region with or "
    "without preferred orientation / vector field / heading, with and without optional parts) and of the "
    "target class (Object, Point, OrientedPoint, user classes with inherited, additive, dynamic, final "
    "defaults and self-dependencies) x ALL permutations; 3D and 2D mode; plus same-form pairs and direct-API "
    "sets with user-defined modifying specifiers. A subset is non-trivial when it has >= 2 specifiers; "
    "distinct = distinct (form subset, kinds, class, mode)."
)
ASSUMPTIONS = [
    "priority/dependency table = bullets of docs/reference/specifiers.rst as parsed by rt/spectable.py (25 entries required)",
    "reference resolver = steps 1-5 of 'Specifier Resolution' + 'no property can be modified twice' + final properties cannot be specified",
    "dependencies of class defaults are inputs (taken from the class definitions: a hand-written table for the built-in classes, checked against the real classes, and the generator's own model for user classes)",
    "properties whose name starts with '_' are implementation details and ignored when comparing with the documented table",
    "errors are compared by kind (ambiguity / final / cyclic / missing / modified-twice / other), derived from the exception class and message",
    "in 2D mode `with heading X` is the documented equivalent of `facing X`",
]
MIN_COUNTERS = {
    "quick": {
        "creations": 4500,
        "subsets": 900,
        "outcome_ok": 600,
        "outcome_ambiguity": 1200,
        "outcome_cyclic": 8,
        "outcome_missing": 10,
        "outcome_final": 20,
        "permutation_groups_compared": 900,
        "spec_evaluations": 15000,
        "dependency_checks": 10000,
        "table_comparisons": 2500,
        "modifying_on_modifies": 50,
        "modifying_on_specifies": 20,
        "mode_2d_creations": 500,
        "user_class_creations": 700,
    },
    "thorough": {
        "creations": 100000,
        "subsets": 9000,
        "outcome_ok": 10000,
        "outcome_ambiguity": 50000,
        "outcome_cyclic": 200,
        "outcome_missing": 300,
        "outcome_final": 500,
        "permutation_groups_compared": 9000,
        "spec_evaluations": 400000,
        "dependency_checks": 200000,
        "table_comparisons": 30000,
        "modifying_on_modifies": 500,
        "modifying_on_specifies": 200,
        "mode_2d_creations": 15000,
        "user_class_creations": 20000,
    },
}

# ---------------------------------------------------------------------------------------------
# the built-in forms


def _vec(r, two):
    x, y = r.randint(-20, 20), r.randint(-20, 20)
    if two:
        return f"({x}, {y})"
    return f"({x}, {y}, {r.choice((0, 0, 1, -2))})"


def _by(r):
    return r.choice(("", "", f" by {r.randint(0, 5)}", f" by {r.randint(1, 9) / 2}"))


DIRS = {
    "left of": ("(left | right) of", "width"),
    "right of": ("(left | right) of", "width"),
    "ahead of": ("(ahead of | behind)", "length"),
    "behind": ("(ahead of | behind)", "length"),
    "above": ("(above | below)", "height"),
    "below": ("(above | below)", "height"),
}


def _dir_title(word, kind):
    base = DIRS[word][0]
    if kind == "vector":
        return f"{base} (vector) [by scalar]" if word in ("left of", "right of") else f"{base} vector [by scalar]"
    return f"{base} {'OrientedPoint' if kind == 'Q' else 'Object'} [by scalar]"


class Form:
    def __init__(self, name, kinds, text, title, user_prop=None):
        self.name, self.kinds, self.text, self.title, self.user_prop = name, kinds, text, title, user_prop


def _mk_forms():
    F = []
    F.append(Form("with_user", ["foo", "bar", "tags", "fin", "dyn", "extra"], lambda k, r, two: f"with {k} {r.randint(2, 9)}", lambda k: "with property value"))
    bvals = {
        "width": lambda r, two: str(r.randint(1, 4)),
        "yaw": lambda r, two: str(r.randint(-3, 3) / 2),
        "pitch": lambda r, two: str(r.randint(-2, 2) / 4),
        "parentOrientation": lambda r, two: str(r.randint(-3, 3) / 2),
        "position": lambda r, two: _vec(r, two),
        "position_aboveA": lambda r, two: "(12.2, 7.1)" if two else f"(12.2, 7.1, {r.randint(2, 9)})",
        "regionContainedIn": lambda r, two: "RO",
        "contactTolerance": lambda r, two: str(r.randint(0, 4) / 8),
        "heading": lambda r, two: str(r.randint(-3, 3) / 2),
        "orientation": lambda r, two: "Orientation.fromEuler(0.5, 0, 0)",
        "length": lambda r, two: str(r.randint(1, 4)),
    }
    F.append(Form("with_builtin", sorted(bvals), lambda k, r, two: f"with {k.split('_')[0]} {bvals[k](r, two)}", lambda k: "with property value"))
    F.append(
        Form(
            "at",
            ["vector", "PT", "Q", "A", "aboveA", "aboveA"],
            lambda k, r, two: "at " + (_vec(r, two) if k == "vector" else ("(12.2, 7.1)" if two else f"(12.2, 7.1, {r.randint(2, 9)})") if k == "aboveA" else k),
            lambda k: "at vector",
        )
    )
    F.append(Form("in", ["RO", "RF"], lambda k, r, two: f"in {k}", lambda k: "in region"))
    F.append(Form("contained in", ["RO", "RF"], lambda k, r, two: f"contained in {k}", lambda k: "contained in region"))
    F.append(Form("on", ["RO", "RF", "A", "A", "MS", "MS", "vector"], lambda k, r, two: f"on {_vec(r, two) if k == 'vector' else k}", lambda k: "on (region | Object | vector)"))
    F.append(Form("offset by", ["vector"], lambda k, r, two: f"offset by {_vec(r, two)}", lambda k: "offset by vector"))
    F.append(
        Form(
            "offset along",
            ["heading", "F"],
            lambda k, r, two: f"offset along {'F' if k == 'F' else r.randint(-3, 3) / 2} by {_vec(r, two)}",
            lambda k: "offset along direction by vector",
        )
    )
    F.append(
        Form(
            "beyond",
            ["scalar", "vector", "from_vector", "from_Q"],
            lambda k, r, two: f"beyond {_vec(r, two)} by "
            + (str(r.randint(1, 9)) if k != "vector" else _vec(r, two))
            + ({"from_vector": f" from {_vec(r, two)}", "from_Q": " from Q"}.get(k, "")),
            lambda k: "beyond vector by (vector | scalar) [from (vector | OrientedPoint)]",
        )
    )
    vk = ["ego", "PT", "Q", "A"]
    F.append(Form("visible", vk, lambda k, r, two: "visible" if k == "ego" else f"visible from {k}", lambda k: "visible [from (Point | OrientedPoint)]"))
    F.append(
        Form("not visible", vk, lambda k, r, two: "not visible" if k == "ego" else f"not visible from {k}", lambda k: "not visible [from (Point | OrientedPoint)]")
    )
    for word in DIRS:
        F.append(
            Form(
                word,
                ["vector", "Q", "A"],
                (lambda w: lambda k, r, two: f"{w} {_vec(r, two) if k == 'vector' else k}{_by(r)}")(word),
                (lambda w: lambda k: _dir_title(w, k))(word),
            )
        )
    F.append(
        Form(
            "following",
            ["ego", "from_vector"],
            lambda k, r, two: f"following F{'' if k == 'ego' else ' from ' + _vec(r, two)} for {r.randint(1, 12)}",
            lambda k: "following vectorField [from vector] for scalar",
        )
    )
    F.append(
        Form(
            "facing",
            ["heading", "tuple", "F"],
            lambda k, r, two: "facing " + ("F" if k == "F" else (str(r.randint(-3, 3) / 2) if (k == "heading" or two) else f"({r.randint(-3, 3) / 2}, {r.randint(-2, 2) / 4}, {r.randint(-2, 2) / 4})")),
            lambda k: "facing vectorField" if k == "F" else "facing orientation",
        )
    )
    for word, title in (
        ("facing toward", "facing (toward | away from) vector"),
        ("facing away from", "facing (toward | away from) vector"),
        ("facing directly toward", "facing directly (toward | away from) vector"),
        ("facing directly away from", "facing directly (toward | away from) vector"),
    ):
        F.append(Form(word, ["vector", "A"], (lambda w: lambda k, r, two: f"{w} {_vec(r, two) if k == 'vector' else k}")(word), (lambda t: lambda k: t)(title)))
    F.append(
        Form(
            "apparently facing",
            ["ego", "from_vector"],
            lambda k, r, two: f"apparently facing {r.randint(-3, 3) / 2}" + ("" if k == "ego" else f" from {_vec(r, two)}"),
            lambda k: "apparently facing heading [from vector]",
        )
    )
    return F


FORMS = _mk_forms()
FORM_BY_NAME = {f.name: f for f in FORMS}
assert len(FORMS) == 24

HEADER = """
import verif_script as V
workspace = Workspace(RectangularRegion((0, 0), 0, 400, 400))
class Base:
    foo: 1
    bar: self.foo + 10
    tags[additive]: 'base'
    dyn[dynamic]: 2
    fin[final]: self.foo * 3
class Mid(Base):
    foo: 5
    tags[additive]: 'mid'
    width: self.foo / 5
class Leaf(Mid):
    bar: self.width + 100
    yaw: self.bar * 0.001
    position: (self.foo, 2 * self.foo, 0)
class Cyc(Base):
    yaw: self.position.x * 0.01
    contactTolerance: self.width * 0.1
class ParDep(Base):
    parentOrientation: self.foo * 0.1
    tags[additive]: 'pardep'
{extra_classes}
ego = new Object at (0, 0, 0), with allowCollisions True
A = new Object at (12, 7, 0), facing 0.7, with width 2, with length 3, with allowCollisions True
Q = new OrientedPoint at (-8, 4, 0), facing -0.4
PT = new Point at (5, -9, 0)
F = VectorField("F", lambda pos: 0.3 + 0.01 * pos.x)
RO = RectangularRegion((30, 30), 0.2, 10, 12)
RF = PolygonalRegion([(40, 0), (50, 0), (50, 10), (40, 10)], orientation=F)
MS = MeshSurfaceRegion(A.topSurface.mesh, centerMesh=False, orientation=None)
"""
EXTRA_2D = """class Hdg(Base):
    heading: self.foo * 0.1
"""

# model of the user classes (written by the generator, mirrors HEADER): per class, most-derived first:
# prop -> (deps, function of a dict of values)
ZOO = {
    "Base": ["Base"],
    "Mid": ["Mid", "Base"],
    "Leaf": ["Leaf", "Mid", "Base"],
    "Cyc": ["Cyc", "Base"],
    "ParDep": ["ParDep", "Base"],
    "Hdg": ["Hdg", "Base"],
}
ZOO_DEFS = {
    "Base": {
        "foo": ((), lambda v: 1),
        "bar": (("foo",), lambda v: v["foo"] + 10),
        "tags": ((), lambda v: "base"),
        "dyn": ((), lambda v: 2),
        "fin": (("foo",), lambda v: v["foo"] * 3),
    },
    "Mid": {"foo": ((), lambda v: 5), "tags": ((), lambda v: "mid"), "width": (("foo",), lambda v: v["foo"] / 5)},
    "Leaf": {
        "bar": (("width",), lambda v: v["width"] + 100),
        "yaw": (("bar",), lambda v: v["bar"] * 0.001),
        "position": (("foo",), lambda v: (v["foo"], 2 * v["foo"], 0)),
    },
    "Cyc": {"yaw": (("position",), lambda v: v["position"][0] * 0.01), "contactTolerance": (("width",), lambda v: v["width"] * 0.1)},
    "ParDep": {"parentOrientation": (("foo",), lambda v: v["foo"] * 0.1), "tags": ((), lambda v: "pardep")},
    "Hdg": {"parentOrientation": (("foo",), lambda v: v["foo"] * 0.1)},  # 2D: `heading` default becomes parentOrientation
}
ZOO_FINALS = {"fin"}
ADDITIVE = {"tags"}

# dependencies of the defaults of the built-in classes (from the class documentation in object_types.py)
BUILTIN_DEFAULT_DEPS = {
    "Point": {"mutator": {"positionStdDev"}},
    "OrientedPoint": {
        "orientation": {"yaw", "pitch", "roll", "parentOrientation"},
        "heading": {"orientation"},
        "viewAngles": {"viewAngle"},
        "mutator": {"positionStdDev", "orientationStdDev"},
        "orientationStdDev": {"headingStdDev"},
    },
    "Object": {
        "width": {"shape"},
        "length": {"shape"},
        "height": {"shape"},
        "baseOffset": {"height"},
        "visionSensorOffset": {"length"},
        "velocity": {"speed", "orientation"},
    },
    "Object2D": {"height": {"width", "length"}, "baseOffset": set()},
}
BUILTIN_FINALS = {"Point": set(), "OrientedPoint": {"orientation", "heading"}, "Object": {"orientation", "heading", "observations"}}

CLASSES_3D = ["Object"] * 5 + ["Point", "OrientedPoint", "Base", "Mid", "Leaf", "Leaf", "Cyc", "Cyc", "ParDep"]
CLASSES_2D = ["Object"] * 4 + ["Point", "OrientedPoint", "Mid", "Leaf", "Cyc", "ParDep", "Hdg", "Hdg"]


# ---------------------------------------------------------------------------------------------
# planning


def all_subsets(tier, seed):
    names = [f.name for f in FORMS]
    subs = []
    for n in (1, 2):
        subs.extend(itertools.combinations(names, n))
    threes = list(itertools.combinations(names, 3))
    if tier == "quick":
        # quick tier: all subsets of size <= 2, a seeded sample of the size-3 subsets (all of them in thorough)
        threes = random.Random(seed * 7919 + 3).sample(threes, min(len(threes), 520))
    subs.extend(threes)
    # same form twice (different draws of kind): ambiguity unless the properties differ
    subs.extend((n, n) for n in names)
    extra = []
    rng = random.Random(seed * 99991 + 7)
    if tier == "thorough":
        four = list(itertools.combinations(names, 4))
        extra = rng.sample(four, 2600)
        # a second and third draw of kinds/classes for the small subsets
        subs = subs * 3
    # the interesting region: subsets mixing low-priority position specifiers, `on`, dependencies
    focus = ["visible", "not visible", "on", "at", "in", "with_builtin", "with_user", "facing toward", "left of", "facing", "contained in", "ahead of", "apparently facing"]
    rep = 3 if tier == "quick" else 12
    for _ in range(rep):
        for n in (2, 3):
            for c in itertools.combinations(focus, n):
                extra.append(c)
    # modifying `on` that succeeds + a specifier depending on the modified position (evaluation order matters)
    for dep in ("facing toward", "facing away from", "facing directly toward", "facing directly away from", "apparently facing", "facing=F"):
        for pos in ("at=aboveA", "with_builtin=position_aboveA"):
            for cls in ("Object", "Mid", "OrientedPoint"):
                extra.append(("cls=" + cls, "mode=3d", pos, "on=A", dep))
                extra.append(("cls=" + cls, "mode=3d", pos, "on=MS", dep))
    for cls in ("Object", "Leaf", "Cyc"):
        extra.append(("cls=" + cls, "mode=3d", "at=aboveA", "on=A"))
        extra.append(("cls=" + cls, "mode=3d", "at=aboveA", "on=A", "with_builtin=contactTolerance"))
        extra.append(("cls=" + cls, "mode=2d", "with_builtin=heading"))
        extra.append(("cls=" + cls, "mode=2d", "with_builtin=heading", "facing toward"))
        extra.append(("cls=" + cls, "mode=2d", "with_builtin=heading", "with_builtin=parentOrientation", "at"))
    return subs + extra


def plan(tier, seed):
    subs = all_subsets(tier, seed)
    n = 16 if tier == "quick" else 64
    shards = [{"shard": i, "subsets": [], "timeout": 1500 if tier == "quick" else 3000} for i in range(n)]
    for i, s in enumerate(subs):
        shards[i % n]["subsets"].append([i, list(s)])
    return shards


# ---------------------------------------------------------------------------------------------
# monitor (installed in the shard process)


class Monitor:
    def __init__(self):
        self.records = {}
        self.cur = None
        self.installed = False

    def install(self):
        if self.installed:
            return
        from scenic.core.object_types import Constructible
        from scenic.core.specifiers import Specifier

        mon = self
        orig_with = Constructible.__dict__["_withSpecifiers"].__func__
        orig_resolve = Constructible.__dict__["_resolveSpecifiers"].__func__
        orig_get = Specifier.getValuesFor
        orig_specify = Constructible.__dict__["_specify"].__func__

        def withSpecifiers(cls, specifiers, constProps=None, register=True):
            specs = list(specifiers)
            cid = None
            for s in specs:
                if s.name == "With(cid)":
                    cid = s.value["cid"]
            if cid is None or mon.cur is not None:
                return orig_with(cls, specs, constProps=constProps, register=register)
            specs = [s for s in specs if s.name != "With(cid)"]
            rec = {"cls": cls.__name__, "mro": [c.__name__ for c in cls.__mro__], "given": [], "events": [], "resolve_calls": 0}
            for s in specs:
                rec["given"].append(
                    {
                        "id": id(s),
                        "name": s.name,
                        "priorities": dict(s.priorities),
                        "deps": sorted(s.requiredProperties),
                        "modifiable": sorted(getattr(s, "modifiable_props", ())),
                        "type": type(s).__name__,
                    }
                )
            rec["class_defaults"] = {p: sorted(d.requiredProperties) for p, d in cls._defaults.items()}
            rec["class_finals"] = sorted(cls._finalProperties)
            mon.cur = rec
            try:
                obj = orig_with(cls, specs, constProps=constProps, register=False)
                rec["outcome"] = "ok"
                rec["props"] = {p: getattr(obj, p) for p in obj.properties}
            except BaseException as e:  # noqa
                rec["outcome"] = "error"
                rec["error"] = (type(e).__name__, str(e))
            finally:
                mon.cur = None
            mon.records[cid] = rec
            return None

        def resolveSpecifiers(cls, specifiers, defaults=None, overriding=False):
            if mon.cur is not None:
                mon.cur["resolve_calls"] += 1
                specifiers = list(specifiers)
                mon.cur["prepared"] = [(id(s), s.name, dict(s.priorities), sorted(s.requiredProperties)) for s in specifiers]
            return orig_resolve(cls, specifiers, defaults=defaults, overriding=overriding)

        def getValuesFor(self, obj):
            rec = mon.cur
            if rec is not None:
                avail = {p: (getattr(obj, p) if hasattr(obj, p) else _MISSING) for p in self.requiredProperties}
                rec["events"].append(("eval", id(self), self.name, dict(self.priorities), avail))
            return orig_get(self, obj)

        def specify(cls, context, prop, value):
            rec = mon.cur
            r = orig_specify(cls, context, prop, value)
            if rec is not None:
                rec["events"].append(("set", prop, getattr(context, prop, _MISSING)))
            return r

        Constructible._withSpecifiers = classmethod(withSpecifiers)
        Constructible._resolveSpecifiers = classmethod(resolveSpecifiers)
        Specifier.getValuesFor = getValuesFor
        Constructible._specify = classmethod(specify)
        self.installed = True


class _Missing:
    def __repr__(self):
        return "<missing>"


_MISSING = _Missing()
MON = Monitor()


def error_kind(err):
    ename, msg = err
    if ename == "SpecifierError" or ename == "InvalidScenarioError":
        if "specified twice with the same priority" in msg:
            return "ambiguity"
        if "to modify itself" in msg:
            return "same-name"
        if "cannot be directly specified" in msg:
            return "final"
        if "depends on itself" in msg:
            return "cyclic"
        if "is not specified" in msg and "required by" in msg:
            return "missing"
        if "modified twice" in msg:
            return "modified-twice"
    return f"other:{ename}"


# ---------------------------------------------------------------------------------------------
# case construction


def class_model(clsname, mode2d):
    """(defaults {prop: deps}, finals, zoo chain or None) of the oracle for a class name used in the programs."""
    chain = ZOO.get(clsname)
    base = "Object" if chain else clsname
    deps = {}
    order = {"Point": ["Point"], "OrientedPoint": ["Point", "OrientedPoint"], "Object": ["Point", "OrientedPoint", "Object"]}[base]
    for c in order:
        deps.update(BUILTIN_DEFAULT_DEPS[c])
    if mode2d and base == "Object":
        deps.update(BUILTIN_DEFAULT_DEPS["Object2D"])
    finals = set(BUILTIN_FINALS[base])
    if chain:
        for c in reversed(chain):
            for p, (d, fn) in ZOO_DEFS[c].items():
                if p in ADDITIVE:
                    deps[p] = set(deps.get(p, set())) | set(d)
                else:
                    deps[p] = set(d)
        finals |= ZOO_FINALS
    return deps, finals, chain


def build_cases(spec):
    """-> list of groups; group = dict(gid, forms, kinds, cls, mode, texts, perms=[(cid, order)])"""
    rng = random.Random(spec["seed"] * 1000003 + spec["shard"] * 7 + 1)
    groups = []
    cid = 0
    for gid, names in spec["subsets"]:
        mode = "2d" if rng.random() < 0.18 else "3d"
        forced = {}
        plain = []
        for nm in names:
            if nm.startswith("cls="):
                forced["cls"] = nm[4:]
            elif nm.startswith("mode="):
                mode = nm[5:]
            else:
                plain.append(nm)
        two = mode == "2d"
        cls = forced.get("cls") or rng.choice(CLASSES_2D if two else CLASSES_3D)
        kinds, texts = [], []
        fixedk = [nm.split("=", 1)[1] if "=" in nm else None for nm in plain]
        names = [nm.split("=", 1)[0] for nm in plain]
        for nm, fk in zip(names, fixedk):
            f = FORM_BY_NAME[nm]
            k = fk or rng.choice(f.kinds)
            if nm == "with_builtin" and k == "orientation" and two:
                k = "yaw"
            if nm == "with_builtin" and two and fk is None and rng.random() < 0.4:
                k = "heading"  # 2D mode: the documented `with heading` -> `facing` rewriting
            kinds.append(k)
            texts.append(f.text(k, rng, two))
        perms = list(itertools.permutations(range(len(names))))
        if len(perms) > 24:
            perms = perms[:1] + rng.sample(perms[1:], 23)
        g = {"gid": gid, "forms": list(names), "kinds": kinds, "cls": cls, "mode": mode, "texts": texts, "perms": []}
        for pm in perms:
            cid += 1
            g["perms"].append((cid, list(pm)))
        groups.append(g)
    return groups


def case_line(g, cid, pm):
    return f"new {g['cls']} with cid {cid}, " + ", ".join(g["texts"][i] for i in pm)


def run_programs(groups, res, bump):
    """Execute every case through the real front end; returns list of violations for failing front-end cases."""
    from rt import su

    MON.install()
    viols = []
    for mode in ("3d", "2d"):
        todo = [(g, cid, pm) for g in groups if g["mode"] == mode for cid, pm in g["perms"]]
        header = HEADER.format(extra_classes=EXTRA_2D if mode == "2d" else "")
        guard = 0
        while todo and guard < 40:
            guard += 1
            src = header + "\n".join(case_line(g, cid, pm) for g, cid, pm in todo) + "\n"
            try:
                su.compile_scenic(src, mode2D=(mode == "2d"))
                bump("programs_compiled")
                todo = []
            except BaseException as e:  # an exception escaped: it was raised while building a specifier
                idx = next((i for i, (g, cid, pm) in enumerate(todo) if cid not in MON.records), None)
                if idx is None:
                    viols.append({"key": None, "what": f"program failed after all cases ran: {type(e).__name__}: {e}", "witness": {"kind": "program", "mode": mode}})
                    break
                g, cid, pm = todo[idx]
                MON.records[cid] = {"outcome": "frontend-error", "error": (type(e).__name__, str(e))}
                bump("frontend_errors")
                todo = todo[idx + 1 :]
    return viols


# ---------------------------------------------------------------------------------------------
# judging


def canon(v, depth=0):
    """Canonical comparable form of a property value (identity of random values is not compared)."""
    from scenic.core.distributions import needsSampling
    from scenic.core.lazy_eval import needsLazyEvaluation

    try:
        if needsSampling(v) or needsLazyEvaluation(v):
            return f"<random {type(v).__name__}>"
    except Exception:
        pass
    if isinstance(v, bool) or v is None or isinstance(v, str):
        return v
    if isinstance(v, (int, float)):
        return round(float(v), 9)
    tn = type(v).__name__
    if tn == "Vector":
        return ("Vector",) + tuple(round(float(c), 9) for c in v)
    if tn == "Orientation":
        q = [float(c) for c in v.q]
        sgn = -1.0 if next((c for c in q if abs(c) > 1e-12), 1.0) < 0 else 1.0
        return ("Orientation",) + tuple(round(sgn * c, 9) for c in q)
    if isinstance(v, (tuple, list)) and depth < 3:
        return tuple(canon(x, depth + 1) for x in v)
    if hasattr(v, "shape") and hasattr(v, "tolist"):
        return ("ndarray", str(v.tolist())[:200])
    if tn in ("PositionMutator", "OrientationMutator", "BoxShape"):
        return f"<{tn}>"
    return f"<{tn} {str(v)[:80]}>"


def descriptor(g, i, table):
    """Documented descriptor (SpecD) of specifier i of the group."""
    from rt.spectable import SpecD

    nm, k = g["forms"][i], g["kinds"][i]
    f = FORM_BY_NAME[nm]
    ent = table[f.title(k)]
    if nm in ("with_user", "with_builtin"):
        if nm == "with_builtin" and k == "heading" and g["mode"] == "2d" and g["cls"] not in ("Point",):
            ent = table["facing orientation"]  # documented 2D rewriting of `with heading`
        else:
            return SpecD(i, {k.split("_")[0]: ent["any_property"]}, ())
    specifies = {}
    for p, (prio, cond) in ent["specifies"].items():
        if cond:
            # "(if the region has a preferred orientation)"
            has = k == "RF" or (nm == "on" and k == "A")
            if not has:
                continue
        specifies[p] = prio
    return SpecD(i, specifies, ent["deps"], ent["modifies"])


def observed_assignment(rec):
    """prop -> list of provider idents in order (specifier index in the given list, or 'default')."""
    ids = {}
    for j, s in enumerate(rec["given"]):
        ids[s["id"]] = j
    # 2D rewriting creates new specifier objects: map prepared specs positionally
    if "prepared" in rec:
        for j, (sid, name, pr, dp) in enumerate(rec["prepared"]):
            if j < len(rec["given"]) and sid not in ids:
                ids[sid] = j
    out = {}
    cur = None
    evals = []
    for ev in rec["events"]:
        if ev[0] == "eval":
            cur = ids.get(ev[1], "default" if ev[2] == "PropertyDefault" else f"?{ev[2]}")
            evals.append((cur, ev))
        else:
            out.setdefault(ev[1], []).append(cur)
    return out, evals


def judge_group(g, table, res, bump, viol):
    from rt import spectable as T

    recs = [(cid, pm, MON.records.get(cid)) for cid, pm in g["perms"]]
    label = f"[{g['mode']}] new {g['cls']} " + ", ".join(g["texts"])
    wit = {"kind": "group", "forms": g["forms"], "kinds": g["kinds"], "cls": g["cls"], "mode": g["mode"], "texts": g["texts"]}
    if any(r is None for _, _, r in recs):
        viol(None, f"{label}: case not executed", wit)
        return
    fe = [r for _, _, r in recs if r["outcome"] == "frontend-error"]
    if fe:
        bump("groups_frontend_error")
        viol(None, f"{label}: building the specifiers raised {fe[0]['error'][0]}: {fe[0]['error'][1][:150]}", wit)
        return
    mode2d = g["mode"] == "2d"
    deps, finals, chain = class_model(g["cls"], mode2d)
    n = len(g["forms"])
    # ---- documented descriptors, compared with the real Specifier objects ----------------------
    descs = [descriptor(g, i, table) for i in range(n)]
    first = recs[0][2]
    prepared = first.get("prepared")
    for pos, i in enumerate(recs[0][1]):
        d = descs[i]
        if prepared is None or pos >= len(prepared):
            break
        sid, name, prios, rdeps = prepared[pos]
        act_p = {p: v for p, v in prios.items() if not p.startswith("_")}
        bump("table_comparisons")
        if act_p != d.specifies or set(rdeps) != d.deps:
            viol(
                "table." + g["forms"][i].replace(" ", "-") + "." + g["kinds"][i],
                f"`{g['texts'][i]}` ({name}) specifies {act_p} deps {sorted(rdeps)}; the reference says {d.specifies} deps {sorted(d.deps)}",
                dict(wit, spec=i),
                raw=True,
            )
        giv = first["given"][pos]
        if d.modifiable and (giv["type"] != "ModifyingSpecifier" or set(giv["modifiable"]) != d.modifiable):
            viol(None, f"`{g['texts'][i]}` should be a modifying specifier for {d.modifiable}", dict(wit, spec=i))
    # class model vs real class
    cd = first["class_defaults"]
    bump("class_model_checks")
    real_deps = {p: set(v) for p, v in cd.items() if v}
    model_deps = {p: set(v) for p, v in deps.items() if v}
    if real_deps != model_deps:
        diff = {p: (sorted(real_deps.get(p, ())), sorted(model_deps.get(p, ()))) for p in set(real_deps) | set(model_deps) if real_deps.get(p) != model_deps.get(p)}
        viol(None, f"class {g['cls']} ({g['mode']}): dependencies of defaults differ from the class definitions (real, model): {diff}", wit)
    if set(first["class_finals"]) != finals:
        viol(None, f"class {g['cls']}: final properties {first['class_finals']} expected {sorted(finals)}", wit)
    class_defaults = {p: set(deps.get(p, ())) for p in cd}
    # ---- reference outcome ----------------------------------------------------------------------
    ref = T.resolve(descs, class_defaults, finals)
    outcomes = []
    for cid, pm, r in recs:
        if r["outcome"] == "ok":
            outcomes.append("ok")
        else:
            k = error_kind(r["error"])
            if k.startswith("other:") and r["events"]:
                k = "eval:" + k[6:]  # raised while evaluating the specifiers, i.e. after resolution (step 5)
            outcomes.append(k)
    # evaluation-stage errors that the reference documents / that are explicit "not yet supported" limits
    on_mod_kind = None
    if ref[0] == "ok":
        for i, nm in enumerate(g["forms"]):
            if nm == "on" and ref[1].get("position", (None, None))[1] == i:
                on_mod_kind = g["kinds"][i]
    allowed_eval = {
        "vector": "eval:TypeError",
        "RO": "eval:NotImplementedError",
        "RF": "eval:NotImplementedError",
        "A": "eval:RejectionException",
        "MS": "eval:RejectionException",
    }.get(on_mod_kind)
    allowed_eval2 = "eval:InvalidScenarioError" if on_mod_kind in ("A", "MS") else None
    for o in outcomes:
        bump("outcome_" + (o if not o.startswith(("other", "eval")) else o.split(":")[0]))
        bump("creations")
        if mode2d:
            bump("mode_2d_creations")
        if chain:
            bump("user_class_creations")
    bump("subsets")
    if n >= 2:
        res["nontrivial"].append(_h([g["forms"], g["kinds"], g["cls"], g["mode"]]))
        bump("permutation_groups_compared")

    def kinds_match(actual, applicable):
        if actual in applicable:
            return True
        if actual == "same-name" and ({"ambiguity", "modified-twice"} & applicable):
            return True
        return False

    # order independence
    classes = set(outcomes)
    order_dep = len(classes) > 1
    if order_dep and ref[0] == "error" and all(kinds_match(o, ref[1]) for o in outcomes):
        # several independent errors in the same set: which one is reported first may vary
        bump("groups_with_several_errors_kind_varies")
        order_dep = False
    if order_dep:
        # is it exactly the known mechanism (tie only detected against the best priority seen so far)?
        key = None
        if ref[0] == "error" and "ambiguity" in ref[1]:
            model = [T.buggy_order_dependent_model([descs[i] for i in pm]) for cid, pm, r in recs]
            rest = T.resolve_without_step1(descs, class_defaults, finals)
            if all((m == "ambiguity") == (o in ("ambiguity", "same-name")) for m, o in zip(model, outcomes)) and all(
                (o == "ok" and rest[0] == "ok") or (o != "ok" and (o in ("ambiguity", "same-name") or kinds_match(o, rest[1] if rest[0] == "error" else set())))
                for o in outcomes
            ):
                key = "resolve.same-priority-tie-detected-only-against-current-best"
        detail = "; ".join(f"{[g['forms'][i] for i in pm]} -> {o}" for (cid, pm, r), o in zip(recs, outcomes))
        viol(key, f"{label}: outcome depends on the order of the specifiers: {detail}"[:900], wit)
    # agreement with the reference resolver
    for (cid, pm, r), o in zip(recs, outcomes):
        if ref[0] == "error":
            if o == "ok":
                if not order_dep:
                    viol(None, f"{label}: created successfully but the reference reports {sorted(ref[1])}", wit)
                break
            if not kinds_match(o, ref[1]):
                if not order_dep:
                    viol(None, f"{label}: error kind {o} ({r['error'][1][:100]}) but the reference expects one of {sorted(ref[1])}", wit)
                break
        else:
            if o != "ok":
                if o in (allowed_eval, allowed_eval2):
                    res["skipped"]["modifying-on-" + o[5:]] = res["skipped"].get("modifying-on-" + o[5:], 0) + 1
                    continue
                if not order_dep:
                    viol(None, f"{label}: raised {r['error'][0]}: {r['error'][1][:140]} but the reference resolves it", wit)
                break
    # ---- successful creations: assignment, evaluation order, values ------------------------------
    canon_vals = []
    for (cid, pm, r), o in zip(recs, outcomes):
        if o != "ok":
            continue
        asg, evals = observed_assignment(r)
        ident = {pos: i for pos, i in enumerate(pm)}  # position in the written order -> index in the group
        # every dependency available and final when the specifier is evaluated
        final_vals = r["props"]
        for who, ev in evals:
            bump("spec_evaluations")
            for p, val in ev[4].items():
                bump("dependency_checks")
                if val is _MISSING:
                    viol(None, f"{label}: specifier {ev[2]} evaluated before its dependency {p} was specified (order {pm})", wit)
                elif p in final_vals and final_vals[p] is not val and canon(final_vals[p]) != canon(val):
                    viol(None, f"{label}: specifier {ev[2]} read {p} before it reached its final value (order {pm})", wit)
        if r["resolve_calls"] != 1:
            viol(None, f"{label}: _resolveSpecifiers called {r['resolve_calls']} times", wit)
        if ref[0] == "ok":
            exp = ref[1]
            for p, (spec, mod) in exp.items():
                if p.startswith("_"):
                    continue
                got = asg.get(p)
                if got is None:
                    viol(None, f"{label}: property {p} never assigned (order {pm})", wit)
                    continue
                got = [ident.get(x, x) if isinstance(x, int) else x for x in got]
                want = [spec] + ([mod] if mod is not None else [])
                if got != want:
                    viol(
                        None,
                        f"{label}: property {p} provided by {[_nm(g, x) for x in got]} but the reference says {[_nm(g, x) for x in want]} (order {pm})",
                        wit,
                    )
                if mod is not None:
                    bump("modifying_on_modifies")
            for i, nm in enumerate(g["forms"]):
                if nm == "on" and exp.get("position", (None, None))[0] == i:
                    bump("modifying_on_specifies")
            extra = [p for p in asg if p not in exp and not p.startswith("_")]
            if extra:
                viol(None, f"{label}: unexpected properties assigned: {extra}", wit)
        vals = {p: canon(v) for p, v in final_vals.items() if not p.startswith("_")}
        canon_vals.append((pm, vals))
        # values supplied by `with` and by user-class defaults
        for i, nm in enumerate(g["forms"]):
            if nm in ("with_user",) or (nm == "with_builtin" and g["kinds"][i] in ("width", "length", "contactTolerance", "yaw", "pitch")):
                p = g["kinds"][i]
                want = float(g["texts"][i].split()[-1])
                if ref[0] == "ok" and ref[1].get(p, (None,))[0] == i:
                    bump("with_value_checks")
                    gotv = final_vals.get(p)
                    try:
                        okv = abs(float(gotv) - (want if p not in ("yaw", "pitch") else math.remainder(want, math.tau))) < 1e-9
                    except Exception:
                        okv = False
                    if not okv:
                        viol(None, f"{label}: `{g['texts'][i]}` but {p} == {gotv!r}", wit)
        if chain and ref[0] == "ok":
            for p, (spec, mod) in ref[1].items():
                if spec != "default":
                    continue
                fn = None
                if p in ADDITIVE:
                    allv = [ZOO_DEFS[c][p][1]({}) for c in chain if p in ZOO_DEFS[c]]
                    want = tuple(allv)
                else:
                    for c in chain:
                        if p in ZOO_DEFS[c]:
                            fn = ZOO_DEFS[c][p]
                            break
                    if fn is None:
                        continue
                    try:
                        dv = {}
                        for d in fn[0]:
                            x = final_vals[d]
                            dv[d] = [float(c) for c in x] if type(x).__name__ == "Vector" else float(x)
                        want = fn[1](dv)
                    except Exception:
                        bump("user_default_unevaluable")
                        continue
                bump("user_default_value_checks")
                gotv = final_vals.get(p)
                try:
                    if p in ADDITIVE:
                        okv = tuple(gotv) == want
                    elif isinstance(want, tuple):
                        okv = all(abs(float(a) - b) < 1e-9 for a, b in zip(gotv, want))
                    elif p in ("yaw", "parentOrientation"):
                        okv = (abs(float(gotv) - want) < 1e-9) if not hasattr(gotv, "yaw") else abs(float(gotv.yaw) - want) < 1e-9
                    else:
                        okv = abs(float(gotv) - want) < 1e-9
                except Exception:
                    okv = False
                if not okv:
                    viol(None, f"{label}: default of {p} in class {g['cls']} is {gotv!r}, expected {want!r} (most derived default)", wit)
    if len(canon_vals) > 1:
        base_pm, base = canon_vals[0]
        for pm, vals in canon_vals[1:]:
            if vals != base:
                diff = {p: (base.get(p), vals.get(p)) for p in set(base) | set(vals) if base.get(p) != vals.get(p)}
                viol(None, f"{label}: property values differ between orders {base_pm} and {pm}: {str(diff)[:300]}", wit)
                break
        bump("value_comparisons", len(canon_vals) - 1)


def _nm(g, x):
    return g["forms"][x] if isinstance(x, int) else x


def _h(o):
    from rt import su

    return su.h(o)


# ---------------------------------------------------------------------------------------------
# direct API: user-defined modifying specifiers (the only way to modify a property twice)


def api_cases(res, bump, viol):
    from rt import su
    from scenic.core.errors import SpecifierError
    from scenic.core.object_types import Object
    from scenic.core.specifiers import ModifyingSpecifier, Specifier
    from scenic.core.vectors import Vector

    def mk():
        at = Specifier("At", {"position": 1}, {"position": Vector(1, 2, 3)})
        m1 = ModifyingSpecifier("ModA", {"position": 1}, {"position": Vector(4, 5, 6)}, modifiable_props={"position"})
        m2 = ModifyingSpecifier("ModB", {"position": 1}, {"position": Vector(7, 8, 9)}, modifiable_props={"position"})
        return [at, m1, m2]

    outs = []
    for pm in itertools.permutations(range(3)):
        specs = mk()
        try:
            Object._resolveSpecifiers([specs[i] for i in pm])
            outs.append("ok")
        except SpecifierError as e:
            outs.append(error_kind(("SpecifierError", str(e))))
        except Exception as e:
            outs.append(f"other:{type(e).__name__}:{e}")
        bump("api_creations")
    wit = {"kind": "api", "case": "modified-twice"}
    if any(o != "modified-twice" for o in outs):
        key = "resolve.modified-twice-error-path-undefined-name" if all(o.startswith("other:NameError") for o in outs) else None
        viol(key, f"a property modified by two modifying specifiers must raise the 'modified twice' SpecifierError; got {sorted(set(outs))}", wit)


# ---------------------------------------------------------------------------------------------


def run_shard(spec):
    from rt import bootstrap
    from rt import spectable as T

    res = {"evaluations": 0, "nontrivial": [], "counters": {}, "samples": [], "violations": [], "skipped": {}}
    C = res["counters"]

    def bump(k, n=1):
        C[k] = C.get(k, 0) + n

    seen = {}

    def viol(key, what, wit, raw=False):
        sig = key if key else what[:70]
        seen[sig] = seen.get(sig, 0) + 1
        bump("discrepancies")
        if seen[sig] <= 2 and len(res["violations"]) < 80:
            res["violations"].append({"key": key if not raw else classify_table(key, what), "what": what, "witness": wit})

    table = T.parse_table(bootstrap.REPO)
    bump("doc_table_entries", len(table))
    steps = T.parse_resolution_steps(bootstrap.REPO)
    if len(table) != 25 or len(steps) != 5:
        res["violations"].append({"key": None, "what": f"could not parse the reference: {len(table)} specifier entries, {len(steps)} resolution steps", "witness": {"kind": "docs"}})
        return res
    groups = build_cases(spec)
    for v in run_programs(groups, res, bump):
        res["violations"].append(v)
    for g in groups:
        judge_group(g, table, res, bump, viol)
        res["evaluations"] += len(g["perms"])
    if spec["shard"] == 0:
        api_cases(res, bump, viol)
    for g in groups[:2]:
        res["samples"].append({"mode": g["mode"], "cases": [case_line(g, cid, pm) for cid, pm in g["perms"]][:6]})
    return res


def classify_table(key, what):
    """Differences between a built-in specifier and the documented table: only named mechanisms get a key."""
    return None


def replay(w):
    from rt import bootstrap
    from rt import spectable as T

    res = {"evaluations": 0, "nontrivial": [], "counters": {}, "samples": [], "violations": [], "skipped": {}}

    def bump(k, n=1):
        pass

    def viol(key, what, wit, raw=False):
        res["violations"].append({"key": None if raw else key, "what": what, "witness": wit})

    if w.get("kind") == "api":
        api_cases(res, bump, viol)
        return res["violations"]
    if w.get("kind") != "group":
        return []
    table = T.parse_table(bootstrap.REPO)
    n = len(w["forms"])
    g = {"gid": 0, "forms": w["forms"], "kinds": w["kinds"], "cls": w["cls"], "mode": w["mode"], "texts": w["texts"], "perms": []}
    for c, pm in enumerate(itertools.permutations(range(n))):
        g["perms"].append((c + 1, list(pm)))
    MON.records.clear()
    for v in run_programs([g], res, bump):
        res["violations"].append(v)
    judge_group(g, table, res, bump, viol)
    return res["violations"]


MANIFEST_ENTRY = {
    "technique": "runtime monitoring: hooks on Constructible._withSpecifiers/_resolveSpecifiers, Specifier.getValuesFor and Constructible._specify record the history of every object creation; checked against an executable reference resolver fed with the table parsed from the reference documentation; differential over all permutations",
    "text": "All subsets (size <= 3, thorough also sampled size 4) of the 24 built-in specifier forms with seeded argument kinds and target classes are instantiated in every order through real Scenic programs (3D and 2D mode). For each creation the outcome class, the specifier providing/modifying each property, the availability and finality of every dependency at evaluation time, and the resulting values are compared with the reference resolver and across permutations; each real Specifier's (properties, priorities, dependencies) is compared with the parsed documentation table. Bounded exploration.",
    "note": "Trusts the documentation parser (asserts 25 entries / 5 steps), the generator's model of its own user classes and the hand-written dependency table of built-in class defaults (itself compared with the real classes on every group). Random property values are compared by type only.",
}
