"""C18 — encoded scenes and simulations decode and replay to the same thing.

Differential observation of the real encode/decode/replay code on generated programs:
round trip by canonical dump, Serializer write/read value logs, every truncation point, single-byte
corruptions (expected exception class), cross-decoding between programs / compile options, replay of
simulations drawing random values at run time, and divergence checking with offsets of either sign on
both sides of the tolerance for every dynamic property.
"""

import random
import signal
import traceback

PROPERTY = "C18"
LEVEL = "fault_enumeration"
RULE = (
    "seeded program generator (rt/c18lib.gen_program): 1-3 objects with random positions in regions / "
    "vector expressions, random orientations, random shapes and dimensions, properties and global "
    "parameters whose values come from Range/Normal/TruncatedNormal/DiscreteRange (bounds straddling the "
    "253, 2^15, 2^31, 2^32, 2^63, 2^64 width boundaries, negative), nested Uniform/Options (weighted, "
    "starred with random option count), tuples, arithmetic, and primitive distributions of each codec type "
    "(int edge values, float incl. inf/nan/-0.0/denormal, bool, str incl. non-ASCII and 300 chars, bytes, "
    "None, Vector, Orientation); optional mutate, static require, modular scenarios; 3/4 of the programs "
    "have behaviours drawing such values at every step (also in sub-behaviours under do / do choose / do "
    "shuffle, monitors, require[p] and hard require at run time, random terminate), records and "
    "termination conditions. Faults: every truncation point of each scene encoding, every truncation point of each replay up to a cap (quick 160 / thorough 600 points: the first third exhaustively, the rest sampled), "
    "random + structured single-byte corruptions, cross-decoding with the neighbouring program, with "
    "mode2D / param override / other modular scenario variants and an all-pairs matrix of compile options; "
    "divergence: every (object, dynamic property) x tolerance {0, 1e-3, 0.5} x offset {+-0.5 tol, +-2 tol} x "
    "first offset step. A program is non-trivial when its scenes encode at least one random value and "
    "round trip + truncation + corruption were all exercised on it; distinct = distinct program texts / "
    "divergence cases."
)
ASSUMPTIONS = [
    "canonical dump (rt/c18lib.canon): exact bit patterns for int/float/str/bytes/Vector, quaternion up to sign and 1e-12 for Orientation, class name + dimensions for shapes, class name + arguments for behaviours, type name for anything else",
    "a deterministic Simulation subclass (state = function of object index and step) stands for 'a deterministic simulator'",
    "truncation of a replay exactly at a value boundary is allowed to succeed (documented: the simulation continues past the end of the replay); anywhere else it must raise SerializationError",
    "a decode that does not finish within 2 s is only reported when the stack shows a loop whose iteration count is provably astronomical (normalizeAngle on |angle| > 1e12); otherwise counted as inconclusive",
    "4-byte hashes: accidental collisions between different programs (2^-32) are ignored",
]
MIN_COUNTERS = {
    "quick": {
        "scene_roundtrips": 60,
        "truncations_scene": 3000,
        "corruptions_scene": 3000,
        "cross_decodes": 60,
        "sim_replays": 40,
        "truncations_replay": 3000,
        "corruptions_replay": 1000,
        "divergence_cases": 300,
        "divergence_expected_reported": 100,
        "divergence_expected_silent": 100,
        "scene_values_encoded": 1000,
        "runtime_values_recorded": 1500,
        "int_2byte": 20,
        "int_4byte": 20,
        "int_big": 20,
        "written_str": 20,
        "written_bytes": 20,
        "written_bool": 20,
        "written_NoneType": 20,
        "written_Vector": 20,
        "written_Orientation": 20,
        "written_float": 100,
    },
    "thorough": {
        "scene_roundtrips": 800,
        "truncations_scene": 150000,
        "corruptions_scene": 100000,
        "cross_decodes": 1000,
        "sim_replays": 800,
        "truncations_replay": 60000,
        "corruptions_replay": 40000,
        "divergence_cases": 900,
        "divergence_expected_reported": 400,
        "divergence_expected_silent": 300,
        "scene_values_encoded": 8000,
        "runtime_values_recorded": 10000,
        "int_2byte": 200,
        "int_4byte": 200,
        "int_big": 200,
        "written_str": 200,
        "written_bytes": 200,
        "written_bool": 200,
        "written_NoneType": 200,
        "written_Vector": 200,
        "written_Orientation": 200,
        "written_float": 1000,
    },
}

MAX_PER_KEY = 3  # witnesses kept per (key, kind) per shard; the rest is only counted


class _Timeout(BaseException):
    pass


def _on_alarm(signum, frame):
    # remember the innermost frames for the logical-hang analysis
    info = []
    f = frame
    while f is not None and len(info) < 40:
        loc = None
        if f.f_code.co_name == "normalizeAngle":
            a = f.f_locals.get("angle")
            loc = ("normalizeAngle", a)
        info.append((f.f_code.co_filename, f.f_code.co_name, loc))
        f = f.f_back
    e = _Timeout()
    e.frames = info
    raise e


def _logical_hang(e):
    for fn, name, loc in getattr(e, "frames", ()):
        if loc and loc[0] == "normalizeAngle":
            a = loc[1]
            try:
                if abs(a) > 1e12:
                    return "normalizeAngle"
            except Exception:
                pass
    return None


def _repo_site(tb):
    """innermost frame of the traceback inside scenic: module.qualname"""
    site = "?"
    while tb is not None:
        code = tb.tb_frame.f_code
        fn = code.co_filename
        if "/scenic/" in fn:
            mod = fn.split("/scenic/")[-1].rsplit(".", 1)[0].replace("/", ".")
            site = f"{mod}.{getattr(code, 'co_qualname', code.co_name)}"
        tb = tb.tb_next
    return site


def _in_decoder(tb):
    """does the traceback pass through the decoding of a value (Serializer.read* / deserializeValue /
    replaySampledValue)?"""
    while tb is not None:
        n = tb.tb_frame.f_code.co_name
        if n in ("replaySampledValue", "deserializeValue", "readValue", "readSamplable", "readReplayHeader"):
            return True
        tb = tb.tb_next
    return False


class Ctx:
    def __init__(self, spec):
        from rt import c18lib

        self.spec = spec
        self.tier = spec["tier"]
        self.seed = spec["seed"]
        self.res = {"evaluations": 0, "nontrivial": [], "counters": {}, "samples": [], "violations": [], "skipped": {}}
        self.per_key = {}
        self.lib = c18lib
        c18lib.install_helper()
        self.mon = c18lib.SerializerMonitor()
        signal.signal(signal.SIGALRM, _on_alarm)
        # Behavior._step installs its own SIGALRM (stuck-behaviour warning) and resets the handler to
        # SIG_DFL afterwards; the documented knob 0 disables that so our watchdog stays armed
        import scenic.core.dynamics as dynamics

        dynamics.stuckBehaviorWarningTimeout = 0

    def bump(self, k, n=1):
        C = self.res["counters"]
        C[k] = C.get(k, 0) + n

    def skip(self, k, n=1):
        S = self.res["skipped"]
        S[k] = S.get(k, 0) + n

    def viol(self, key, kind, what, witness):
        self.bump("viol_" + (key or "unkeyed"))
        sig = (key, kind if key else what[:60])
        n = self.per_key.get(sig, 0)
        self.per_key[sig] = n + 1
        if n >= MAX_PER_KEY or len(self.res["violations"]) >= 120:
            return
        w = dict(witness)
        w["kind"] = kind
        w["seed"] = self.seed
        w["tier"] = self.tier
        self.res["violations"].append({"key": key, "what": f"[{kind}] {what}"[:700], "witness": w})

    def finish(self):
        m = self.mon
        for k, v in GEN_ERRORS.items():
            self.skip("scene_generation_error:" + k, v)
        self.bump("values_written", m.writes)
        self.bump("values_read", m.reads)
        for k, v in m.types_written.items():
            self.bump("written_" + k, v)
        for k, v in m.int_classes.items():
            self.bump(k, v)
        # aggregate int classes irrespective of sign for the MIN_COUNTERS
        for base in ("int_2byte", "int_4byte", "int_big"):
            n = m.int_classes.get(base + "_neg", 0)
            if n:
                self.bump(base, n)
        return self.res


def inconclusive(ctx, out, where):
    """watchdog / memory outcomes are never verdicts: count them and tell the caller to move on"""
    if out in ("timeout", "mem"):
        ctx.skip(f"{where}_{out}")
        return True
    return False


def guarded(fn, seconds=2.0):
    """run fn() under an alarm; returns (outcome, value/exception)"""
    from scenic.core.serialization import SerializationError

    signal.signal(signal.SIGALRM, _on_alarm)
    signal.setitimer(signal.ITIMER_REAL, seconds)
    try:
        v = fn()
        return "ok", v
    except SerializationError as e:
        return "SE", e
    except MemoryError as e:
        return "mem", e
    except _Timeout as e:
        return "timeout", e
    except Exception as e:  # noqa
        e._site = _repo_site(e.__traceback__)
        e._in_decoder = _in_decoder(e.__traceback__)
        return "exc", e
    finally:
        signal.setitimer(signal.ITIMER_REAL, 0)


# ------------------------------------------------------------------------------------------------


def compile_prog(prog, **over):
    from rt import su

    kw = {}
    if prog["modular"]:
        kw["scenario"] = "Main_"
    kw.update(over)
    return su.compile_scenic(prog["text"], **kw)


GEN_ERRORS = {}


def scene_seed(seed, idx, k):
    return (seed * 7919 + idx * 104729 + k * 13 + 1) % (2**31)


def gen_scene(sc, seed, idx, k):
    from rt import su
    from scenic.core.distributions import RejectionException

    su.seed_all(scene_seed(seed, idx, k))
    try:
        scene, _ = sc.generate(maxIterations=300, verbosity=0)
    except RejectionException:
        return None
    except Exception as e:  # a failure of scene generation itself is not this property's business
        GEN_ERRORS[type(e).__name__] = GEN_ERRORS.get(type(e).__name__, 0) + 1
        return None
    return scene


def has_mutation(scene):
    return any(getattr(o, "mutationScale", 0) != 0 for o in scene.objects)


MUT_PROPS = ("position", "yaw", "pitch", "roll", "heading", "orientation", "parentOrientation")


def corruption_plan(rng, data, n_random):
    """(pos, value) pairs: all header bytes with two values each, structured values at random positions"""
    plan = []
    for pos in range(min(10, len(data))):
        plan.append((pos, data[pos] ^ 0x01))
        plan.append((pos, data[pos] ^ 0x80))
    body = range(10, len(data))
    if len(data) > 10:
        for _ in range(n_random):
            pos = rng.choice(body)
            r = rng.random()
            if r < 0.4:
                val = rng.randrange(256)
            elif r < 0.7:
                val = rng.choice((0, 1, 0x7F, 0x80, 0xFC, 0xFD, 0xFE, 0xFF))
            else:
                val = data[pos] ^ (1 << rng.randrange(8))
            if val != data[pos]:
                plan.append((pos, val))
    return plan


def check_program(ctx, idx, prev):
    """All scene/simulation checks for generated program idx. prev = (scenario, data, idx) of the
    previous program of this shard (for cross-decoding) or None. Returns the new prev."""
    from scenic.core.serialization import SerializationError
    from scenic.core.simulators import DivergenceError

    lib = ctx.lib
    tier = ctx.tier
    rng = random.Random(ctx.seed * 9176 + idx)
    prog = lib.gen_program(ctx.seed, idx)
    W = {"idx": idx}
    try:
        sc = compile_prog(prog)
    except Exception as e:  # generator produced something the front end refuses: not this property
        ctx.skip("program_did_not_compile:" + type(e).__name__)
        return prev
    ctx.bump("programs")
    for f in prog["features"]:
        ctx.bump("feat_" + f)
    if len(ctx.res["samples"]) < 2:
        ctx.res["samples"].append({"idx": idx, "program": prog["text"]})
    nscenes = 3 if tier == "quick" else 6
    ncorr = 60 if tier == "quick" else 150
    did = set()
    first_data = None
    for k in range(nscenes):
        scene = gen_scene(sc, ctx.seed, idx, k)
        if scene is None:
            ctx.skip("scene_generation_rejected")
            continue
        ctx.res["evaluations"] += 1
        # ---- encode / decode round trip
        out, data = guarded(lambda: sc.sceneToBytes(scene))
        if inconclusive(ctx, out, "encode"):
            continue
        if out != "ok":
            ctx.viol(None, "encode", f"sceneToBytes raised {type(data).__name__}: {data}", {**W, "k": k})
            continue
        wser = ctx.mon.last()
        wlog = list(wser._vlog)
        ctx.bump("scene_values_encoded", len(wlog))
        stream = lib.RecordingStream(data)
        out, scene2 = guarded(lambda: sc.sceneFromBytes(stream))
        rser = ctx.mon.last()
        ctx.bump("scene_roundtrips")
        if inconclusive(ctx, out, "roundtrip"):
            continue
        if out != "ok":
            ctx.viol(None, "roundtrip", f"sceneFromBytes of an intact encoding raised {type(scene2).__name__}: {scene2}", {**W, "k": k})
            continue
        if rser._vlog != wlog:
            ctx.viol(None, "roundtrip-log", f"read log differs from write log: {lib.first_diff(list(map(list, wlog)), list(map(list, rser._vlog)))}", {**W, "k": k})
        if stream.read():
            ctx.viol(None, "roundtrip-trailing", "decoder left unread bytes of a scene encoding", {**W, "k": k})
        d1, d2 = lib.dump_scene(scene), lib.dump_scene(scene2)
        mutated = has_mutation(scene)
        if d1 != d2:
            diff = lib.first_diff(d1, d2)
            key = None
            if mutated and any(f".{p}" in diff.split(":")[0] for p in MUT_PROPS):
                key = "mutate.noise-not-serialized"
            ctx.viol(key, "roundtrip-dump", f"decoded scene differs from the original at {diff}", {**W, "k": k})
        else:
            ctx.bump("roundtrip_equal")
        out, data2 = guarded(lambda: sc.sceneToBytes(scene2))
        if inconclusive(ctx, out, "reencode"):
            pass
        elif out != "ok" or data2 != data:
            ctx.viol(None, "roundtrip-reencode", "re-encoding the decoded scene gives different bytes", {**W, "k": k})
        if len(wlog) > 0:
            did.add("rt")
        if first_data is None:
            first_data = data
        # ---- truncation: every point
        for n in range(len(data)):
            st = lib.RecordingStream(data[:n])
            out, val = guarded(lambda: sc.sceneFromBytes(st))
            ctx.bump("truncations_scene")
            if out == "SE":
                ctx.bump("truncation_refused")
                continue
            if out == "ok":
                key = "codec.short-read-undetected" if st.short_reads else None
                ctx.viol(key, "truncation", f"scene encoding of {len(data)} bytes truncated to {n} bytes decoded without error (short reads {st.short_reads[:3]})", {**W, "k": k, "n": n})
            elif out == "exc":
                ctx.bump(f"unwrapped_site_{type(val).__name__}@{val._site}")
                ctx.viol("decode.unwrapped-exception", "truncation", f"truncation to {n}/{len(data)} bytes raised {type(val).__name__}: {str(val)[:100]} at {val._site}", {**W, "k": k, "n": n})
            else:
                ctx.skip("truncation_" + out)
        did.add("trunc")
        # ---- corruption
        for pos, val in corruption_plan(rng, data, ncorr):
            bad = bytearray(data)
            bad[pos] = val
            bad = bytes(bad)
            out, v = guarded(lambda: sc.sceneFromBytes(bad))
            ctx.bump("corruptions_scene")
            if out == "SE":
                ctx.bump("corruption_refused")
            elif out == "ok":
                ctx.bump("corruption_decoded")
            elif out == "exc":
                ctx.bump("corruption_other_exception")
                ctx.bump(f"unwrapped_site_{type(v).__name__}@{v._site}")
                ctx.viol("decode.unwrapped-exception", "corruption", f"byte {pos} of {len(data)} set to {val}: sceneFromBytes raised {type(v).__name__}: {str(v)[:100]} at {v._site}", {**W, "k": k, "pos": pos, "val": val})
            elif out == "timeout":
                h = _logical_hang(v)
                if h:
                    ctx.bump("corruption_hang")
                    ctx.viol(f"decode.hang.{h}", "corruption", f"byte {pos} of {len(data)} set to {val}: sceneFromBytes does not terminate ({h} loops on a huge angle)", {**W, "k": k, "pos": pos, "val": val})
                else:
                    ctx.skip("corruption_timeout")
            else:
                ctx.skip("corruption_" + out)
        did.add("corr")
        # ---- cross decoding with the previous program (both directions)
        if prev is not None and k == 0:
            psc, pdata, pidx = prev
            for a_sc, a_data, tag in ((psc, data, f"data of #{idx} with scenario #{pidx}"), (sc, pdata, f"data of #{pidx} with scenario #{idx}")):
                out, v = guarded(lambda: a_sc.sceneFromBytes(a_data))
                ctx.bump("cross_decodes")
                ctx.bump("cross_program")
                if out == "SE":
                    ctx.bump("cross_refused")
                elif out == "ok":
                    ctx.viol(None, "cross-program", f"scene from another program accepted: {tag}", {**W, "k": k, "prev": pidx})
                elif out == "exc":
                    ctx.viol(None, "cross-program", f"{tag}: raised {type(v).__name__} instead of SerializationError", {**W, "k": k, "prev": pidx})
        # ---- simulations
        if prog["dynamic"]:
            check_simulation(ctx, prog, sc, scene, data, idx, k, mutated, rng)
    # ---- option variants of this program
    if first_data is not None:
        variants = []
        if not prog["three_d"]:
            variants.append(("mode2D", {"mode2D": True}))
        variants.append(("param", {"params": {"fixed": 2}}))
        if prog["modular"]:
            variants.append(("scenario", {"scenario": "Other"}))
        name, over = variants[idx % len(variants)] if tier == "quick" else (None, None)
        todo = [(name, over)] if tier == "quick" else variants
        for name, over in todo:
            try:
                sc2 = compile_prog(prog, **over)
            except Exception as e:  # noqa
                ctx.skip(f"variant_{name}_did_not_compile")
                continue
            out, v = guarded(lambda: sc2.sceneFromBytes(first_data))
            ctx.bump("cross_decodes")
            ctx.bump("cross_option_" + name)
            if out == "SE":
                ctx.bump("cross_refused")
            elif inconclusive(ctx, out, "cross"):
                pass
            else:
                ctx.viol(None, "cross-options", f"scene decoded by the same program compiled with {over}: outcome {out} {v if out != 'ok' else ''}", {**W, "variant": name})
            s2 = gen_scene(sc2, ctx.seed, idx, 99)
            if s2 is not None:
                o, dd = guarded(lambda: sc2.sceneToBytes(s2))
                if o == "ok":
                    out, v = guarded(lambda: sc.sceneFromBytes(dd))
                    ctx.bump("cross_decodes")
                    if out == "SE":
                        ctx.bump("cross_refused")
                    elif inconclusive(ctx, out, "cross"):
                        pass
                    else:
                        ctx.viol(None, "cross-options", f"scene of the program compiled with {over} decoded by the plain compile: outcome {out}", {**W, "variant": name, "reverse": True})
    # ---- scenario conditioned after compilation (Scenario.conditionOn): encoder and decoder must still agree
    if first_data is not None:
        check_conditioned(ctx, prog, idx, W, rng)
    if {"rt", "trunc", "corr"} <= did:
        from rt import su

        ctx.res["nontrivial"].append(su.h(prog["text"]))
    return (sc, first_data, idx) if first_data is not None else prev


def check_conditioned(ctx, prog, idx, W, rng):
    """Fix one object of a freshly compiled scenario to its value in a sampled scene (conditionOn), then
    round-trip new scenes (and a simulation) of the conditioned scenario."""
    lib = ctx.lib
    try:
        scc = compile_prog(prog)
    except Exception:
        return
    sceneA = gen_scene(scc, ctx.seed, idx, 70)
    if sceneA is None or not sceneA.objects:
        ctx.skip("conditioned_no_scene")
        return
    which = rng.randrange(len(sceneA.objects))
    try:
        scc.conditionOn(scene=sceneA, objects=(which,))
    except Exception as e:
        ctx.skip("conditionOn_raised:" + type(e).__name__)
        return
    for k in (71, 72):
        scene = gen_scene(scc, ctx.seed, idx, k)
        if scene is None:
            ctx.skip("conditioned_scene_generation_rejected")
            continue
        out, data = guarded(lambda: scc.sceneToBytes(scene))
        if inconclusive(ctx, out, "cond-encode"):
            continue
        if out != "ok":
            ctx.viol(None, "conditioned-encode", f"sceneToBytes of a conditioned scenario (object {which} fixed) raised {type(data).__name__}: {data}", {**W, "k": k, "conditioned": which})
            continue
        out, scene2 = guarded(lambda: scc.sceneFromBytes(data))
        ctx.bump("conditioned_roundtrips")
        if inconclusive(ctx, out, "cond-roundtrip"):
            continue
        if out != "ok":
            ctx.viol(None, "conditioned-roundtrip", f"sceneFromBytes of an intact encoding of a conditioned scenario (object {which} fixed) raised {type(scene2).__name__}: {scene2}", {**W, "k": k, "conditioned": which})
            continue
        d1, d2 = lib.dump_scene(scene), lib.dump_scene(scene2)
        if d1 != d2:
            diff = lib.first_diff(d1, d2)
            key = None
            if has_mutation(scene) and any(f".{p}" in diff.split(":")[0] for p in MUT_PROPS):
                key = "mutate.noise-not-serialized"
            ctx.viol(key, "conditioned-roundtrip-dump", f"conditioned scenario: decoded scene differs at {diff}", {**W, "k": k, "conditioned": which})
        else:
            ctx.bump("conditioned_roundtrip_equal")
        if prog["dynamic"] and k == 71:
            # the full replay battery of check_simulation on the conditioned scenario
            check_simulation(ctx, prog, scc, scene, data, idx, k, has_mutation(scene), rng)
            ctx.bump("conditioned_sim_batteries")


def check_simulation(ctx, prog, sc, scene, scene_data, idx, k, mutated, rng):
    from rt import su
    from scenic.core.serialization import SerializationError
    from scenic.core.simulators import DivergenceError

    lib = ctx.lib
    W = {"idx": idx, "k": k}
    steps = prog["steps"]
    divcheck = (idx + k) % 2 == 0
    su.seed_all(scene_seed(ctx.seed, idx, k) + 17)
    simulator = lib.make_state_simulator()
    out, sim1 = guarded(lambda: simulator.simulate(scene, maxSteps=steps, maxIterations=30, enableDivergenceCheck=divcheck, verbosity=0), 20)
    if out == "SE":
        ctx.viol(None, "simulate", f"recording the original simulation raised SerializationError: {sim1}", W)
        return
    if out != "ok":
        ctx.skip(f"original_simulation_{out}:{type(sim1).__name__}")
        if len(ctx.res["samples"]) < 6:
            ctx.res["samples"].append({"idx": idx, "simulate_error": f"{type(sim1).__name__}: {sim1}"[:300]})
        return
    if sim1 is None:
        ctx.skip("simulation_rejected_30_times")
        return
    notes1 = lib.install_helper().notes_of(sim1)  # (rejected iterations of simulate() also drew values)
    d1 = lib.dump_sim(sim1)
    wlog = list(sim1._replayOut._vlog)
    replay = sim1.getReplay()
    out, full = guarded(lambda: sc.simulationToBytes(sim1))
    if inconclusive(ctx, out, "simulationToBytes"):
        return
    if out != "ok":
        ctx.viol(None, "simulate", f"simulationToBytes raised {type(full).__name__}: {full}", W)
        return
    ctx.bump("term_" + d1["terminationType"])
    ctx.bump("runtime_values_recorded", len(wlog))

    def run_replay(how, data=None, **kw):
        su.seed_all(12345)  # a replay must not depend on the RNG state
        sim_ = lib.make_state_simulator()
        if how == "bytes":
            return sc.simulationFromBytes(data if data is not None else full, sim_, maxSteps=steps, verbosity=0, enableDivergenceCheck=divcheck, **kw)
        return sim_.replay(scene, data if data is not None else replay, maxSteps=steps, verbosity=0, enableDivergenceCheck=divcheck, **kw)

    hows = ["direct"] if mutated else ["bytes", "direct"]
    if mutated:
        ctx.skip("simulationFromBytes_skipped_scene_has_mutation")
    for how in hows:
        out, sim2 = guarded(lambda: run_replay(how), 20)
        ctx.bump("sim_replays")
        ctx.res["evaluations"] += 1
        if inconclusive(ctx, out, "replay"):
            continue
        if out != "ok" or sim2 is None:
            ctx.viol(None, "replay", f"replay ({how}) of an intact recording failed: {out} {sim2}", {**W, "how": how})
            continue
        d2 = lib.dump_sim(sim2)
        if d1 != d2:
            ctx.viol(None, "replay-dump", f"replay ({how}) differs from the original at {lib.first_diff(d1, d2)}", {**W, "how": how})
        else:
            ctx.bump("replay_equal")
        if lib.install_helper().notes_of(sim2) != notes1:
            ctx.viol(None, "replay-monitor-values", f"values drawn by the monitor differ in the replay ({how})", {**W, "how": how})
        rlog = list(sim2._replayIn._vlog)
        # values of type None occupy zero bytes: a trailing run of them lies "past the end" of the
        # recording and is legitimately re-sampled instead of read
        rest = wlog[len(rlog):]
        if rlog != wlog[: len(rlog)] or any(e[1] != "NoneType" for e in rest):
            ctx.viol(None, "replay-log", f"replay ({how}) read log differs from the recording's write log: {lib.first_diff(list(map(list, wlog)), list(map(list, rlog)))}", {**W, "how": how})
        if sim2.getReplay() != replay:
            ctx.viol(None, "replay-rerecord", f"the replay ({how}) records different replay data than the original", {**W, "how": how})
    # continue past the end of the recording: the common prefix must be identical
    if d1["terminationType"] == "timeLimit":
        out, sim3 = guarded(lambda: lib.make_state_simulator().replay(scene, replay, maxSteps=steps + 2, maxIterations=1, verbosity=0), 20)
        ctx.bump("replay_continued_past_end")
        if out == "ok" and sim3 is not None:
            d3 = lib.dump_sim(sim3)
            if d3["actions"][: len(d1["actions"])] != d1["actions"] or d3["trajectory"][: len(d1["trajectory"])] != d1["trajectory"]:
                ctx.viol(None, "replay-prefix", "replay continued past the end of the recording differs on the recorded prefix", W)
        elif inconclusive(ctx, out, "replay_prefix"):
            pass
        elif out != "ok":
            ctx.viol(None, "replay-prefix", f"replay continued past the end raised {type(sim3).__name__}: {sim3}", W)
    if len(wlog) == 0:
        return
    tier = ctx.tier
    # ---- truncation of the replay data: every point
    hdr = 6
    pts = range(len(replay))
    cap = 160 if tier == "quick" else 600
    if len(replay) > cap:
        head = cap // 3
        pts = sorted(set(list(range(0, head)) + rng.sample(range(head, len(replay)), cap - head)))
    bounds = _value_boundaries(sim1)
    for n in pts:
        cut = replay[:n]
        st = lib.RecordingStream(cut)
        out, v = guarded(lambda: lib.make_state_simulator().replay(scene, st, maxSteps=steps, maxIterations=1, verbosity=0), 20)
        ctx.bump("truncations_replay")
        if out == "SE":
            ctx.bump("truncation_replay_refused")
        elif out == "ok":
            if n >= hdr and n in bounds:
                ctx.bump("truncation_replay_at_boundary_continued")
            else:
                import io as _io

                rd = [x for x in ctx.mon.created[-3:] if isinstance(x.stream, _io.BufferedReader)]
                last = rd[-1]._vlog[-1][1] if rd and rd[-1]._vlog else None
                key = "codec.short-read-undetected" if last in ("int", "bool", "str", "bytes") else None
                ctx.viol(key, "truncation-replay", f"replay of {len(replay)} bytes truncated inside a value at {n} was accepted (last value read: {last})", {**W, "n": n})
        elif out == "exc":
            if isinstance(v, DivergenceError):
                ctx.bump("truncation_replay_divergence")
            elif not v._in_decoder:
                ctx.skip("truncation_replay_downstream_exception")
            else:
                ctx.bump(f"unwrapped_site_replay_{type(v).__name__}@{v._site}")
                ctx.viol("replay.unwrapped-exception", "truncation-replay", f"replay truncated to {n}/{len(replay)} raised {type(v).__name__}: {str(v)[:100]} at {v._site}", {**W, "n": n})
        else:
            ctx.skip("truncation_replay_" + out)
    # ---- corruption of the replay data
    ncorr = 40 if tier == "quick" else 100
    plan = [(p, replay[p] ^ 1) for p in range(min(6, len(replay)))]
    if len(replay) > 6:
        for _ in range(ncorr):
            p = rng.randrange(6, len(replay))
            r = rng.random()
            val = rng.randrange(256) if r < 0.5 else rng.choice((0, 1, 0x7F, 0x80, 0xFC, 0xFD, 0xFE, 0xFF))
            if val != replay[p]:
                plan.append((p, val))
    for p, val in plan:
        bad = bytearray(replay)
        bad[p] = val
        bad = bytes(bad)
        out, v = guarded(lambda: lib.make_state_simulator().replay(scene, bad, maxSteps=steps, maxIterations=1, verbosity=0), 20)
        ctx.bump("corruptions_replay")
        if out == "SE":
            ctx.bump("corruption_replay_refused")
        elif out == "ok":
            ctx.bump("corruption_replay_ran" if v is not None else "corruption_replay_rejected")
        elif out == "exc":
            if isinstance(v, DivergenceError):
                ctx.bump("corruption_replay_divergence")
            elif not v._in_decoder:
                # garbage values reached user-level code (behaviours) which then failed: not a decoding failure
                ctx.skip("corruption_replay_downstream_exception")
            else:
                ctx.bump("corruption_replay_other_exception")
                ctx.bump(f"unwrapped_site_replay_{type(v).__name__}@{v._site}")
                ctx.viol("replay.unwrapped-exception", "corruption-replay", f"replay byte {p} of {len(replay)} set to {val}: raised {type(v).__name__}: {str(v)[:100]} at {v._site}", {**W, "pos": p, "val": val})
        elif out == "timeout":
            h = _logical_hang(v)
            if h:
                ctx.viol(f"replay.hang.{h}", "corruption-replay", f"replay byte {p} set to {val}: replay does not terminate ({h})", {**W, "pos": p, "val": val})
            else:
                ctx.skip("corruption_replay_timeout")
        else:
            ctx.skip("corruption_replay_" + out)


def _value_boundaries(sim):
    """Byte offsets in the replay data at which a value ends (stream position after each writeValue of
    the recording serializer, logged by the monitor) plus the end of the header."""
    return set(getattr(sim._replayOut, "_wpos", ()))


# ------------------------------------------------------------------------------------------------
# compile-option matrix on a small program

OPT_PROGRAM = """
scenario Main():
    setup:
        ego = new Object at Range(0, 1) @ 0, with foo DiscreteRange(0, 400)
        param fixed = 1
        param other = Range(0, 1)
scenario Alt():
    setup:
        ego = new Object at Range(0, 1) @ 0, with foo DiscreteRange(0, 400)
        param fixed = 1
        param other = Range(0, 1)
"""

OPTION_SETS = [
    ("plain", {}),
    ("mode2D", {"mode2D": True}),
    ("fixed=1", {"params": {"fixed": 1}}),
    ("fixed=2", {"params": {"fixed": 2}}),
    ("fixed='2'", {"params": {"fixed": "2"}}),
    ("fixed=2.5", {"params": {"fixed": 2.5}}),
    ("fixed=True", {"params": {"fixed": True}}),
    ("fixed='True'", {"params": {"fixed": "True"}}),
    ("fixed=(1,2)", {"params": {"fixed": (1, 2)}}),
    ("fixed=(1,3)", {"params": {"fixed": (1, 3)}}),
    ("fixed=None", {"params": {"fixed": None}}),
    ("other=0.5", {"params": {"other": 0.5}}),
    ("fixed=2,other=0.5", {"params": {"fixed": 2, "other": 0.5}}),
    ("scenario=Alt", {"scenario": "Alt"}),
    ("mode2D,fixed=2", {"mode2D": True, "params": {"fixed": 2}}),
]


def option_matrix(ctx):
    from rt import su

    compiled = []
    for name, over in OPTION_SETS:
        try:
            sc = su.compile_scenic(OPT_PROGRAM, **over)
        except Exception as e:  # noqa
            ctx.skip("option_set_did_not_compile")
            continue
        su.seed_all(ctx.seed + 5)
        scene, _ = sc.generate(maxIterations=50)
        out, data = guarded(lambda: sc.sceneToBytes(scene))
        if out != "ok":
            ctx.viol(None, "options-matrix", f"sceneToBytes raised {type(data).__name__}: {data} (options {name})", {"a": name, "b": name})
            continue
        compiled.append((name, over, sc, data, ctx.lib.dump_scene(scene)))
    for na, oa, sa, da, dumpa in compiled:
        for nb, ob, sb, db, dumpb in compiled:
            if na == nb:
                out, v = guarded(lambda: sb.sceneFromBytes(da))
                if out != "ok" or ctx.lib.dump_scene(v) != dumpa:
                    ctx.viol(None, "options-matrix", f"same options {na}: round trip failed ({out})", {"a": na, "b": nb})
                continue
            out, v = guarded(lambda: sb.sceneFromBytes(da))
            ctx.bump("cross_decodes")
            ctx.bump("cross_option_matrix")
            ctx.res["evaluations"] += 1
            if out == "SE":
                ctx.bump("cross_refused")
                continue
            if inconclusive(ctx, out, "cross"):
                continue
            key = None
            pa, pb = oa.get("params", {}), ob.get("params", {})
            rest_equal = {k: v_ for k, v_ in oa.items() if k != "params"} == {k: v_ for k, v_ in ob.items() if k != "params"}
            if rest_equal and set(pa) == set(pb):
                diffv = [(pa[k_], pb[k_]) for k_ in pa if pa[k_] != pb[k_] or type(pa[k_]) is not type(pb[k_])]
                if diffv and all(not isinstance(x, (int, float, str)) and not isinstance(y, (int, float, str)) for x, y in diffv):
                    key = "options-hash.non-scalar-param-placeholder"
                elif diffv and all(str(x) == str(y) for x, y in diffv):
                    key = "options-hash.str-of-value-collision"
            same = out == "ok" and ctx.lib.dump_scene(v) == dumpa
            ctx.viol(key, "options-matrix", f"scene encoded under compile options [{na}] accepted by the scenario compiled with [{nb}] (outcome {out}; decoded scene {'equals' if same else 'differs from'} the original)", {"a": na, "b": nb})


# ------------------------------------------------------------------------------------------------
# divergence checking

DIV_PROGRAM = """
class Gadget:
    charge[dynamic]: 3
    label[dynamic]: "idle"
    flag[dynamic]: False
    temp[dynamic]: 20.5
behavior B():
    while True:
        take Range(0, 1)
ego = new Object at (0, 0, 0), with behavior B
g = new Gadget at (10, 0, 0), with allowCollisions True
"""


def divergence_cases(seed, tier):
    rng = random.Random(seed * 31 + 7)
    cases = []
    props = [(0, p) for p in ("position", "velocity", "speed", "angularVelocity", "angularSpeed", "yaw", "pitch", "roll")]
    props += [(1, p) for p in ("position", "speed", "yaw", "velocity", "charge", "label", "flag", "temp")]
    for obj, prop in props:
        for tol in (0, 1e-3, 0.5):
            for mult in (0.5, -0.5, 2.0, -2.0, 0.0):
                for frm in ((0, 2) if tier == "quick" else (0, 1, 2, 3)):
                    if prop == "charge":
                        tol_ = {0: 0, 1e-3: 1.5, 0.5: 2.5}[tol]
                        delta = {0.5: 1, -0.5: -1, 2.0: 5, -2.0: -5, 0.0: 0}[mult]
                        if tol_ == 0 and abs(mult) == 0.5:
                            delta = int(mult * 2)
                    else:
                        tol_ = tol
                        delta = mult * tol if tol else {0.5: 1e-9, -0.5: -1e-9, 2.0: 1.0, -2.0: -1.0, 0.0: 0.0}[mult]
                    d = [rng.gauss(0, 1) for _ in range(3)]
                    nrm = sum(x * x for x in d) ** 0.5
                    d = [x / nrm for x in d]
                    cases.append({"obj": obj, "prop": prop, "tol": tol_, "delta": delta, "from": frm, "dir": d,
                                  "cont": rng.random() < 0.15})
    return cases


def run_divergence(ctx, cases):
    from rt import su
    from scenic.core.simulators import DivergenceError

    lib = ctx.lib
    steps = 4
    try:
        sc = su.compile_scenic(DIV_PROGRAM)
        su.seed_all(ctx.seed)
        scene, _ = sc.generate()
        su.seed_all(ctx.seed + 1)
        sim1 = lib.make_state_simulator().simulate(scene, maxSteps=steps, enableDivergenceCheck=True)
        replay = sim1.getReplay()
        d1 = lib.dump_sim(sim1)
    except Exception as e:  # noqa
        ctx.viol(None, "divergence-setup", f"recording a simulation with enableDivergenceCheck raised {type(e).__name__}: {e}", {"case": cases[0] if cases else None})
        return
    scalar_props = {"speed", "angularSpeed", "yaw", "pitch", "roll", "temp", "charge"}
    for c in cases:
        off = {"obj": c["obj"], "prop": c["prop"], "delta": c["delta"], "dir": c["dir"], "from": c["from"]}
        nonnum = c["prop"] in ("label", "flag")
        changed = c["delta"] != 0
        if nonnum:
            expect = changed  # compared with != whatever the tolerance
        else:
            expect = abs(c["delta"]) > c["tol"]
        su.seed_all(99)
        simulator = lib.make_state_simulator(offset=off if changed else None)
        out, v = guarded(lambda: simulator.replay(scene, replay, maxSteps=steps, divergenceTolerance=c["tol"], continueAfterDivergence=c["cont"], verbosity=0), 20)
        ctx.bump("divergence_cases")
        ctx.bump("divergence_prop_" + c["prop"])
        ctx.res["evaluations"] += 1
        reported = out == "exc" and isinstance(v, DivergenceError)
        desc = f"{c['prop']} of object {c['obj']} offset by {c['delta']} from step {c['from']} (tolerance {c['tol']}, continueAfterDivergence={c['cont']})"
        if inconclusive(ctx, out, "divergence"):
            continue
        if out not in ("ok", "exc") or (out == "exc" and not reported):
            ctx.viol(None, "divergence", f"{desc}: unexpected outcome {out} {v}", {"case": c})
            continue
        if c["cont"]:
            ctx.bump("divergence_continue_cases")
            if reported:
                ctx.viol(None, "divergence", f"{desc}: DivergenceError raised although continueAfterDivergence", {"case": c})
                continue
            # observable: the replay was abandoned (fresh random actions) iff it diverged
            d2 = lib.dump_sim(v)
            same_actions = d2["actions"] == d1["actions"]
            reported = not same_actions
        if expect:
            ctx.bump("divergence_expected_reported")
            if not reported:
                key = None
                if c["prop"] in scalar_props and c["delta"] < 0:
                    key = "divergence.signed-scalar-difference"
                if c["prop"] == "flag" and (c["from"] + c["obj"]) % 2 == 0:
                    # bool is a Real: recorded True, actual False gives the signed difference -1 at the first
                    # offset step; the next step (+1) is only observable when an exception is raised
                    key = "divergence.signed-scalar-difference"
                ctx.viol(key, "divergence", f"{desc}: divergence beyond the tolerance NOT reported", {"case": c})
            else:
                ctx.bump("divergence_reported")
                ctx.res["nontrivial"].append(su.h(["div", c["obj"], c["prop"], c["tol"], c["delta"], c["from"]]))
        else:
            ctx.bump("divergence_expected_silent")
            if reported:
                ctx.viol(None, "divergence", f"{desc}: divergence reported although within the tolerance", {"case": c})
            else:
                ctx.bump("divergence_silent")
                if not c["cont"] and out == "ok" and lib.dump_sim(v)["actions"] != d1["actions"]:
                    ctx.viol(None, "divergence", f"{desc}: replay within tolerance produced different actions", {"case": c})


# ------------------------------------------------------------------------------------------------


def plan(tier, seed):
    nshards = 12 if tier == "quick" else 32
    nprog = 48 if tier == "quick" else 192
    import os

    if os.environ.get("VERIF_C18_NPROG"):  # development aid (MIN_COUNTERS then make the run INCONCLUSIVE)
        nprog = int(os.environ["VERIF_C18_NPROG"])
    cases = divergence_cases(seed, tier)
    shards = []
    for s in range(nshards):
        shards.append({
            "shard": s,
            "programs": [i for i in range(nprog) if i % nshards == s],
            "div": [i for i in range(len(cases)) if i % nshards == s],
            "matrix": s % 8 == 0,
            "timeout": 1500 if tier == "quick" else 3000,
        })
    return shards


def run_shard(spec):
    ctx = Ctx(spec)
    prev = None
    for idx in spec.get("programs", []):
        prev = check_program(ctx, idx, prev)
    if spec.get("matrix"):
        option_matrix(ctx)
    if spec.get("div"):
        cases = divergence_cases(spec["seed"], spec["tier"])
        run_divergence(ctx, [cases[i] for i in spec["div"]])
    return ctx.finish()


def replay(w):
    spec = {"tier": w.get("tier", "quick"), "seed": w.get("seed", 0), "shard": 0}
    ctx = Ctx(spec)
    kind = w.get("kind", "")
    if kind == "divergence":
        run_divergence(ctx, [w["case"]])
    elif kind == "options-matrix":
        option_matrix(ctx)
    else:
        prev = None
        if "prev" in w:
            prev = check_program(ctx, w["prev"], None)
        check_program(ctx, w["idx"], prev)
    res = ctx.finish()
    return [v for v in res["violations"] if v["witness"].get("kind") == kind] or res["violations"]


MANIFEST_ENTRY = {
    "technique": "runtime monitoring: differential observation of encode->decode / record->replay executions of the real code under fault injection (truncation, byte corruption, foreign data, offset simulator), with Serializer write/read value logs as history",
    "text": "Generated programs covering every codec type, integer width boundary, nested/conditional distributions, mutation and run-time random draws are compiled and sampled by the real code; every scene is encoded, decoded and compared by canonical dump and by the logged (type, value) sequence; every truncation point and hundreds of byte corruptions are decoded expecting SerializationError (or a decodable scene for corruptions); data is cross-decoded between programs and compile options; simulations are replayed from bytes in a deterministic simulator and compared on trajectory/actions/records/termination; divergence checking is driven with per-property offsets of both signs on both sides of the tolerance.",
    "note": "Trusts rt/c18lib.canon as the notion of 'equal scene', a deterministic Simulation subclass as the simulator, and that a replay cut exactly at a value boundary may legitimately continue. Non-terminating decodes are only reported when the stack proves an astronomically long loop; other time-outs are counted as inconclusive cases.",
}
