"""C17 — visibility respects the view volume and occlusion.

Invariant-at-the-API-boundary monitoring: generated Scenic programs (real front end) create viewers
(Point / OrientedPoint / Object with cameraOffset) far from the origin with arbitrary parent orientation and
yaw/pitch/roll, point-like targets (vectors, Points, OrientedPoints), solid targets of every built-in shape
and box occluders; `canSee` is then called on the real objects for chains of growing occluder sets and compared
with an analytic view-volume / line-of-sight oracle written from the documentation (rt/visoracle.py), three-valued.
"""

import math

import numpy as np

PROPERTY = "C17"
LEVEL = "exploration"
RULE = (
    "random viewers (Point/OrientedPoint/Object; |position| 10..87 from the origin, 5% at the origin; parent "
    "orientation + yaw/pitch/roll; camera offsets; view angles 10deg..360x180deg; visibleDistance 5..60; ray "
    "density / explicit ray count / distance scaling) each with 6-10 point-like targets placed in the viewer's "
    "local frame (deep inside, outside by azimuth / altitude / distance, near the boundary, random), 0-2 solid "
    "targets (box/spheroid/cylinder/cone; ahead, behind, straddling the window edge (also behind the viewer for > 180 deg windows) or the back plane, enclosing "
    "the camera, beyond range) and 0-4 box occluders built relative to a target (fully covering, partially "
    "covering, beyond the target, non-occluding, random). Every target is queried with a chain of growing "
    "occluder subsets. A query is non-trivial when the oracle answer is definite and the viewer is away from the "
    "origin with a non-identity rotation (or is an orientation-free Point viewer away from the origin); distinct = "
    "distinct (viewer, target, occluder-subset) parameter tuples."
)
ASSUMPTIONS = [
    "documented conventions: orientation = parent*Rz(yaw)*Rx(pitch)*Ry(roll), forward +Y, azimuth CCW from +Y, altitude from the XY plane, width/length/height along x/y/z",
    "view volume = {rho<=d, |az|<=h/2, |alt|<=v/2} about position + R*cameraOffset; margins 0.02 rad / 1e-3 d (visibleRegion mesh: 0.04 rad / 3%)",
    "solid targets are modelled by shrunken convex analytic shapes verified against the real meshes at run time; visible is only expected when a spherical cap of >= 6 ray spacings is provably covered, in-window, in range and clear of occluders",
    "fully occluded is only expected when one wall provably intersects every camera->target segment; outside only via the bounding sphere",
]
MIN_COUNTERS = {
    "quick": {
        "point_queries": 6000,
        "point_in_clear": 2500,
        "point_out": 2500,
        "point_in_blocked": 250,
        "object_queries": 700,
        "object_sphere_outside": 200,
        "object_fully_occluded": 80,
        "object_visible_disc": 100,
        "region_checks": 1800,
        "monotonic_pairs": 4000,
        "operator_checks": 80,
        "viewers_oriented_offorigin": 200,
        "viewers_with_camera_offset": 60,
        "viewers_with_parent_orientation": 40,
    },
    "thorough": {
        "point_queries": 150000,
        "point_in_clear": 60000,
        "point_out": 60000,
        "point_in_blocked": 6000,
        "object_queries": 16000,
        "object_sphere_outside": 4500,
        "object_fully_occluded": 1800,
        "object_visible_disc": 2200,
        "region_checks": 40000,
        "monotonic_pairs": 90000,
        "operator_checks": 1800,
        "viewers_oriented_offorigin": 4500,
        "viewers_with_camera_offset": 1500,
        "viewers_with_parent_orientation": 1000,
    },
}

KEY_ROTATE = "cansee.point-target-rotated-about-origin"
KEY_DSCALE = "cansee.distance-scaling-vector-target-crash"
KEY_INSIDE = "cansee.viewer-inside-target-not-visible"
KEY_PTREGION = "visibleregion.point-sphere-diameter-used-as-radius"

SHAPES = {"box": "BoxShape()", "spheroid": "SpheroidShape()", "cylinder": "CylinderShape()", "cone": "ConeShape()"}
MAX_RAYS = 15000.0
RAY_BUDGET = {"box": 15000.0, "cylinder": 5000.0, "cone": 6000.0, "spheroid": 700.0}


# ---------------------------------------------------------------------------------------------------------
# generation (pure python/numpy, JSON-able output)


def _r(x):
    return [float(v) for v in x]


def _rand_ypr(rng):
    u = rng.random()
    if u < 0.12:
        return [0.0, 0.0, 0.0]
    if u < 0.22:
        return [float(rng.uniform(-math.pi, math.pi)), 0.0, 0.0]
    yaw = rng.uniform(-math.pi, math.pi)
    roll = rng.uniform(-math.pi, math.pi)
    pitch = rng.uniform(-math.pi, math.pi) if rng.random() < 0.2 else rng.uniform(-math.pi / 2, math.pi / 2)
    return [float(yaw), float(pitch), float(roll)]


def _wall_for(rng, O, viewer, tgt_c, tgt_radius, role, point_like):
    """A wall (thin box) built in the viewer's frame relative to a target centred at tgt_c."""
    cam = viewer.cam
    g = np.asarray(tgt_c, float) - cam
    dist = float(np.linalg.norm(g))
    if dist < 1e-3:
        return None
    g = g / dist
    near = dist - tgt_radius
    thick = float(rng.uniform(0.15, 0.6))
    if role == "beyond":
        dw = dist + tgt_radius + thick + float(rng.uniform(0.3, 4.0))
    else:
        if near < 1.2:
            return None
        dw = float(rng.uniform(0.35, 0.8)) * near
        thick = min(thick, 0.4 * min(dw, near - dw))
        if thick < 0.02:
            return None
    if point_like:
        half = float(rng.uniform(0.4, 3.0))
    else:
        alpha = math.asin(min(0.95, tgt_radius / max(dist, 1e-9)))
        half = dw * math.tan(alpha) * float(rng.uniform(1.25, 2.0)) + 0.3
        half = min(half, 60.0)
    centre = cam + g * dw
    # perpendicular frame
    e1 = np.cross(g, [0.0, 0.0, 1.0])
    if np.linalg.norm(e1) < 0.2:
        e1 = np.cross(g, [1.0, 0.0, 0.0])
    e1 /= np.linalg.norm(e1)
    e2 = np.cross(g, e1)
    if role == "partial":
        a = rng.uniform(0, 2 * math.pi)
        shift = (math.cos(a) * e1 + math.sin(a) * e2) * half * float(rng.uniform(0.7, 1.6))
        centre = centre + shift
    elif role == "miss":
        a = rng.uniform(0, 2 * math.pi)
        extra = dw * math.tan(math.asin(min(0.95, tgt_radius / max(dist, 1e-9)))) if not point_like else 0.0
        shift = (math.cos(a) * e1 + math.sin(a) * e2) * (half * 1.5 + extra + float(rng.uniform(0.3, 3.0)))
        centre = centre + shift
    if role == "tall_cover":
        # a covering wall that is very long along one of its own axes, with its centre displaced along that
        # axis by more than the viewing distance: the body still crosses every line of sight to the target
        # although the centre is far away from the camera (and, for the z axis, far above/below it)
        yaw = math.atan2(-g[0], g[1])
        pitch = math.asin(max(-1, min(1, g[2])))
        roll = float(rng.uniform(-math.pi, math.pi))
        R = O.rot(yaw, pitch, roll)
        axis = int(rng.choice([0, 2]))
        s = float(viewer.d) * float(rng.uniform(1.1, 2.5)) * (1 if rng.random() < 0.5 else -1)
        centre = centre + R[:, axis] * s
        dims = [2 * half, thick, 2 * half]
        dims[axis] = 2 * (abs(s) + half)
        return {"pos": _r(centre), "ypr": [float(yaw), float(pitch), roll], "dims": dims, "occluding": True, "role": role}
    tilt = 0.25 if role in ("cover", "nonocc") else 0.5
    yaw = math.atan2(-g[0], g[1]) + float(rng.uniform(-tilt, tilt)) * (rng.random() < 0.6)
    pitch = math.asin(max(-1, min(1, g[2]))) + float(rng.uniform(-tilt, tilt)) * (rng.random() < 0.6)
    roll = float(rng.uniform(-math.pi, math.pi))
    return {
        "pos": _r(centre),
        "ypr": [float(yaw), float(pitch), roll],
        "dims": [2 * half, thick, 2 * half * float(rng.uniform(0.7, 1.0))],
        "occluding": role != "nonocc",
        "role": role,
    }


def gen_viewer(rng, O):
    kind = rng.choice(["Point", "OrientedPoint", "Object"], p=[0.15, 0.35, 0.5])
    kind = str(kind)
    if rng.random() < 0.05:
        pos = np.zeros(3)
    else:
        while True:
            pos = rng.uniform(-50, 50, 3)
            if np.linalg.norm(pos) >= 10:
                break
    v = {"kind": kind, "pos": _r(pos)}
    if kind == "Point":
        v["parent"], v["ypr"], v["cam"] = None, [0.0, 0.0, 0.0], [0.0, 0.0, 0.0]
        h, vv = 2 * math.pi, math.pi
    else:
        v["parent"] = _rand_ypr(rng) if rng.random() < 0.25 else None
        v["ypr"] = _rand_ypr(rng)
        v["cam"] = _r(rng.uniform(-3, 3, 3)) if (kind == "Object" and rng.random() < 0.6) else [0.0, 0.0, 0.0]
        u = rng.random()
        if u < 0.3:
            h = math.radians(rng.uniform(10, 60))
        elif u < 0.6:
            h = math.radians(rng.uniform(60, 180))
        elif u < 0.85:
            h = math.radians(rng.uniform(180, 350))
        else:
            h = 2 * math.pi
        u = rng.random()
        if u < 0.35:
            vv = math.radians(rng.uniform(10, 60))
        elif u < 0.8:
            vv = math.radians(rng.uniform(60, 170))
        else:
            vv = math.pi
    v["d"] = float(rng.uniform(5, 60))
    v["h"], v["v"] = float(h), float(vv)
    if kind == "Object":
        v["dims"] = _r(rng.uniform(0.3, 2.0, 3))
        v["occluding"] = bool(rng.random() < 0.5)
    ov = oracle_viewer(O, v)

    def local_dir(cat):
        hh, vh = h / 2, vv / 2
        if cat == "in":
            return rng.uniform(-hh, hh) * 0.9, rng.uniform(-vh, vh) * 0.9
        if cat == "out-az":
            lo = hh + 0.03
            az = rng.uniform(lo, 2 * math.pi - lo)
            return (az if az <= math.pi else az - 2 * math.pi), rng.uniform(-vh, vh) * 0.9
        if cat == "out-alt":
            lo = vh + 0.03
            alt = rng.uniform(lo, math.pi / 2) * (1 if rng.random() < 0.5 else -1)
            return rng.uniform(-math.pi, math.pi), alt
        if cat == "edge":
            s = 1 if rng.random() < 0.5 else -1
            dl = rng.uniform(0.025, 0.12) * (1 if rng.random() < 0.5 else -1)
            if rng.random() < 0.5 and h < 2 * math.pi - 0.2:
                return s * (hh + dl), rng.uniform(-vh, vh) * 0.8
            if vv < math.pi - 0.2:
                return rng.uniform(-hh, hh) * 0.8, s * (vh + dl)
            return rng.uniform(-hh, hh) * 0.9, rng.uniform(-vh, vh) * 0.9
        if cat == "back":
            s = 1 if rng.random() < 0.5 else -1
            return s * (math.pi - rng.uniform(0, 0.3)), rng.uniform(-vh, vh) * 0.7
        # random direction on the sphere
        z = rng.uniform(-1, 1)
        return rng.uniform(-math.pi, math.pi), math.asin(z)

    # ---- solid targets
    objs = []
    for _ in range(int(rng.choice([0, 1, 2], p=[0.35, 0.45, 0.2]))):
        shape = str(rng.choice(["box", "cylinder", "cone", "spheroid"], p=[0.4, 0.25, 0.23, 0.12]))
        dims = rng.uniform(0.5, 8.0, 3)
        cat = str(
            rng.choice(
                ["in", "out-az", "out-alt", "edge", "back", "random", "enclose", "far", "range-edge", "back-edge"],
                p=[0.22, 0.1, 0.08, 0.12, 0.1, 0.08, 0.08, 0.07, 0.07, 0.08],
            )
        )
        if cat == "out-az" and h > 2 * math.pi - 0.3:
            cat = "in"
        if cat == "out-alt" and vv > math.pi - 0.3:
            cat = "in"
        radius = float(np.linalg.norm(dims) / 2)
        if cat == "back-edge" and not (math.pi + 0.2 < h < 2 * math.pi - 0.3):
            cat = "back"
        if cat == "enclose":
            dims = rng.uniform(3.0, 30.0, 3) * (4 if rng.random() < 0.35 else 1)
            c = ov.cam + rng.uniform(-0.3, 0.3, 3) * dims
        elif cat == "back-edge":
            # big target behind the viewer whose centre is just outside the (> 180 deg) window while a good part
            # of it is inside: no centre shortcut, the behind-the-viewer ray windows decide
            dims = rng.uniform(2.0, 7.0) * np.array([1.0, rng.uniform(0.75, 1.0), rng.uniform(0.75, 1.0)])
            radius = float(np.linalg.norm(dims) / 2)
            sgn = 1 if rng.random() < 0.5 else -1
            az = sgn * (h / 2 + rng.uniform(0.03, 0.15))
            if abs(az) > math.pi:
                az = sgn * math.pi
            alt = rng.uniform(-vv / 2, vv / 2) * 0.4
            ang = math.radians(rng.uniform(20, 35))
            rho = min(radius / math.sin(ang), 0.8 * v["d"])
            c = ov.to_global(O.dir_from(az, alt) * rho)
        else:
            az, alt = local_dir(cat if cat not in ("far", "range-edge") else "in")
            if cat == "far":
                rho = v["d"] + radius + rng.uniform(0.2, 10)
            elif cat == "range-edge":
                rho = v["d"] + rng.uniform(-1, 1) * radius
            else:
                rho = rng.uniform(0.15, 0.9) * v["d"]
            c = ov.to_global(O.dir_from(az, alt) * rho)
        objs.append(
            {"shape": shape, "pos": _r(c), "ypr": _rand_ypr(rng), "dims": _r(dims), "occluding": shape == "box" and bool(rng.random() < 0.5), "cat": cat}
        )
    v["objs"] = objs

    # ---- ray parameters bounded by a worst-case ray budget
    hd, vd = math.degrees(h), math.degrees(vv)
    area = 25.0
    for o in objs:
        q = ov.local(o["pos"])
        rho = float(np.linalg.norm(q))
        R = float(np.linalg.norm(o["dims"]) / 2)
        if rho < 1.5 * R + 0.5:
            area = max(area, hd * vd)
        else:
            a = math.degrees(math.asin(R / rho))
            _, _, alt = O.az_alt(q)
            if abs(math.degrees(alt)) + a >= 88.0:
                # the target can straddle the local Z axis: the real code then casts the whole window
                area = max(area, hd * vd)
            else:
                ca = max(0.05, math.cos(abs(alt) + math.radians(a)))
                area = max(area, min(hd, (2 * a + 2) / ca) * min(vd, 2 * a + 2))
    # the pure-python ray/triangle engine costs ~ rays x faces: fewer rays for many-faced targets
    budget = min([MAX_RAYS] + [RAY_BUDGET[o["shape"]] for o in objs])
    smin = math.sqrt(area / budget)
    pref = float(rng.choice([0.2, 0.5, 1.0, 2.0], p=[0.3, 0.3, 0.25, 0.15]))
    s = max(pref, smin)
    mode = str(rng.choice(["density", "count", "dscale"], p=[0.5, 0.3, 0.2]))
    if mode == "density":
        v["ray"] = {"mode": "density", "density": None if s == 0.2 else 1.0 / s}
    elif mode == "count":
        v["ray"] = {"mode": "count", "count": [int(math.ceil(hd / s)), int(math.ceil(vd / s))]}
    else:
        dists = [float(np.linalg.norm(ov.local(o["pos"]))) for o in objs] or [10.0]
        v["ray"] = {"mode": "dscale", "density": 1.0 / (s * max(max(dists), 1.0))}

    # ---- point-like targets
    pts = []
    for _ in range(int(rng.integers(6, 11))):
        cat = str(rng.choice(["in", "out-az", "out-alt", "out-dist", "edge", "random"], p=[0.36, 0.18, 0.12, 0.1, 0.12, 0.12]))
        if cat == "out-az" and h > 2 * math.pi - 0.1:
            cat = "in"
        if cat == "out-alt" and vv > math.pi - 0.1:
            cat = "in"
        if cat == "out-dist":
            az, alt = local_dir("in")
            rho = v["d"] * rng.uniform(1.003, 1.5)
        elif cat == "random":
            az, alt = local_dir("random")
            rho = v["d"] * rng.uniform(0.02, 1.3)
        else:
            az, alt = local_dir(cat)
            rho = v["d"] * rng.uniform(0.05, 0.97)
        p = ov.to_global(O.dir_from(az, alt) * rho)
        form = str(rng.choice(["vector", "point", "opoint"], p=[0.4, 0.4, 0.2]))
        pts.append({"form": form, "p": _r(p), "cat": cat})
    v["pts"] = pts

    # ---- occluders
    occ = []
    roles_obj = ["cover", "partial", "beyond", "nonocc", "miss", "tall_cover"]
    for o in objs:
        if o["cat"] in ("enclose",) or rng.random() < 0.25:
            continue
        for _ in range(int(rng.choice([1, 2], p=[0.7, 0.3]))):
            role = str(rng.choice(roles_obj, p=[0.32, 0.22, 0.1, 0.11, 0.1, 0.15]))
            w = _wall_for(rng, O, ov, o["pos"], float(np.linalg.norm(o["dims"]) / 2), role, False)
            if w is not None and len(occ) < 4:
                occ.append(w)
    inpts = [p for p in pts if p["cat"] in ("in", "random", "edge")]
    n_pt_walls = int(rng.choice([0, 1, 2, 3], p=[0.25, 0.35, 0.25, 0.15]))
    for _ in range(n_pt_walls):
        if not inpts or len(occ) >= 4:
            break
        p = inpts[int(rng.integers(len(inpts)))]
        role = str(rng.choice(["cover", "miss", "beyond", "nonocc", "tall_cover"], p=[0.38, 0.2, 0.13, 0.14, 0.15]))
        w = _wall_for(rng, O, ov, p["p"], 0.0, role, True)
        if w is not None:
            occ.append(w)
    if len(occ) < 4 and rng.random() < 0.3:
        c = ov.to_global(rng.uniform(-1, 1, 3) * v["d"] * 0.7)
        occ.append({"pos": _r(c), "ypr": _rand_ypr(rng), "dims": _r(rng.uniform(0.3, 6.0, 3)), "occluding": bool(rng.random() < 0.85), "role": "random"})
    v["occ"] = occ
    # chains of growing occluder subsets (indices into occ)
    order = [int(i) for i in rng.permutation(len(occ))]
    v["chain"] = [order[:k] for k in range(len(order) + 1)]
    return v


def gen_case(rng, nviewers):
    from rt import visoracle as O

    case = {"viewers": [gen_viewer(rng, O) for _ in range(nviewers)]}
    # operator-level queries (`X can see Y` evaluated inside a requirement): about one per three viewers.  The
    # (distance scaling, bare vector) combination is left to the direct queries: it makes the whole requirement raise.
    ops = []
    for vi, vw in enumerate(case["viewers"]):
        if rng.random() > 0.4:
            continue
        if vw["objs"] and rng.random() < 0.4:
            ops.append([vi, "o", int(rng.integers(len(vw["objs"])))])
        else:
            cands = [j for j, p in enumerate(vw["pts"]) if not (vw["ray"]["mode"] == "dscale" and p["form"] == "vector")]
            if cands:
                ops.append([vi, "p", int(cands[int(rng.integers(len(cands)))])])
    case["ops"] = ops
    return case


# ---------------------------------------------------------------------------------------------------------
# the Scenic program.  Its text is constant (parsing long specifier lists with the pegen parser dominates the
# cost otherwise); the numbers of the case are read from the `verif_script` module.  All viewers, targets and
# occluders are created by the compiled `new ... at ..., with ...` statements below.

PROGRAM = """
import verif_script as V
from scenic.core.vectors import Vector as _Vec
_case = V.EXTRA['c17case']
_shapes = {'box': BoxShape, 'spheroid': SpheroidShape, 'cylinder': CylinderShape, 'cone': ConeShape}

def mkbody(o):
    pos = _Vec(*o['pos'])
    y, p, r = o['ypr']
    w, l, h = o['dims']
    shp = _shapes[o.get('shape', 'box')]()
    occ = o['occluding']
    return new Object at pos, with yaw y, with pitch p, with roll r, with width w, with length l, with height h, with shape shp, with occluding occ, with allowCollisions True, with requireVisible False

def mkviewer(v):
    ray = v['ray']
    dens = ray.get('density') or 5
    cnt = tuple(ray['count']) if ray['mode'] == 'count' else None
    ds = ray['mode'] == 'dscale'
    pos = _Vec(*v['pos'])
    d = v['d']
    kind = v['kind']
    if kind == 'Point':
        return new Point at pos, with visibleDistance d, with viewRayDensity dens, with viewRayCount cnt, with viewRayDistanceScaling ds
    y, p, r = v['ypr']
    va = (v['h'], v['v'])
    if kind == 'Object':
        w, l, h = v['dims']
        cam = _Vec(*v['cam'])
        occ = v['occluding']
    if v['parent'] is None:
        if kind == 'OrientedPoint':
            return new OrientedPoint at pos, with yaw y, with pitch p, with roll r, with viewAngles va, with visibleDistance d, with viewRayDensity dens, with viewRayCount cnt, with viewRayDistanceScaling ds
        return new Object at pos, with yaw y, with pitch p, with roll r, with width w, with length l, with height h, with cameraOffset cam, with viewAngles va, with visibleDistance d, with viewRayDensity dens, with viewRayCount cnt, with viewRayDistanceScaling ds, with occluding occ, with allowCollisions True, with requireVisible False
    par = Orientation.fromEuler(*v['parent'])
    if kind == 'OrientedPoint':
        return new OrientedPoint at pos, with parentOrientation par, with yaw y, with pitch p, with roll r, with viewAngles va, with visibleDistance d, with viewRayDensity dens, with viewRayCount cnt, with viewRayDistanceScaling ds
    return new Object at pos, with parentOrientation par, with yaw y, with pitch p, with roll r, with width w, with length l, with height h, with cameraOffset cam, with viewAngles va, with visibleDistance d, with viewRayDensity dens, with viewRayCount cnt, with viewRayDistanceScaling ds, with occluding occ, with allowCollisions True, with requireVisible False

def mkpoint(q):
    pos = _Vec(*q['p'])
    if q['form'] == 'vector':
        return pos
    if q['form'] == 'point':
        return new Point at pos
    return new OrientedPoint at pos, facing (1.0, 0.5, -0.3)

_out = []
for _v in _case['viewers']:
    _out.append((mkviewer(_v), [mkpoint(_p) for _p in _v['pts']], [mkbody(_o) for _o in _v['objs']], [mkbody(_w) for _w in _v['occ']]))
ego = new Object at (500, 500, 500), with occluding False, with allowCollisions True, with requireVisible False
param c17 = _out
_pairs = [(_out[_op[0]][0], _out[_op[0]][1 if _op[1] == 'p' else 2][_op[2]]) for _op in _case['ops']]
require V.c17rec([(_x can see _y) for (_x, _y) in _pairs])
"""


def render(case):
    """Install the case where the program reads it; returns the (constant) program text."""
    from rt import su

    su.script.EXTRA["c17case"] = case
    return PROGRAM


def _obj(name, pos, ypr, dims, occluding, shape=None, extra=""):
    s = f"{name} = new Object at ({pos[0]!r}, {pos[1]!r}, {pos[2]!r}), with yaw {ypr[0]!r}, with pitch {ypr[1]!r}, with roll {ypr[2]!r}"
    s += f", with width {dims[0]!r}, with length {dims[1]!r}, with height {dims[2]!r}"
    if shape and shape != "box":
        s += f", with shape {SHAPES[shape]}"
    s += f", with occluding {bool(occluding)}, with allowCollisions True, with requireVisible False{extra}"
    return s


# ---------------------------------------------------------------------------------------------------------
# oracle objects from a case


def oracle_viewer(O, v):
    if v["kind"] == "Point":
        return O.Viewer(v["pos"], None, [0, 0, 0], v["d"], 2 * math.pi, math.pi)
    R = O.rot(*v["ypr"])
    if v.get("parent") is not None:
        R = O.rot(*v["parent"]) @ R
    return O.Viewer(v["pos"], R, v["cam"], v["d"], v["h"], v["v"])


def oracle_box(O, w):
    return O.Box(w["pos"], O.rot(*w["ypr"]), w["dims"], w["occluding"])


def oracle_target(O, o):
    return O.Target(o["shape"], o["pos"], O.rot(*o["ypr"]), o["dims"], o["occluding"])


def spacing_for(v, dist):
    ray = v["ray"]
    h, vv = (2 * math.pi, math.pi) if v["kind"] == "Point" else (v["h"], v["v"])
    if ray["mode"] == "density":
        return math.radians(1.0 / (ray["density"] or 5.0))
    if ray["mode"] == "count":
        return max(h / ray["count"][0], vv / ray["count"][1])
    return math.radians(1.0 / max(ray["density"] * dist, 1e-9))


# ---------------------------------------------------------------------------------------------------------
# running one case


class _Ctx:
    def __init__(self):
        self.res = {"evaluations": 0, "nontrivial": [], "counters": {}, "samples": [], "violations": [], "skipped": {}}
        self.sigs = {}

    def bump(self, k, n=1):
        c = self.res["counters"]
        c[k] = c.get(k, 0) + n

    def skip(self, k, n=1):
        c = self.res["skipped"]
        c[k] = c.get(k, 0) + n

    def violation(self, key, what, witness):
        self.bump("disagreements")
        sig = key or what.split(":")[0]
        self.sigs[sig] = self.sigs.get(sig, 0) + 1
        if self.sigs[sig] > 6 or len(self.res["violations"]) >= 150:
            return
        self.res["violations"].append({"key": key, "what": what[:600], "witness": witness})


def _store():
    from rt import su

    st = su.script.EXTRA.setdefault("c17", [])

    def rec(val):
        st.append([bool(x) for x in val])
        return True

    su.script.c17rec = rec
    return st


def run_case(case, ctx, rng, only=None):
    """Compile the program, run all queries, judge.  `only` = (viewer index, kind, target index) restricts
    judging to one target (replay)."""
    from rt import su, visoracle as O
    from scenic.core.vectors import Vector

    store = _store()
    del store[:]
    src = render(case)
    try:
        scenario = su.compile_scenic(src)
    except Exception as e:  # the front end must accept these programs
        ctx.violation(None, f"compile-failed: {type(e).__name__}: {str(e)[:200]}", {"case": case, "q": None})
        return src
    ctx.bump("programs")
    out = scenario.params["c17"]
    for vi, v in enumerate(case["viewers"]):
        vobj, pobjs, oobjs, wobjs = out[vi]
        ov = oracle_viewer(O, v)
        boxes = [oracle_box(O, w) for w in v["occ"]]
        oriented = v["kind"] != "Point"
        offorigin = float(np.linalg.norm(v["pos"])) > 1.0
        rotated = oriented and (any(abs(a) > 1e-9 for a in v["ypr"]) or v.get("parent") is not None)
        interesting = offorigin and (rotated or not oriented)
        cam_off = float(np.linalg.norm(ov.cam)) > 1e-6  # the rotate-about-origin defect needs a camera away from the origin
        ctx.bump("viewers")
        ctx.bump("viewer_kind_" + v["kind"])
        if oriented and rotated and offorigin:
            ctx.bump("viewers_oriented_offorigin")
        if v.get("parent") is not None:
            ctx.bump("viewers_with_parent_orientation")
        if any(abs(a) > 0 for a in v["cam"]):
            ctx.bump("viewers_with_camera_offset")
        ctx.bump("ray_mode_" + v["ray"]["mode"])
        ctx.bump("h_full" if v["h"] >= 2 * math.pi - 1e-9 else ("h_gt180" if v["h"] > math.pi else "h_le180"))
        chain = v["chain"]

        def wit(kind, ti):
            return {"case": case, "q": [vi, kind, ti]}

        # ---------------- point-like targets
        region = None
        for ti, p in enumerate(v["pts"]):
            if only is not None and only != [vi, "p", ti]:
                continue
            tobj = pobjs[ti]
            prev = None
            for sub in chain:
                # callers of canSee pass only objects whose `occluding` property is true (veneer.CanSee,
                # VisibilityRequirement); the non-occluding walls matter for the operator-level query
                occs = tuple(wobjs[k] for k in sub if v["occ"][k]["occluding"])
                bsub = [boxes[k] for k in sub]
                ctx.res["evaluations"] += 1
                ctx.bump("point_queries")
                ctx.bump("point_form_" + p["form"])
                try:
                    real = bool(vobj.canSee(tobj, occludingObjects=occs))
                except Exception as e:
                    key = None
                    if p["form"] == "vector" and v["ray"]["mode"] == "dscale" and isinstance(e, AttributeError) and "position" in str(e):
                        key = KEY_DSCALE
                    ctx.violation(key, f"canSee raised on a point-like target ({p['form']}, ray mode {v['ray']['mode']}): {type(e).__name__}: {str(e)[:150]}", wit("p", ti))
                    break
                exp, cls = O.expected_point(ov, p["p"], bsub)
                if prev is not None:
                    ctx.bump("monotonic_pairs")
                    if real and not prev:
                        ctx.violation(None, f"monotonicity: adding an occluder turned a point query from False to True (subset {sub})", wit("p", ti))
                prev = real
                if exp is None:
                    ctx.skip("point_" + cls)
                    continue
                ctx.bump("point_" + cls.replace("-", "_"))
                if interesting:
                    ctx.res["nontrivial"].append(su.h(["p", v["pos"], v["ypr"], v["parent"], v["cam"], p["p"], sub]))
                if real != exp:
                    key = None
                    if oriented and rotated and cam_off and O.rotate_first_model(ov, True, p["p"], bsub) == real:
                        key = KEY_ROTATE
                    q = ov.local(p["p"])
                    rho, az, alt = O.az_alt(q)
                    ctx.violation(
                        key,
                        f"point: canSee={real} but the analytic answer is {exp} ({cls}); viewer {v['kind']} at {np.round(v['pos'], 2).tolist()} "
                        f"ypr={np.round(v['ypr'], 3).tolist()} parent={v['parent'] is not None} d={v['d']:.2f} h={math.degrees(v['h']):.1f} v={math.degrees(v['v']):.1f}; "
                        f"target local rho={rho:.2f} az={math.degrees(az):.1f} alt={math.degrees(alt):.1f} occluders={sub}",
                        wit("p", ti),
                    )
            # visibleRegion consistency (no occlusion)
            q = ov.local(p["p"])
            rc = O.point_class(q, ov.d, ov.h, ov.v, m_ang=0.04, m_rad=0.03)
            if rc is None:
                ctx.skip("region_boundary")
            else:
                try:
                    if region is None:
                        region = vobj.visibleRegion
                    inreg = bool(region.containsPoint(Vector(*p["p"])))
                except Exception as e:
                    ctx.violation(None, f"region: visibleRegion.containsPoint raised {type(e).__name__}: {str(e)[:150]}", wit("p", ti))
                    continue
                ctx.bump("region_checks")
                ctx.bump("region_" + rc)
                if inreg != (rc == "in"):
                    rho = float(np.linalg.norm(q))
                    rkey = KEY_PTREGION if (v["kind"] == "Point" and rc == "in" and not inreg and rho > 0.5 * ov.d * 0.95) else None
                    ctx.violation(rkey, f"region: visibleRegion.containsPoint={inreg} but the point is analytically {rc}side the view volume (viewer {v['kind']}, d={v['d']:.2f} h={math.degrees(v['h']):.1f} v={math.degrees(v['v']):.1f}, target local rho={float(np.linalg.norm(q)):.2f})", wit("p", ti))

        # ---------------- solid targets
        for ti, o in enumerate(v["objs"]):
            if only is not None and only != [vi, "o", ti]:
                continue
            tobj = oobjs[ti]
            tg = oracle_target(O, o)
            dist = float(np.linalg.norm(np.asarray(o["pos"]) - ov.cam))
            sp = spacing_for(v, dist)
            prev = None
            for sub in chain:
                occs = tuple(wobjs[k] for k in sub if v["occ"][k]["occluding"])
                bsub = [boxes[k] for k in sub]
                ctx.res["evaluations"] += 1
                ctx.bump("object_queries")
                ctx.bump("object_shape_" + o["shape"])
                ctx.bump("object_cat_" + o["cat"].replace("-", "_"))
                try:
                    real = bool(vobj.canSee(tobj, occludingObjects=occs))
                except Exception as e:
                    ctx.violation(None, f"canSee raised on an Object target ({o['shape']}, {o['cat']}): {type(e).__name__}: {str(e)[:150]}", wit("o", ti))
                    break
                if prev is not None:
                    ctx.bump("monotonic_pairs")
                    if real and not prev:
                        ctx.violation(None, f"monotonicity: adding an occluder turned an object query from False to True (subset {sub})", wit("o", ti))
                prev = real
                exp, cls = O.expected_object(ov, tg, bsub, sp, rng)
                if exp is None:
                    ctx.skip("object_" + cls)
                    continue
                ctx.bump("object_" + cls.replace("-", "_"))
                ctx.bump("object_definite_" + o["cat"].replace("-", "_") + ("_T" if exp else "_F"))
                if interesting:
                    ctx.res["nontrivial"].append(su.h(["o", v["pos"], v["ypr"], v["parent"], v["cam"], o["pos"], o["dims"], sub]))
                if real != exp:
                    key = None
                    if real and oriented and rotated and cam_off and O.rotate_first_model(ov, True, o["pos"], bsub) is True:
                        key = KEY_ROTATE
                    if (not real) and cls == "visible-cam-inside":
                        key = KEY_INSIDE
                    ql = ov.local(o["pos"])
                    rho, az, alt = O.az_alt(ql)
                    ctx.violation(
                        key,
                        f"object: canSee={real} but the analytic answer is {exp} ({cls}); viewer {v['kind']} d={v['d']:.2f} h={math.degrees(v['h']):.1f} v={math.degrees(v['v']):.1f} "
                        f"ray={v['ray']}; target {o['shape']} dims={np.round(o['dims'], 2).tolist()} cat={o['cat']} local rho={rho:.2f} az={math.degrees(az):.1f} alt={math.degrees(alt):.1f} occluders={sub}",
                        wit("o", ti),
                    )

    # ---------------- operator plumbing: `X can see Y` inside a requirement, occluders = every occluding object
    if (only is None or only == "op") and case["ops"]:
        del store[:]
        err = None
        try:
            scenario.generate(maxIterations=1, verbosity=0)
        except Exception as e:
            err = e
        if err is not None or len(store) != 1 or len(store[0]) != len(case["ops"]):
            ctx.violation(None, f"operator: scene generation with `require V.c17rec([X can see Y ...])` failed: {type(err).__name__ if err else 'no evaluation'}: {str(err)[:150]}", {"case": case, "q": "op"})
        else:
            for (vi, kind, ti), real in zip(case["ops"], store[0]):
                v = case["viewers"][vi]
                ov = oracle_viewer(O, v)
                allboxes = []
                for vj, w in enumerate(case["viewers"]):
                    if w["kind"] == "Object" and vj != vi:
                        Rw = O.rot(*w["ypr"])
                        if w.get("parent") is not None:
                            Rw = O.rot(*w["parent"]) @ Rw
                        allboxes.append(O.Box(w["pos"], Rw, w["dims"], w["occluding"]))
                    for tj, o in enumerate(w["objs"]):
                        if not (vj == vi and kind == "o" and tj == ti):
                            allboxes.append(O.Box(o["pos"], O.rot(*o["ypr"]), o["dims"], o["occluding"]))  # non-box shapes never occlude
                    allboxes.extend(oracle_box(O, x) for x in w["occ"])
                ctx.res["evaluations"] += 1
                if kind == "p":
                    p = v["pts"][ti]
                    exp, cls = O.expected_point(ov, p["p"], allboxes)
                    model = O.rotate_first_model(ov, True, p["p"], allboxes) if v["kind"] != "Point" else None
                else:
                    o = v["objs"][ti]
                    dist = float(np.linalg.norm(np.asarray(o["pos"]) - ov.cam))
                    exp, cls = O.expected_object(ov, oracle_target(O, o), allboxes, spacing_for(v, dist), rng)
                    model = O.rotate_first_model(ov, True, o["pos"], allboxes) if (v["kind"] != "Point" and real) else None
                if exp is None:
                    ctx.skip("operator_" + cls)
                    continue
                ctx.bump("operator_checks")
                ctx.bump("operator_" + ("true" if exp else "false"))
                if real != exp:
                    key = KEY_ROTATE if (model is not None and model == real) else None
                    if kind == "o" and not real and cls == "visible-cam-inside":
                        key = KEY_INSIDE
                    ctx.violation(key, f"operator: `v{vi} can see {kind}{vi}_{ti}` evaluated to {real} inside a requirement but the analytic answer with all occluding objects of the scenario is {exp} ({cls})", {"case": case, "q": "op"})
    return src


# ---------------------------------------------------------------------------------------------------------
# self-check of the oracle's inner shape models against the real meshes


def check_shape_models(ctx):
    from rt import su, visoracle as O
    from scenic.core.vectors import Vector

    rng = np.random.default_rng(12345)
    dims = [2.0, 3.0, 4.0]
    ypr = [0.7, -0.4, 1.1]
    pos = [30.0, -20.0, 10.0]
    src = "\n".join(_obj(f"s_{k}", pos, ypr, dims, False, k) for k in SHAPES) + "\nego = s_box\nparam c17 = [" + ", ".join(f"s_{k}" for k in SHAPES) + "]\n"
    objs = su.compile_scenic(src).params["c17"]
    bad = []
    for k, obj in zip(SHAPES, objs):
        tg = O.Target(k, pos, O.rot(*ypr), dims)
        pts = tg.interior_points(rng, 150)
        # push samples towards the surface of the inner model along random rays from the centre
        for _ in range(150):
            g = rng.normal(size=3)
            g /= np.linalg.norm(g)
            iv = tg.ray_interval(tg.c + 1e-9 * g, g)
            far = 0.0
            # march to the exit of the inner model
            lo, hi = 0.0, 10.0
            for _ in range(40):
                mid = (lo + hi) / 2
                s = (tg.R.T @ (g * mid)) / tg.hd
                if tg.inside_unit(s):
                    lo = mid
                else:
                    hi = mid
            pts.append(tg.c + g * lo * 0.999)
        okc = all(obj.occupiedSpace.containsPoint(Vector(*p)) for p in pts)
        ctx.bump("shape_model_points_checked", len(pts))
        if not okc:
            bad.append(k)
            ctx.bump("shape_model_mismatch_" + k)
    return bad


# ---------------------------------------------------------------------------------------------------------


def plan(tier, seed):
    n = 16 if tier == "quick" else 64
    per = 2 if tier == "quick" else 8  # x 16..22 viewers each
    return [{"shard": i, "programs": per, "timeout": 900 if tier == "quick" else 2400} for i in range(n)]


def run_shard(spec):
    rng = np.random.default_rng([spec["seed"], spec["shard"], 17])
    ctx = _Ctx()
    bad = check_shape_models(ctx)
    if bad:
        ctx.violation(None, f"oracle self-check: inner shape model not contained in the real mesh for {bad} (check the oracle, not Scenic)", {"case": None, "q": None})
        return ctx.res
    for k in range(spec["programs"]):
        case = gen_case(rng, nviewers=int(rng.integers(16, 23)))
        src = run_case(case, ctx, rng)
        if len(ctx.res["samples"]) < 1 and k == 0:
            ctx.res["samples"].append({"program": src, "case(first viewer)": case["viewers"][0], "ops": case["ops"]})
    ctx.res["nontrivial"] = sorted(set(ctx.res["nontrivial"]))
    return ctx.res


def replay(w):
    if not w or w.get("case") is None:
        return []
    ctx = _Ctx()
    rng = np.random.default_rng(7)
    run_case(w["case"], ctx, rng, only=w.get("q"))
    return ctx.res["violations"]


MANIFEST_ENTRY = {
    "technique": "runtime monitoring: invariant at the API boundary (canSee / visibleRegion.containsPoint / `can see` inside a requirement) against an analytic view-volume and line-of-sight oracle, plus occluder-monotonicity pairs",
    "text": "Generated Scenic programs (real front end) build viewers far from the origin with parent orientation, yaw/pitch/roll, camera offsets, every view-angle regime and ray setting, with point-like and solid targets of every built-in shape and 0-4 box occluders constructed relative to the targets. The real canSee is called for chains of growing occluder sets; answers are compared only where the independent numpy oracle is definite (inside/outside with angular and radial margins; wholly outside by bounding sphere; certified clear spherical cap on a convex inner model; wall provably cutting every line of sight). Bounded exploration: held on the queries driven.",
    "note": "Trusts rt/visoracle.py (own Z-X-Y rotation, azimuth/altitude conventions from the docs; inner shape models are verified against the real meshes at the start of every shard). Finite ray sampling is documented to give false negatives, so 'visible' is only demanded for caps of >= 6 ray spacings. 2D-mode fast path and the visible/not visible specifiers are not driven here.",
}
