"""C04 -- object overlap / containment / minimum distance agree with exact solid geometry.

Runtime monitoring at the API boundary: generated Scenic programs create objects through the real
`new Object ...` path (fixed, position-sampled and dimension-sampled instances); `Object.intersects`,
`Region.containsObject`, the `intersects` / `in` operators and `Object.minimumDistanceTo` are called on the
resulting scene objects and compared with the certified three-valued answers of rt.geomoracle, which is
given the convex pieces the shapes were built from.  A sys.monitoring exit recorder notes which `return`
of the multi-pass procedures decided each call.
"""

import math

import numpy as np

PROPERTY = "C04"
LEVEL = "exploration"
RULE = (
    "pairs of objects over box / 24-prism cylinder / 32-gon cone / icosphere / random convex hull / non-convex "
    "and multi-body unions of boxes (L, U, frame, cross, vee, two-body, hollow shell), aspect ratios up to 20:1, "
    "slid along a random direction to a signed offset log-uniform in [1e-3, 10] around first contact; strata: "
    "generic 3D, planar boxes (equal z / z near the height sum), axis-aligned, equal z, nested in a cavity, "
    "swallowed inside the other's material, far apart; object-in-container cases with convex / non-convex mesh "
    "containers (centred and centerMesh=False), polygon footprints with holes (incl. non-convex objects wrapped around a hole), "
    "flat PolygonalRegions, and intersection / difference regions, slid to a signed offset around the containment "
    "boundary; objects are fixed, position-sampled, dimension-sampled or sampled through an unrelated property; box and "
    "cylinder shapes also with initial_rotation.  A case is non-trivial when the oracle answer is definite and the "
    "bounding spheres of the two solids overlap; distinct = distinct (stratum, shapes, poses) tuples."
)
ASSUMPTIONS = [
    "oracle: numpy + scipy linprog (HiGHS) + qhull half-spaces of known vertex sets; certified witnesses (ball in the intersection, support gap, vertex farther than eps from the container, eps-inflated object inside)",
    "eps = 1e-4 scene units separates definite from near-touching (skipped and counted)",
    "meshes handed to Scenic are produced from the oracle's convex pieces by trimesh convex_hull / manifold union and validated (volume, bounds, probe-point membership) before use",
    "Euler convention Z(yaw) X(pitch) Y(roll) intrinsic, taken from docs/reference/data.rst",
    "reported minimum distance may differ from the certified bracket by 1e-4 absolute + 1e-4 relative",
]
MIN_COUNTERS = {
    "quick": {
        "pairs_definite_overlap": 400,
        "pairs_definite_disjoint": 400,
        "contain_definite_in": 100,
        "contain_definite_out": 100,
        "mindist_compared": 300,
        "symmetry_checked": 800,
        "exit.MeshVolumeRegion.intersects.p1_spheres_apart": 20,
        "exit.MeshVolumeRegion.intersects.p2a_inradii_overlap": 20,
        "exit.MeshVolumeRegion.intersects.p2b_bbox_apart": 5,
        "exit.MeshVolumeRegion.intersects.p3_fcl_surface_hit": 50,
        "exit.MeshVolumeRegion.intersects.p3_convex_result": 50,
        "exit.MeshVolumeRegion.intersects.p4_interior_point": 20,
        "exit.MeshVolumeRegion.intersects.p5_boolean": 5,
        "exit.Object.intersects.planar_z_apart": 10,
        "exit.Object.intersects.planar_polygons": 50,
        "exit.Object.intersects.general": 500,
        "exit.MeshVolumeRegion.containsObject.p1_bbox_apart": 3,
        "exit.MeshVolumeRegion.containsObject.p2_convex_bbox_inside": 10,
        "exit.MeshVolumeRegion.containsObject.p2_convex_vertices": 10,
        "exit.MeshVolumeRegion.containsObject.p3_ball_inside": 3,
        "exit.MeshVolumeRegion.containsObject.p5_boolean": 10,
        "exit.PolygonalFootprintRegion.containsObject.convex_polygon": 20,
        "exit.PolygonalFootprintRegion.containsObject.exact_projection": 10,
        "exit.PolygonalFootprintRegion.containsObject.exact_projection.T": 4,
        "exit.PolygonalFootprintRegion.containsObject.exact_projection.F": 4,
        "exit.Object.minimumDistanceTo.planar_2d": 10,
        "exit_objreg.Object.intersects.planar_vs_polygonalregion": 4,
        "exit.Object.minimumDistanceTo.general": 200,
        "exit.MeshVolumeRegion.containsObject.p3_centre_outside": 10,
        "exit.PolygonalFootprintRegion.containsObject.hull_inside": 5,
        "occupied_space_checks": 3000,
        "object_region_intersects": 200,
        "direct_region_reevaluations": 300,
    },
}
MIN_COUNTERS["thorough"] = {k: v * 8 for k, v in MIN_COUNTERS["quick"].items()}

TARGETS = {
    "MeshVolumeRegion.intersects": (
        "regions.py",
        [
            "p1_spheres_apart",
            "p2a_inradii_overlap",
            "p2a_circumradii_apart",
            "p2b_bbox_apart",
            "p3_fcl_surface_hit",
            "p3_convex_result",
            "p4_interior_point",
            "p5_boolean",
            "surf_bbox_apart",
            "surf_collision",
            "surf_first_vertex",
            "footprint_bounded",
            "super",
        ],
    ),
    "MeshVolumeRegion.containsObject": (
        "regions.py",
        ["p1_bbox_apart", "p2_convex_bbox_inside", "p2_convex_vertices", "p3_centre_outside", "p3_ball_inside", "p4_too_far", "p5_boolean"],
    ),
    "Object.intersects": ("object_types.py", ["planar_z_apart", "planar_polygons", "planar_vs_polygonalregion", "general"]),
    "Object.minimumDistanceTo": ("object_types.py", ["planar_2d", "general"]),
    "PolygonalFootprintRegion.containsObject": ("regions.py", ["convex_polygon", "hull_inside", "exact_projection"]),
}

PAIR_STRATA = (
    ("generic", 30),
    ("planar_boxes", 14),
    ("axis_aligned", 8),
    ("equal_z", 6),
    ("nested", 10),
    ("swallowed", 8),
    ("far", 4),
    ("nonconvex", 20),
)
CONTAINER_KINDS = (
    ("boxregion", 12),
    ("spheroidregion", 5),
    ("hullmesh", 8),
    ("nonconvex", 20),
    ("footprint", 14),
    ("footprint_ring", 7),
    ("polygonal", 10),
    ("inter_mesh", 6),
    ("diff_mesh", 6),
    ("inter_explicit", 6),
    ("diff_explicit", 8),
)

PAIRS_PER_PROGRAM = 10
CONTS_PER_PROGRAM = 4


def plan(tier, seed):
    n = 16 if tier == "quick" else 64
    programs = 16 if tier == "quick" else 60
    # glibc: keep large numpy temporaries on the heap instead of mmap/munmap per array (measured: -40% CPU)
    env = {"MALLOC_MMAP_THRESHOLD_": "33554432", "MALLOC_TRIM_THRESHOLD_": "1073741824", "MALLOC_TOP_PAD_": "67108864"}
    return [{"shard": i, "programs": programs, "timeout": 1500 if tier == "quick" else 3400, "env": env} for i in range(n)]


# ---------------------------------------------------------------------------------------------
# generation
# ---------------------------------------------------------------------------------------------
def _choice(rng, weighted):
    names = [n for n, _ in weighted]
    w = np.array([x for _, x in weighted], dtype=float)
    return names[int(rng.choice(len(names), p=w / w.sum()))]


def _unit_vec(rng):
    v = rng.normal(size=3)
    return v / np.linalg.norm(v)


def _logu(rng, lo, hi):
    return float(math.exp(rng.uniform(math.log(lo), math.log(hi))))


def _dims(rng, wide=False):
    base = _logu(rng, 0.3, 3.0)
    if wide or rng.random() < 0.3:
        d = [base * _logu(rng, 0.05, 1.0) for _ in range(3)]
        d[int(rng.integers(3))] = base
    else:
        d = [base * _logu(rng, 0.5, 1.0) for _ in range(3)]
    return tuple(float(max(x, 0.04)) for x in d)


def _ypr(rng, style):
    if style == "planar":
        return (float(rng.uniform(-math.pi, math.pi)), 0.0, 0.0)
    if style == "axis":
        return (float(rng.choice([0.0, math.pi / 2, math.pi, -math.pi / 2])), 0.0, 0.0)
    if style == "zero":
        return (0.0, 0.0, 0.0)
    return tuple(float(x) for x in rng.uniform(-math.pi, math.pi, 3))


class Obj:
    """One generated object: shape spec + pose + how it is written in the program."""

    def __init__(self, spec, dims, pos, ypr, mode="fixed", orient_style="facing"):
        self.spec = spec
        self.dims = tuple(float(x) for x in dims)
        self.pos = tuple(float(x) for x in pos)
        self.ypr = tuple(float(x) for x in ypr)
        self.mode = mode  # fixed | sampled_pos | sampled_dims
        self.orient_style = orient_style
        self.name = None

    def world(self):
        return self.spec.world(self.dims, self.pos, self.ypr)

    def source(self):
        x, y, z = (repr(v) for v in self.pos)
        if self.mode == "sampled_pos":
            x = f"Range({x}, {x})"
        w, l, h = (repr(v) for v in self.dims)
        if self.mode == "sampled_dims":
            w = f"Range({w}, {w})"
        yaw, pitch, roll = (repr(v) for v in self.ypr)
        if self.orient_style == "facing":
            ori = f"facing ({yaw}, {pitch}, {roll})"
        else:
            ori = f"with yaw {yaw}, with pitch {pitch}, with roll {roll}"
        tag = "Range(0, 1)" if self.mode == "sampled_other" else "0"
        return (
            f"{self.name} = new Object at ({x}, {y}, {z}), {ori}, with shape {self.spec.src}, "
            f"with width {w}, with length {l}, with height {h}, with allowCollisions True, with requireVisible False, with verifTag {tag}"
        )

    def desc(self):
        return {"kind": self.spec.kind, "shape": self.spec.src, "dims": self.dims, "pos": self.pos, "ypr": self.ypr, "mode": self.mode, "orient": self.orient_style}


def _slide_to_contact(A_world, specB, dimsB, yprB, origin, u, tmax):
    """Largest t in [0, tmax] (bisection) at which B placed at origin + t u still touches A, or None if
    B at t=0 is already apart from A."""
    from rt import geomoracle as go

    def apart(t):
        Bw = specB.world(dimsB, origin + t * u, yprB)
        lo, hi = go.distance_bracket(A_world, Bw)
        return lo > 1e-7

    if apart(0.0):
        return None
    lo_t, hi_t = 0.0, tmax
    if not apart(hi_t):
        return tmax
    for _ in range(26):
        mid = (lo_t + hi_t) / 2
        if apart(mid):
            hi_t = mid
        else:
            lo_t = mid
    return hi_t


def _radius(world):
    allv = np.vstack([P.V for P in world])
    c = (allv.min(axis=0) + allv.max(axis=0)) / 2
    return c, float(np.linalg.norm(allv - c, axis=1).max())


def gen_pair(rng, stratum):
    """-> (Obj A, Obj B, meta)"""
    from rt import geomgen as gg
    from rt import geomoracle as go

    conv = list(gg.CONVEX_KINDS)
    nonc = list(gg.NONCONVEX_KINDS)
    style = "full"
    kindA = kindB = None
    if stratum == "planar_boxes":
        kindA = kindB = "box"
        style = "planar" if rng.random() < 0.7 else "axis"
    elif stratum == "axis_aligned":
        style = "axis" if rng.random() < 0.7 else "zero"
    elif stratum == "nested":
        kindA = str(rng.choice(["frame", "shell", "U"]))
    elif stratum == "swallowed":
        kindA = str(rng.choice(["L", "cross", "box", "cyl", "hull", "twobody", "sph", "U", "vee"]))
    elif stratum == "nonconvex":
        kindA = str(rng.choice(nonc))
        if rng.random() < 0.5:
            kindB = str(rng.choice(nonc))
    if kindA is None:
        kindA = str(rng.choice(conv + nonc if stratum == "generic" else conv))
    if kindB is None:
        kindB = str(rng.choice(conv + nonc if stratum in ("generic",) and rng.random() < 0.3 else conv))
    specA = gg.random_shape(rng, kindA)
    specB = gg.random_shape(rng, kindB)
    dimsA = _dims(rng)
    dimsB = _dims(rng)
    posA = rng.uniform(-3, 3, 3)
    yprA = _ypr(rng, style)
    yprB = _ypr(rng, style)
    if stratum == "equal_z":
        yprA = _ypr(rng, "planar") if rng.random() < 0.5 else yprA
    modes = ["fixed", "fixed", "sampled_pos", "sampled_dims", "sampled_other"]
    A = Obj(specA, dimsA, posA, yprA, str(rng.choice(modes)), str(rng.choice(["facing", "with"])))
    Aw = A.world()
    meta = {"stratum": stratum}

    if stratum in ("nested", "swallowed"):
        M, t = gg.raw_to_world(specA, dimsA, posA, yprA)
        if stratum == "nested":
            lo, hi = gg.cavity_box(specA)
        else:
            P = specA.solid.pieces[int(rng.integers(len(specA.solid.pieces)))]
            c = P.V.mean(axis=0)
            shrink = 0.45
            lo, hi = c + shrink * (P.V.min(axis=0) - c), c + shrink * (P.V.max(axis=0) - c)
            if specA.kind not in ("box", "L", "cross", "twobody", "U"):
                # inscribed box of a generic convex piece: shrink towards the centroid until inside
                for _ in range(30):
                    if all(P.contains_point_margin(v) > 0 for v in go.box_vertices(lo, hi)):
                        break
                    lo, hi = c + 0.8 * (lo - c), c + 0.8 * (hi - c)
        # B: a small shape in raw cavity coordinates, mapped by the same affine map => choose B's world pose
        centre_raw = (lo + hi) / 2 + rng.uniform(-0.15, 0.15, 3) * (hi - lo)
        centre = M @ centre_raw + t
        # size: fraction of the smallest world extent of the cavity
        ext_world = np.abs(M @ np.diag(hi - lo)).sum(axis=1)  # loose
        cav_min = float(min(np.linalg.norm(M[:, k]) * (hi - lo)[k] for k in range(3)))
        s = cav_min * rng.uniform(0.15, 0.5)
        dimsB = tuple(float(s * f) for f in rng.uniform(0.5, 1.0, 3))
        B = Obj(specB, dimsB, centre, yprB, str(rng.choice(modes)), str(rng.choice(["facing", "with"])))
        return A, B, meta

    u = _unit_vec(rng)
    z_same = False
    if stratum in ("planar_boxes", "equal_z"):
        r = rng.random()
        if r < 0.5:
            u[2] = 0.0
            u /= np.linalg.norm(u)
            z_same = True
        elif r < 0.75 and stratum == "planar_boxes":
            u = np.array([0.0, 0.0, 1.0]) * (1 if rng.random() < 0.5 else -1)
            # a little xy offset is added below through `origin`
    if stratum == "axis_aligned" and rng.random() < 0.5:
        u = np.eye(3)[int(rng.integers(3))] * (1 if rng.random() < 0.5 else -1)
    cA, rA = _radius(Aw)
    Bw0 = specB.world(dimsB, (0, 0, 0), yprB)
    cB, rB = _radius(Bw0)
    origin = np.array(posA, dtype=float)
    if not z_same and rng.random() < 0.5:
        # lateral offset so that contact is not always centre-to-centre
        lat = _unit_vec(rng)
        lat -= (lat @ u) * u
        origin = origin + lat * rng.uniform(0, 0.6) * min(rA, rB + rA)
    if stratum == "far":
        t = rA + rB + np.linalg.norm(origin - cA) + _logu(rng, 0.5, 40)
        posB = origin + t * u
    else:
        tmax = rA + rB + float(np.linalg.norm(origin - cA)) + float(np.linalg.norm(cB)) + 1.0
        t0 = _slide_to_contact(Aw, specB, dimsB, yprB, origin, u, tmax)
        if t0 is None:
            posB = origin
            meta["contact"] = "apart-at-origin"
        else:
            s = _logu(rng, 1e-3, 10.0) * (1 if rng.random() < 0.5 else -1)
            if rng.random() < 0.1:
                s = _logu(rng, 1e-6, 1e-4) * (1 if rng.random() < 0.5 else -1)  # inside the tolerance band: must be skipped
            t = max(t0 + s, 0.0) if s < 0 else t0 + s
            posB = origin + t * u
            meta["offset"] = s
    if z_same:
        posB = np.array([posB[0], posB[1], posA[2]])
    B = Obj(specB, dimsB, posB, yprB, str(rng.choice(modes)), str(rng.choice(["facing", "with"])))
    return A, B, meta


def gen_container(rng, kind):
    """-> RegionSpec-like dict {tree, region, desc} or None"""
    from rt import geomgen as gg
    from scenic.core.regions import DifferenceRegion, IntersectionRegion, MeshVolumeRegion, PolygonalRegion

    centre = rng.uniform(-2, 2, 3)
    size = float(rng.uniform(2.0, 5.0))
    if kind in ("boxregion", "spheroidregion", "hullmesh"):
        tree, reg, desc = gg.vol_region(rng, kind, centre, size)
    elif kind == "nonconvex":
        sub = str(rng.choice(["L", "U", "cross", "frame", "vee"]))
        tree, reg, desc = gg.vol_region(rng, sub, centre, size)
    elif kind == "footprint_ring":
        out = gg.ring_foot_region(rng, centre, size)
        if out is None:
            return None
        tree, reg, desc = out
    elif kind in ("footprint", "polygonal"):
        out = gg.foot_region(rng, centre, size, as_polygonal=(kind == "polygonal"))
        if out is None:
            return None
        tree, reg, desc = out
    elif kind in ("inter_mesh", "diff_mesh", "inter_explicit", "diff_explicit"):
        k1 = str(rng.choice(["boxregion", "hullmesh", "L", "spheroidregion"]))
        t1, r1, d1 = gg.vol_region(rng, k1, centre, size)
        second_foot = kind.endswith("explicit") and rng.random() < 0.5
        if second_foot:
            out = gg.foot_region(rng, centre + rng.uniform(-0.3, 0.3, 3) * size, size * (0.9 if kind.startswith("inter") else 0.4))
            if out is None:
                return None
            t2, r2, d2 = out
        else:
            k2 = str(rng.choice(["boxregion", "hullmesh", "spheroidregion"]))
            off = rng.uniform(-0.4, 0.4, 3) * size
            t2, r2, d2 = gg.vol_region(rng, k2, centre + off, size * (0.9 if kind.startswith("inter") else 0.45))
        if kind == "inter_mesh":
            reg = r1.intersect(r2)
            tree = ("and", t1, t2)
        elif kind == "diff_mesh":
            reg = r1.difference(r2)
            tree = ("minus", t1, t2)
        elif kind == "inter_explicit":
            reg = IntersectionRegion(r1, r2)
            tree = ("and", t1, t2)
        else:
            reg = DifferenceRegion(r1, r2)
            tree = ("minus", t1, t2)
        desc = {"kind": kind, "a": d1, "b": d2, "result_type": type(reg).__name__}
    else:
        raise ValueError(kind)
    return {"tree": tree, "region": reg, "desc": desc, "kind": kind}


def _tree_anchor(rng, tree):
    """A point inside the region (best effort) and a length scale."""
    if tree[0] == "vol":
        P = tree[1][int(rng.integers(len(tree[1])))]
        w = rng.dirichlet(np.ones(len(P.V)))
        return w @ P.V, P.rad
    if tree[0] == "foot":
        P = tree[1][int(rng.integers(len(tree[1])))]
        w = rng.dirichlet(np.ones(len(P.V)))
        xy = w @ P.V
        return np.array([xy[0], xy[1], float(rng.uniform(-2, 2))]), P.rad
    return _tree_anchor(rng, tree[1])


def gen_contained(rng, cont):
    """Object for a containment case, slid to a signed offset around the containment boundary."""
    from rt import geomgen as gg
    from rt import geomoracle as go

    if cont["kind"] == "footprint_ring":
        # an object lying flat around the hole: frame / U / L whose opening is about the size of the hole
        kind = str(rng.choice(["frame", "frame", "U", "L"]))
        spec = gg.random_shape(rng, kind)
        rh = cont["desc"]["hole_radius"]
        dims = (float(rng.uniform(7, 14)) * rh, float(rng.uniform(7, 14)) * rh, float(rng.uniform(0.2, 1.0)))
        hc = cont["desc"]["hole_centre"]
        pos = np.array([hc[0], hc[1], float(rng.uniform(-2, 2))]) + np.array([*(rng.uniform(-1.2, 1.2, 2) * rh), 0.0])
        if kind != "frame":
            # move the notch of the U / the inner corner of the L towards the hole
            pos[:2] += rng.uniform(-0.3, 0.3, 2) * np.array(dims[:2])
        ypr = (float(rng.uniform(-math.pi, math.pi)), 0.0, 0.0) if rng.random() < 0.8 else (float(rng.uniform(-math.pi, math.pi)), float(rng.uniform(-0.3, 0.3)), float(rng.uniform(-0.3, 0.3)))
        modes = ["fixed", "fixed", "sampled_pos", "sampled_dims", "sampled_other"]
        return Obj(spec, dims, pos, ypr, str(rng.choice(modes)), "facing"), {"ring": True}
    kinds = list(gg.CONVEX_KINDS) + ["L", "cross", "twobody", "vee", "U"]
    kind = str(rng.choice(kinds if rng.random() < 0.45 else list(gg.CONVEX_KINDS)))
    flat_planar = cont["kind"] == "polygonal" and rng.random() < 0.5
    if flat_planar:
        kind = "box"  # planar box against a flat polygon: the 2D fast path of Object.intersects(PolygonalRegion)
    spec = gg.random_shape(rng, kind)
    anchor, scale = _tree_anchor(rng, cont["tree"])
    s = scale * _logu(rng, 0.05, 0.6)
    dims = tuple(float(s * f) for f in rng.uniform(0.3, 1.0, 3))
    if rng.random() < 0.08:
        dims = tuple(float(d * 6) for d in dims)  # too large for the container
    style = "planar" if (kind == "box" and (flat_planar or rng.random() < 0.4)) else "full"
    ypr = _ypr(rng, style)
    u = _unit_vec(rng)
    if cont["tree"][0] == "foot" and rng.random() < 0.7:
        u[2] = 0
        u /= np.linalg.norm(u)

    if cont["kind"] == "polygonal" and (flat_planar or rng.random() < 0.6):
        # near the plane of the flat region, so that `obj intersects region` has both answers (and the planar-box path)
        anchor = np.array([anchor[0], anchor[1], cont["desc"]["z"] + float(rng.uniform(-1.3, 1.3)) * dims[2]])

    def inside(t):
        return go.tree_contains(cont["tree"], spec.world(dims, anchor + t * u, ypr))

    meta = {}
    pos = anchor
    if inside(0.0) is True:
        lo_t, hi_t = 0.0, 4 * scale + 2.0
        if inside(hi_t) is True:
            pos = anchor
        else:
            for _ in range(24):
                mid = (lo_t + hi_t) / 2
                if inside(mid) is True:
                    lo_t = mid
                else:
                    hi_t = mid
            off = _logu(rng, 1e-3, 1.0) * (1 if rng.random() < 0.5 else -1)
            pos = anchor + max(lo_t + off, 0.0) * u
            meta["offset"] = off
    else:
        meta["contact"] = "not-inside-at-anchor"
        pos = anchor + rng.uniform(-0.5, 0.5, 3) * scale
    modes = ["fixed", "fixed", "sampled_pos", "sampled_dims", "sampled_other"]
    return Obj(spec, dims, pos, ypr, str(rng.choice(modes)), str(rng.choice(["facing", "with"]))), meta


def gen_program(seed, shard, index):
    """Deterministic content of program `index` of a shard."""
    from rt import geomgen as gg

    rng = np.random.default_rng([int(seed), int(shard), int(index), 404])
    gg.reset()
    ostyle = "facing" if index % 2 == 0 else "with"
    objs = []
    pairs = []
    conts = []
    for k in range(PAIRS_PER_PROGRAM):
        stratum = _choice(rng, PAIR_STRATA)
        for attempt in range(4):
            try:
                A, B, meta = gen_pair(rng, stratum)
                break
            except (ValueError, AssertionError) as e:  # a rejected random shape (degenerate hull, failed union validation)
                A = None
                err = str(e)
        if A is None:
            continue
        A.name, B.name = f"o{len(objs)}", f"o{len(objs) + 1}"
        objs += [A, B]
        pairs.append((A, B, meta))
    for k in range(CONTS_PER_PROGRAM):
        kind = _choice(rng, CONTAINER_KINDS)
        cont = None
        for attempt in range(4):
            try:
                cont = gen_container(rng, kind)
                if cont is not None:
                    O, meta = gen_contained(rng, cont)
                    break
            except (ValueError, AssertionError, NotImplementedError) as e:
                cont = None
        if cont is None:
            continue
        rid = len(gg.registry.REGIONS)
        gg.registry.REGIONS[rid] = cont["region"]
        cont["rid"] = rid
        O.name = f"o{len(objs)}"
        objs.append(O)
        conts.append((O, cont, meta))
    # The program text is constant (the pegen parser needs ~70 ms per `new` line); the per-object data are read
    # from verif_geom.  Every object is still created by the compiled `new Object ...` expression.
    from scenic.core.distributions import Range

    args = []
    for o in objs:
        o.orient_style = ostyle
        x, y, z = o.pos
        w, l, h = o.dims
        if o.mode == "sampled_pos":
            x = Range(x, x)
        if o.mode == "sampled_dims":
            w = Range(w, w)
        # sampled_other: an unrelated random property => a fresh instance per sample that shares the
        # occupiedSpace of its (static) parent
        tag = Range(0, 1) if o.mode == "sampled_other" else 0
        args.append((o.orient_style, (x, y, z), o.ypr, o.spec.make_shape(), w, l, h, tag))
    gg.registry.ARGS = args
    index = {o.name: i for i, o in enumerate(objs)}
    gg.registry.FIXED_PAIRS = [
        (f"pi_{A.name}", index[A.name], index[B.name]) for k, (A, B, _) in enumerate(pairs) if A.mode == "fixed" and B.mode == "fixed" and k % 2 == 0
    ]
    gg.registry.FIXED_CONTS = [(f"pc_{O.name}", index[O.name], cont["rid"]) for (O, cont, _) in conts if O.mode == "fixed"]
    explicit = ["import verif_geom as G"] + [o.source() for o in objs]
    explicit += [f"param {k} = (o{i} intersects o{j})" for k, i, j in gg.registry.FIXED_PAIRS]
    explicit += [f"param {k} = (o{i} in G.region({r}))" for k, i, r in gg.registry.FIXED_CONTS]
    return {"source": PROGRAMS[ostyle], "explicit": "\n".join(explicit) + "\n", "objs": objs, "pairs": pairs, "conts": conts}


_PROGRAM = """
import verif_geom as G
objs = [new Object at a[1], @ORI@, with shape a[3], with width a[4], with length a[5], with height a[6], with allowCollisions True, with requireVisible False, with verifTag a[7] for a in G.ARGS]
def _op_intersects(a, b):
    return a intersects b
def _op_in(a, r):
    return a in r
param op_intersects = _op_intersects
param op_in = _op_in
param pi = {k: (objs[i] intersects objs[j]) for (k, i, j) in G.FIXED_PAIRS}
param pc = {k: (objs[i] in G.region(r)) for (k, i, r) in G.FIXED_CONTS}
"""
PROGRAMS = {
    "facing": _PROGRAM.replace("@ORI@", "facing a[2]"),
    "with": _PROGRAM.replace("@ORI@", "with yaw a[2][0], with pitch a[2][1], with roll a[2][2]"),
}




# ---------------------------------------------------------------------------------------------
# evaluation
# ---------------------------------------------------------------------------------------------
def _fcl_reference_distance(A, B):
    """What python-fcl itself answers on geometry built from the *oracle's* data (convex: hull of the vertices of
    the single piece; non-convex: the input mesh mapped by the oracle's own affine map).  Used only to attribute a
    wrong minimumDistanceTo to the third-party library: the attribution holds only if Scenic's number equals one
    of these.  FCL's GJK answer depends on the frame the vertices are given in, so both usages are reproduced:
    world-frame vertices with identity transform, and local (scaled) vertices with a rigid transform."""
    import fcl
    from rt import geomgen as gg
    from rt import geomoracle as go
    from scipy.spatial import ConvexHull

    def convex(V):
        V = np.ascontiguousarray(V)
        hull = ConvexHull(V)
        tris = []
        for simplex, eq in zip(hull.simplices, hull.equations):
            i, j, k = simplex
            n = np.cross(V[j] - V[i], V[k] - V[i])
            if n @ eq[:3] < 0:
                j, k = k, j
            tris.append((3, i, j, k))
        return fcl.Convex(V, len(tris), np.array(tris, dtype=np.int64).flatten())

    def bvh(V, faces):
        g = fcl.BVHModel()
        g.beginModel(num_tris_=len(faces), num_vertices_=len(V))
        g.addSubModel(np.ascontiguousarray(V), np.asarray(faces))
        g.endModel()
        return g

    def obj(o, local):
        R = go.rotation(*o.ypr)
        if o.spec.convex:
            if local:
                Vl = o.spec.unit.pieces[0].V * np.asarray(o.dims)
                return fcl.CollisionObject(convex(Vl), fcl.Transform(R, np.asarray(o.pos, dtype=float)))
            return fcl.CollisionObject(convex(o.world()[0].V), fcl.Transform())
        mesh = gg.registry.MESHES[o.spec.mesh_id]
        M, t = gg.raw_to_world(o.spec, o.dims, o.pos, o.ypr)
        if local:
            Ml = np.linalg.inv(R) @ M
            tl = np.linalg.inv(R) @ (t - np.asarray(o.pos, dtype=float))
            return fcl.CollisionObject(bvh(np.asarray(mesh.vertices) @ Ml.T + tl, mesh.faces), fcl.Transform(R, np.asarray(o.pos, dtype=float)))
        return fcl.CollisionObject(bvh(np.asarray(mesh.vertices) @ M.T + t, mesh.faces), fcl.Transform())

    out = []
    for la in (False, True):
        for lb in (False, True):
            out.append(fcl.distance(obj(A, la), obj(B, lb)))
    return out


def _fcl_pair_is_feasible_not_minimal(a, b, A, B, d):
    """Second confirmation of the GJK over-estimate: ask FCL (on the very collision objects Scenic uses) for the
    pair of points realising its distance; if both points lie on the oracle's solids and are d apart, geometry and
    transforms are right and only FCL's minimisation stopped early."""
    import fcl

    try:
        oa = fcl.CollisionObject(*a.occupiedSpace._fclData)
        ob = fcl.CollisionObject(*b.occupiedSpace._fclData)
        res = fcl.DistanceResult()
        dd = fcl.distance(oa, ob, fcl.DistanceRequest(enable_nearest_points=True), res)
        p1, p2 = (np.asarray(p, dtype=float) for p in res.nearest_points)
    except Exception:  # noqa
        return False
    if abs(dd - d) > 1e-9 + 1e-9 * abs(d):
        return False
    Aw, Bw = A.world(), B.world()
    tol = 1e-6
    on_a = max(P.contains_point_margin(p1) for P in Aw) >= -tol
    on_b = max(P.contains_point_margin(p2) for P in Bw) >= -tol
    return bool(on_a and on_b and abs(float(np.linalg.norm(p1 - p2)) - d) <= 1e-6 + 1e-6 * d)


def _as_plain_boxes(A, B):
    """The two objects with any `initial_rotation` dropped (what the planar fast paths assume)."""
    from rt import geomgen as gg

    solid, _src = gg._primitive("box")
    plain = gg.ShapeSpec("box", solid, "BoxShape()", True)
    return [plain.world(o.dims, o.pos, o.ypr) if o.spec.kind == "box" else o.world() for o in (A, B)]


def classify(kind, detail):
    """Mechanism keys for genuine defects.  Each key is given only when the mechanism is *confirmed* on the case
    (the wrong number / answer is reproduced from the hypothesised cause); anything else stays unclassified."""
    from rt import geomoracle as go

    A, B = detail["A"], detail["B"]
    if kind in ("mindist_bracket", "intersects", "mindist_positive_overlap") and detail.get("planar_exit"):
        # Object._isPlanarBox only looks at the class of the shape and at pitch/roll of the object: a BoxShape
        # built with `initial_rotation` is not a box aligned with the object's frame, yet takes the 2D fast paths.
        # Confirmed when the answer is the exact answer for the same two objects without their initial_rotation.
        if any("initial_rotation" in o.spec.params for o in (A, B)):
            Wa, Wb = _as_plain_boxes(A, B)
            if kind == "intersects":
                t2, _ = go.overlap(Wa, Wb)
                if t2 is None or t2 == detail["answer"]:
                    return "planar-box.ignores-initial-rotation"
            else:
                lo, hi = go.distance_bracket(Wa, Wb)
                # the planar path reports the 2D distance of the footprints; with equal z that is the 3D gap
                if lo - 1e-6 <= detail["d"] <= hi + 1e-6:
                    return "planar-box.ignores-initial-rotation"
        return None
    if kind == "mindist_positive_overlap":
        # FCL's distance with a triangle-soup (BVH) model is a surface-to-surface distance: when one object lies
        # wholly inside the other's material the surfaces do not touch and a positive distance is reported.
        # Confirmed when FCL run on the oracle's own geometry reports the same number.
        if (not A.spec.convex) or (not B.spec.convex):
            refs = _fcl_reference_distance(A, B)
            if any(abs(ref - detail["d"]) <= 1e-6 + 1e-3 * abs(ref) for ref in refs):  # (GJK answers move by ~1e-5 relative with vertex order)
                return "mindist.surface-distance-when-enclosed"
        return None
    if kind == "mindist_bracket":
        # FCL 0.7 GJK distance (used whenever at least one side is an fcl.Convex) stops early: it returns the
        # distance between two points that do lie on the two objects but are not the closest pair (an
        # over-estimate).  Confirmed when FCL run on the oracle's own geometry reports the same number.
        if (A.spec.convex or B.spec.convex) and detail["over"] and detail["general"]:
            refs = _fcl_reference_distance(A, B)
            if any(abs(ref - detail["d"]) <= 1e-6 + 1e-3 * abs(ref) for ref in refs):
                return "mindist.fcl-gjk-overestimate"
            if _fcl_pair_is_feasible_not_minimal(detail["a"], detail["b"], A, B, detail["d"]):
                return "mindist.fcl-gjk-overestimate"
    return None


def _exits(tr, fn):
    tr.begin()
    try:
        val = fn()
        err = None
    except Exception as e:  # noqa
        val = None
        err = f"{type(e).__name__}: {str(e)[:160]}"
    ev = tr.end()
    return val, err, ev


def run_program(seed, shard, index, tr, res, bump, only_case=None):
    import scenic  # noqa
    from rt import geomoracle as go
    from rt import su
    from scenic.core.regions import MeshVolumeRegion

    prog = gen_program(seed, shard, index)
    try:
        scenario = su.compile_scenic(prog["source"])
        scene, _ = scenario.generate(maxIterations=5, verbosity=0)
    except Exception as e:
        bump("program_failures")
        res["violations"].append(
            {"key": None, "what": f"program failed: {type(e).__name__}: {str(e)[:200]}", "witness": {"seed": seed, "shard": shard, "index": index, "case": "program"}}
        )
        return
    bump("programs")
    if len(res["samples"]) < 1:
        res["samples"].append({"program_equivalent_explicit_form": prog["explicit"][:3000], "program_as_run": prog["source"], "pairs": len(prog["pairs"]), "containments": len(prog["conts"])})
    byname = {}
    names = [o.name for o in prog["objs"]]
    if len(scene.objects) != len(names):
        res["violations"].append({"key": None, "what": "scene has a different number of objects than the program", "witness": {"seed": seed, "shard": shard, "index": index, "case": "program"}})
        return
    for o, so in zip(prog["objs"], scene.objects):
        byname[o.name] = so
        # read-back sanity (the oracle uses the *specified* pose)
        p = so.position
        if max(abs(p[k] - o.pos[k]) for k in range(3)) > 1e-12 or abs(so.width - o.dims[0]) > 1e-12:
            res["violations"].append({"key": None, "what": f"object {o.name} not created at the specified pose/size", "witness": {"seed": seed, "shard": shard, "index": index, "case": "program"}})
            return
    # monitor: the occupied space Scenic built is the specified solid (mesh vertices inside the oracle's union,
    # same bounding box) -- checks _scaledShape / shared occupiedSpace / transform composition
    for o in prog["objs"]:
        so = byname[o.name]
        W = o.world()
        try:
            mv = np.asarray(so.occupiedSpace.mesh.vertices)
        except Exception as e:  # noqa
            res["violations"].append({"key": None, "what": f"occupiedSpace of {o.name} raised {type(e).__name__}: {e}", "witness": {"seed": seed, "shard": shard, "index": index, "case": "program", "O": o.desc()}})
            continue
        allv = np.vstack([P.V for P in W])
        scale = max(1.0, float(np.abs(allv).max()))
        bad = max(np.abs(mv.min(axis=0) - allv.min(axis=0)).max(), np.abs(mv.max(axis=0) - allv.max(axis=0)).max())
        if len(mv) <= 700:
            out = max(min(-P.contains_point_margin(v) for P in W) for v in mv)
        else:
            out = 0.0
        bump("occupied_space_checks")
        if bad > 2e-6 * scale or out > 2e-6 * scale:
            res["violations"].append({"key": None, "what": f"occupiedSpace mesh of a {o.spec.kind} ({o.mode}) differs from the specified solid: bounds off by {bad:.3g}, vertex outside by {out:.3g}", "witness": {"seed": seed, "shard": shard, "index": index, "case": "program", "O": o.desc()}})
    op_i = scene.params["op_intersects"]
    op_c = scene.params["op_in"]

    def viol(case, what, extra, key=None):
        w = {"seed": seed, "shard": shard, "index": index, "case": case}
        w.update(extra)
        res["violations"].append({"key": key, "what": what, "witness": w})

    def count_exits(ev, decided_only=True):
        for q, label, rv in ev:
            bump(f"exit.{q}.{label}")
            if label in ("p3_convex_result", "p4_interior_point", "p5_boolean", "planar_polygons", "p2_convex_vertices", "exact_projection", "hull_inside"):
                bump(f"exit.{q}.{label}.{rv}")

    # ---- pairs ------------------------------------------------------------------------------
    for k, (A, B, meta) in enumerate(prog["pairs"]):
        case = f"pair{k}"
        if only_case and only_case != case:
            continue
        a, b = byname[A.name], byname[B.name]
        Aw, Bw = A.world(), B.world()
        truth, info = go.overlap(Aw, Bw)
        res["evaluations"] += 1
        bump("pairs")
        bump(f"stratum.{meta['stratum']}")
        bump(f"mode.{A.mode}+{B.mode}")
        cA, rA = _radius(Aw)
        cB, rB = _radius(Bw)
        spheres_overlap = np.linalg.norm(cA - cB) < rA + rB
        desc = {"A": A.desc(), "B": B.desc(), "stratum": meta["stratum"], "oracle": truth, "info": {k2: (None if v is None else float(v)) for k2, v in info.items()}}
        if truth is None:
            bump("pairs_near_touching")
            res["skipped"]["near-touching pair"] = res["skipped"].get("near-touching pair", 0) + 1
        else:
            bump("pairs_definite_overlap" if truth else "pairs_definite_disjoint")
            if spheres_overlap:
                res["nontrivial"].append(su.h([meta["stratum"], A.desc(), B.desc()]))
        use_op = k % 2 == 1
        r1, e1, ev1 = _exits(tr, (lambda: op_i(a, b)) if use_op else (lambda: a.intersects(b)))
        count_exits(ev1)
        if use_op:
            bump("operator_intersects_calls")
        r2, e2, ev2 = _exits(tr, lambda: b.intersects(a))
        count_exits(ev2)
        exits1 = [f"{q.split('.')[-2]}.{q.split('.')[-1]}:{l}:{rv}" for q, l, rv in ev1]
        exits2 = [f"{q.split('.')[-2]}.{q.split('.')[-1]}:{l}:{rv}" for q, l, rv in ev2]
        desc["exits"] = exits1
        desc["exits_rev"] = exits2
        pair_key = None
        for who, r, e in (("A.intersects(B)", r1, e1), ("B.intersects(A)", r2, e2)):
            if e is not None:
                bump("scenic_exceptions")
                if truth is not None:
                    viol(case, f"[{meta['stratum']}] {who} raised {e} (oracle: overlap={truth})", desc)
                continue
            if truth is not None and bool(r) != truth:
                bump("disagreements")
                ex = exits1 if who[0] == "A" else exits2
                key = classify("intersects", {"A": A, "B": B, "answer": bool(r), "planar_exit": any(":planar_" in e for e in ex)})
                pair_key = key
                viol(case, f"[{meta['stratum']}] {A.spec.kind}/{B.spec.kind} {who} = {bool(r)} but exact geometry says overlap={truth} ({_fmt(info)}) exits={ex}", desc, key)
        if e1 is None and e2 is None:
            bump("symmetry_checked")
            if bool(r1) != bool(r2) and truth is None:
                bump("asymmetric_near_touching")
            if bool(r1) != bool(r2) and truth is not None:
                pass  # already reported above through the oracle
        # program-level operator result on fixed objects
        pn = f"pi_{A.name}"
        if pn in scene.params["pi"] and truth is not None:
            bump("operator_in_program")
            if bool(scene.params["pi"][pn]) != truth:
                viol(case, f"`{A.name} intersects {B.name}` evaluated in the program = {scene.params['pi'][pn]} but overlap={truth}", desc, pair_key)
        # minimum distance
        d, ed, evd = _exits(tr, lambda: a.minimumDistanceTo(b))
        count_exits(evd)
        desc["exits_dist"] = [f"{l}" for q, l, rv in evd]
        if ed is not None:
            bump("scenic_exceptions")
            if truth is not None:
                viol(case, f"minimumDistanceTo raised {ed}", desc)
        elif truth is True:
            bump("mindist_compared")
            bump("mindist_overlap_cases")
            if d > 0:
                bump("disagreements")
                key = classify("mindist_positive_overlap", {"A": A, "B": B, "d": d, "planar_exit": desc["exits_dist"] == ["planar_2d"]})
                viol(case, f"[{meta['stratum']}] {A.spec.kind}/{B.spec.kind} minimumDistanceTo = {d:.6g} > 0 although the objects definitely overlap (depth {info['depth']:.3g}) exits={desc['exits_dist']}", desc, key)
        elif truth is False:
            lo, hi = go.distance_bracket(Aw, Bw)
            bump("mindist_compared")
            desc["bracket"] = [lo, hi]
            tol = 1e-4 + 1e-4 * hi
            if hi - lo > 1e-5 * max(1.0, hi):
                bump("mindist_wide_bracket")
            if not (lo - tol <= d <= hi + tol):
                bump("disagreements")
                relerr = max(lo - d, d - hi) / max(hi, 1e-12)
                key = classify("mindist_bracket", {"A": A, "B": B, "a": a, "b": b, "d": d, "planar_exit": desc["exits_dist"] == ["planar_2d"], "over": d > hi, "general": desc["exits_dist"] == ["general"]})
                viol(case, f"[{meta['stratum']}] {A.spec.kind}/{B.spec.kind} minimumDistanceTo = {d:.9g} outside the certified bracket [{lo:.9g}, {hi:.9g}] (relative error {relerr:.2g}) exits={desc['exits_dist']}", desc, key)
        # shortcut-free re-evaluation: plain MeshVolumeRegions of the world meshes
        if k % 3 == 0 and truth is not None:
            def direct():
                ra = MeshVolumeRegion(mesh=a.occupiedSpace.mesh.copy(), centerMesh=False)
                rb = MeshVolumeRegion(mesh=b.occupiedSpace.mesh.copy(), centerMesh=False)
                return ra.intersects(rb)

            r3, e3, ev3 = _exits(tr, direct)
            bump("direct_region_reevaluations")
            for q, label, rv in ev3:
                bump(f"exit_direct.{q}.{label}")
            if e3 is None and bool(r3) != truth:
                bump("disagreements")
                viol(case, f"[{meta['stratum']}] MeshVolumeRegion(world mesh A).intersects(MeshVolumeRegion(world mesh B)) = {bool(r3)} but overlap={truth} exits={[l for _, l, _ in ev3]}", desc)

    # ---- containment ------------------------------------------------------------------------
    for k, (O, cont, meta) in enumerate(prog["conts"]):
        case = f"cont{k}"
        if only_case and only_case != case:
            continue
        o = byname[O.name]
        Ow = O.world()
        truth = go.tree_contains(cont["tree"], Ow)
        res["evaluations"] += 1
        bump("containments")
        bump(f"container.{cont['kind']}")
        bump(f"container_type.{type(cont['region']).__name__}")
        desc = {"O": O.desc(), "container": cont["desc"], "oracle": truth}
        if truth is None:
            bump("contain_near_boundary")
            res["skipped"]["near-boundary containment"] = res["skipped"].get("near-boundary containment", 0) + 1
        else:
            bump("contain_definite_in" if truth else "contain_definite_out")
            res["nontrivial"].append(su.h(["cont", O.desc(), cont["desc"]]))
        reg = cont["region"]
        use_op = k % 2 == 1
        r, e, ev = _exits(tr, (lambda: op_c(o, reg)) if use_op else (lambda: reg.containsObject(o)))
        count_exits(ev)
        exits = [f"{q.split('.')[-2]}.{q.split('.')[-1]}:{l}:{rv}" for q, l, rv in ev]
        desc["exits"] = exits
        key = None
        if e is None and "initial_rotation" in O.spec.params and O.ypr[1] == 0 and O.ypr[2] == 0 and any("PolygonalFootprintRegion" in x for x in exits):
            # Object._boundingPolygon fast case; confirmed when the answer is the exact one for the unrotated box
            t2 = go.tree_contains(cont["tree"], _as_plain_boxes(O, O)[0])
            if t2 is None or t2 == bool(r):
                key = "planar-box.ignores-initial-rotation"
        if e is not None:
            bump("scenic_exceptions")
            if truth is not None:
                viol(case, f"[{cont['kind']}] containsObject raised {e} (oracle: contained={truth})", desc)
        elif truth is not None and bool(r) != truth:
            bump("disagreements")
            viol(case, f"[{cont['kind']}:{type(reg).__name__}] {O.spec.kind} containsObject = {bool(r)} but exact geometry says contained={truth} exits={exits}", desc, key)
        pn = f"pc_{O.name}"
        if pn in scene.params["pc"] and truth is not None:
            bump("operator_in_program")
            if bool(scene.params["pc"][pn]) != truth:
                viol(case, f"`{O.name} in region` evaluated in the program = {scene.params['pc'][pn]} but contained={truth}", desc, key)
        # object intersects region (leaf regions only)
        # (a PolygonalRegion is the flat polygon at height z; a footprint is the infinite prism)
        if cont["tree"][0] in ("vol", "foot"):
            itree = cont["tree"]
            if cont["kind"] == "polygonal":
                itree = ("flat", cont["tree"][1], cont["tree"][2], cont["desc"]["z"])
            ot = go.tree_overlaps(itree, Ow)
            if ot is not None:
                ri, ei, evi = _exits(tr, lambda: o.intersects(reg))
                bump("object_region_intersects")
                for q, label, rv in evi:
                    bump(f"exit_objreg.{q}.{label}")
                if ei is not None:
                    bump("scenic_exceptions")
                    viol(case, f"[{cont['kind']}] obj.intersects(region) raised {ei} (oracle: {ot})", desc)
                elif bool(ri) != ot:
                    bump("disagreements")
                    okey = None
                    if cont["desc"].get("centerMesh") is False and ot is True and any(l == "p1_spheres_apart" for _, l, _ in evi):
                        # pass 1 measures the centre distance from region.position but the region's circumradius
                        # about the world origin (regions.py MeshVolumeRegion._circumradius, plain-mesh branch)
                        okey = "meshregion.circumradius-about-origin"
                    if "initial_rotation" in O.spec.params and any(l == "planar_vs_polygonalregion" for _, l, _ in evi):
                        t2 = go.tree_overlaps(itree, _as_plain_boxes(O, O)[0])
                        if t2 is None or t2 == bool(ri):
                            okey = "planar-box.ignores-initial-rotation"
                    viol(case, f"[{cont['kind']}:{type(reg).__name__}] {O.spec.kind} obj.intersects(region) = {bool(ri)} but exact geometry says {ot} exits={[l for _, l, _ in evi]}", desc, okey)


def _fmt(info):
    return ", ".join(f"{k}={v:.3g}" for k, v in info.items() if v is not None)


def run_shard(spec):
    from rt import geomoracle as go
    from rt import trace

    res = {"evaluations": 0, "nontrivial": [], "counters": {}, "samples": [], "violations": [], "skipped": {}}
    C = res["counters"]

    def bump(k, n=1):
        C[k] = C.get(k, 0) + n

    from rt import geomgen

    geomgen.calm_thread_pools()
    hang = geomgen.hang_dump(PROPERTY, spec)
    tr = trace.ExitTracer(TARGETS)
    tr.install()
    # oracle self-consistency on this shard's seed (cheap)
    st = go.selftest(n=20, seed=spec["seed"] * 1000 + spec["shard"])
    bump("oracle_selftest_cases", st["cases"])
    for i in range(spec["programs"]):
        run_program(spec["seed"], spec["shard"], i, tr, res, bump)
    tr.uninstall()
    geomgen.hang_dump_done(hang)
    bump("oracle_lps", go.STATS["lp"])
    bump("oracle_gjk_nonconverged", go.STATS["gjk_nonconverged"])
    if len(res["violations"]) > 60:
        res["violations"] = res["violations"][:60]
    return res


def replay(w):
    from rt import trace

    res = {"evaluations": 0, "nontrivial": [], "counters": {}, "samples": [], "violations": [], "skipped": {}}

    def bump(k, n=1):
        pass

    tr = trace.ExitTracer(TARGETS)
    tr.install()
    case = w.get("case")
    run_program(w["seed"], w["shard"], w["index"], tr, res, bump, only_case=None if case == "program" else case)
    tr.uninstall()
    return res["violations"]


MANIFEST_ENTRY = {
    "technique": "runtime monitoring: API-boundary calls on objects created by real Scenic programs + sys.monitoring exit recorder, decided by an independent certified solid-geometry oracle (LP / GJK brackets on convex pieces)",
    "text": "Generated programs create pairs of objects (box, cylinder, cone, spheroid, random hulls, non-convex and multi-body unions; fixed, position-sampled and dimension-sampled) placed at signed offsets around first contact, and objects around the boundary of convex / non-convex / footprint-with-holes / composed containers. Object.intersects (both argument orders), the intersects/in operators, Region.containsObject, obj.intersects(region), minimumDistanceTo and a shortcut-free re-evaluation on plain MeshVolumeRegions are compared with the oracle's definite answers; the exit of every multi-pass procedure that decided is recorded and each important exit has a minimum count. Bounded exploration.",
    "note": "Trusts scipy linprog/qhull and numpy; trimesh/manifold only as input constructors whose output is validated against the oracle's pieces. Configurations within 1e-4 of touching are skipped and counted. Distances are compared with tolerance 1e-4 abs + 1e-4 rel.",
}


# thorough-tier floors: the quick-tier floors scaled by a conservative fraction of the size ratio of the two tiers
MIN_COUNTERS["thorough"] = {k: int(v * 7) for k, v in MIN_COUNTERS["quick"].items()}
