"""C10 — the front end is total: a scenario or a located Scenic syntax error, never a crash.

Invariant at the API boundary under hostile workloads: every case (a token/byte-level mutant of a Scenic
program from the repository, a Scenic-only expression spliced into a Python binding position, a
truncation, or a form generated from the language reference) is pushed through the real
parse_string -> compileScenicAST -> ast.unparse -> compile() sequence exactly as translator.compileStream
does it; a sample also goes through the full scenic.scenarioFromString.  The monitor checks the exception
taxonomy, the reported line, a logical step budget and the compiler's global state afterwards.
"""

import ast
import os
import random
import re
import signal
import sys

PROPERTY = "C10"
LEVEL = "exploration"
RULE = (
    "seeds = every .scenic file of the repository + every string argument in tests/syntax/*.py + every form "
    "obtained by expanding the section headings of docs/reference/{operators,specifiers,statements}.rst; "
    "cases = seeds as they are, 1-3 stacked seeded mutations (token delete/insert/replace/swap/duplicate, "
    "keyword substitution, re-indent, line join/split, truncation, range deletion, byte noise), truncation at "
    "every token boundary of short seeds, and the exhaustive product of 150+ binding/pattern/decorator/"
    "annotation/statement carriers x 48 Scenic-only expressions.  A case is non-trivial when it is a distinct "
    "text that reached a definite outcome (accepted or rejected); distinct = distinct texts."
)
ASSUMPTIONS = [
    "the front end is driven as translator.compileStream drives it (parse_string, compileScenicAST, "
    "ast.unparse, compile) without executing; the executing path scenarioFromString is used only on "
    "side-effect-free seeds and their mutants",
    "a Scenic syntax error names a line of the input when 1 <= lineno <= number of lines + 1 (EOF)",
    "RecursionError / MemoryError are resource exhaustion (counted separately; generator nesting is capped)",
    "hang = more than STEP_BUDGET tokenizer steps per input token (logical budget); the wall-clock alarm only "
    "yields inconclusive cases",
    "documented precedence = the explicitly parenthesised reading given in the reference compiles to the "
    "same Python tree",
    "run-time errors of executed user code (NameError, TypeError, InvalidScenarioError, ...) in the "
    "scenarioFromString layer are not front-end failures; only the exception taxonomy of syntax errors and "
    "the veneer state are judged there",
]
MIN_COUNTERS = {
    "quick": {
        "import_layer_cases": 100,
        "cases": 9000,
        "accepted": 1500,
        "rejected": 4000,
        "splice_cases": 3500,
        "doc_forms_accepted": 250,
        "precedence_pairs_equal": 30,
        "hostile_cases": 235,
        "full_layer_veneer_checks": 300,
        "truncation_cases": 1500,
    },
    "thorough": {
        "cases": 80000,
        "accepted": 10000,
        "rejected": 30000,
        "splice_cases": 12000,
        "doc_forms_accepted": 250,
        "precedence_pairs_equal": 30,
        "hostile_cases": 235,
        "full_layer_veneer_checks": 3000,
        "truncation_cases": 8000,
    },
}
EXHAUSTIVE = {
    "quick": "every second carrier x Scenic-only-expression splice; all documented forms with every truncation; all precedence pairs",
    "thorough": "all carrier x Scenic-only-expression splices; all documented forms; all precedence pairs",
}

STEP_BUDGET_PER_TOKEN = 4000  # measured worst case on the unchanged tree is reported in the evidence
STEP_BUDGET_BASE = 200000
CASE_ALARM_S = 60
MAX_NEST = 12

# (unparenthesised, explicitly parenthesised, where it is documented)
PRECEDENCE = [
    ("require x implies y or z", "require x implies (y or z)", "internals/compiler.rst: implies binds less tightly than or"),
    ("require x or y implies z", "require (x or y) implies z", "internals/compiler.rst"),
    ("require x and y implies z and w", "require (x and y) implies (z and w)", "internals/compiler.rst"),
    ("require not x implies y", "require (not x) implies y", "internals/compiler.rst"),
    ("new Object beyond A by distance from B", "new Object beyond A by (distance from B)", "reference/general.rst soft keywords"),
    ("x = 30 deg relative to h", "x = (30 deg) relative to h", "operators.rst: {direction} relative to {direction}; tutorial `30 deg relative to roadDirection`"),
    ("x = -30 deg relative to h", "x = ((-30) deg) relative to h", "operators.rst"),
    ("x = P offset by 1 @ 2", "x = P offset by (1 @ 2)", "operators.rst: {vector} offset by {vector}; tutorial `ego offset by a @ b`"),
    ("x = F at 1 @ 2", "x = F at (1 @ 2)", "operators.rst: {vectorField} at {vector}"),
    ("x = P offset along 30 deg by 1 @ 2", "x = P offset along (30 deg) by (1 @ 2)", "operators.rst"),
    ("x = distance to P < 5", "x = (distance to P) < 5", "operators.rst scalar operators used in comparisons"),
    ("x = distance from P to Q > 5 and b", "x = ((distance from P to Q) > 5) and b", "operators.rst"),
    ("x = angle to P + 1", "x = angle to (P + 1)", "grammar note in syntax guide: prefix operators extend as far as possible"),
    ("x = a can see b and c", "x = (a can see b) and c", "operators.rst boolean operators"),
    ("x = not a can see b", "x = not (a can see b)", "operators.rst boolean operators"),
    ("x = a can see b or c can see d", "x = (a can see b) or (c can see d)", "operators.rst"),
    ("x = R visible from P", "x = (R) visible from (P)", "operators.rst"),
    ("x = visible R", "x = visible (R)", "operators.rst"),
    ("x = front of obj offset by 1 @ 2", "x = (front of obj) offset by (1 @ 2)", "operators.rst OrientedPoint operators"),
    ("x = Range(1, 2) @ Range(3, 4)", "x = (Range(1, 2)) @ (Range(3, 4))", "tutorial fundamentals"),
    ("x = Range(-30, 30) deg", "x = (Range(-30, 30)) deg", "tutorial fundamentals"),
    ("x = a.b deg", "x = (a.b) deg", "operators.rst {scalar} deg"),
    ("x = a[0] deg", "x = (a[0]) deg", "operators.rst {scalar} deg"),
    ("x = -2 @ 3", "x = (-2) @ 3", "reference/data.rst: the vector -2 @ 3"),
    ("new Object at 1 @ 2, facing 30 deg", "new Object at (1 @ 2), facing (30 deg)", "specifiers.rst"),
    ("new Object left of P by 0.5, with foo 1 + 2", "new Object left of (P) by (0.5), with foo (1 + 2)", "specifiers.rst"),
    ("new Object facing toward P offset by 1 @ 2", "new Object facing toward (P offset by (1 @ 2))", "specifiers.rst"),
    ("new Object following F from P for 3 + s", "new Object following (F) from (P) for (3 + s)", "specifiers.rst"),
    ("new Object beyond P by 1 @ 2 from Q", "new Object beyond (P) by (1 @ 2) from (Q)", "specifiers.rst"),
    ("new Object apparently facing 30 deg from P", "new Object apparently facing (30 deg) from (P)", "specifiers.rst"),
    ("require always X implies Y", "require always (X implies Y)", "operators.rst implies: `require always X implies Y` = at every step where X holds Y holds"),
    ("require (X until Y) or (always X and not Y)", "require (X until Y) or (always (X and (not Y)))", "operators.rst until: weak until"),
    ("require always (X implies next X)", "require always (X implies (next X))", "operators.rst next"),
    ("require (always X) and (eventually Y)", "require ((always X)) and ((eventually Y))", "operators.rst temporal operators, parenthesised sub-formulas"),
    ("require always x > 1", "require always (x > 1)", "operators.rst temporal operators"),
    ("require always x and y", "require always (x and y)", "operators.rst temporal operators (prefix operators apply to the whole formula that follows)"),
    ("require x until y or z", "require x until (y or z)", "operators.rst temporal operators"),
    ("require eventually x implies y", "require eventually (x implies y)", "operators.rst temporal operators"),
    ("require a can see b until c", "require (a can see b) until c", "operators.rst"),
    ("terminate after 3 + s seconds", "terminate after (3 + s) seconds", "statements.rst"),
    ("record distance to P as d", "record (distance to P) as d", "statements.rst"),
    ("param p = 30 deg, q = 1 @ 2", "param p = (30 deg), q = (1 @ 2)", "statements.rst"),
]
# pairs above whose `documented' parenthesisation is only our reading of examples: a disagreement is
# reported but under a separate, explicit key
PRECEDENCE_SOFT = {"x = angle to P + 1", "require x until y or z"}


# ------------------------------------------------------------------------------------------------
# driving the real front end


class _Budget(BaseException):
    pass


class _Alarm(BaseException):
    pass


_installed = {}


def _install():
    """Count tokenizer steps (logical clock) by substituting the Tokenizer class the parser module uses."""
    if _installed:
        return _installed
    import scenic.syntax.parser as P

    Base = P.Tokenizer

    class CountingTokenizer(Base):
        steps = 0
        limit = 10**12

        def getnext(self):
            CountingTokenizer.steps += 1
            if CountingTokenizer.steps > CountingTokenizer.limit:
                raise _Budget()
            return Base.getnext(self)

    P.Tokenizer = CountingTokenizer
    _installed["tok"] = CountingTokenizer

    def on_alarm(signum, frame):
        raise _Alarm()

    signal.signal(signal.SIGALRM, on_alarm)
    return _installed


def nlines(text):
    return len(re.split(r"\r\n|\r|\n", text))


def front_end(text, filename="<string>"):
    """parse + compile + unparse + compile(), as compileStream does, without executing.
    -> dict(kind=ok|syntax|resource|crash|budget|alarm, stage, exc, steps)"""
    from scenic.core.errors import ScenicSyntaxError
    from scenic.syntax import translator
    from scenic.syntax.compiler import compileScenicAST
    from scenic.syntax.parser import parse_string

    T = _install()["tok"]
    T.steps = 0
    ntok = max(1, len(text) // 3)
    T.limit = STEP_BUDGET_BASE + STEP_BUDGET_PER_TOKEN * ntok
    stage = "parse"
    signal.alarm(CASE_ALARM_S)
    try:
        tree = parse_string(text, "exec", filename=filename)
        stage = "compile"
        out, reqs = compileScenicAST(tree, filename=filename)
        stage = "unparse"
        translator.astToSource(out)
        stage = "pycompile"
        translator.compileTranslatedTree(out, filename)
        return {"kind": "ok", "stage": "done", "exc": None, "steps": T.steps, "tree": out}
    except ScenicSyntaxError as e:
        return {"kind": "syntax", "stage": stage, "exc": e, "steps": T.steps}
    except (RecursionError, MemoryError) as e:
        return {"kind": "resource", "stage": stage, "exc": e, "steps": T.steps}
    except _Budget as e:
        return {"kind": "budget", "stage": stage, "exc": e, "steps": T.steps}
    except _Alarm as e:
        return {"kind": "alarm", "stage": stage, "exc": e, "steps": T.steps}
    except Exception as e:  # noqa
        return {"kind": "crash", "stage": stage, "exc": e, "steps": T.steps}
    finally:
        signal.alarm(0)
        T.limit = 10**12


def _where(exc):
    import os
    import traceback

    tb = traceback.extract_tb(exc.__traceback__)
    if not tb:
        return "?"
    fr = tb[-1]
    return f"{os.path.basename(fr.filename)}:{fr.name}"


def _stack_names(exc):
    import traceback

    return [fr.name for fr in traceback.extract_tb(exc.__traceback__)]


def _lines_without_token_start(text):
    import io
    import tokenize

    have = set()
    try:
        for tok in tokenize.generate_tokens(io.StringIO(text).readline):
            if tok.type not in (tokenize.NL, tokenize.COMMENT, tokenize.ENDMARKER) and tok.string.strip():
                have.add(tok.start[0])
    except Exception:
        pass
    last = max(have) if have else 0
    return {i for i in range(1, last + 1) if i not in have}


def crash_key(exc, stage, text=""):
    """Narrow, mechanism-based classification of an escaped internal exception."""
    msg = str(exc)
    where = _where(exc)
    if isinstance(exc, AttributeError) and "'TokenInfo' object has no attribute 'lineno'" in msg:
        return "fstring-conversion-tokeninfo-lineno"
    if isinstance(exc, ValueError) and msg.startswith("unexpected expression in assignment") and "get_expr_name" in where:
        return "get_expr_name-scenic-node"
    # behavior/scenario locals are rewritten to attributes of the behavior object, also where Python's
    # compiler insists on a plain Name
    if isinstance(exc, TypeError) and "AnnAssign with simple non-Name target" in msg and stage == "pycompile":
        return "behavior-local-rewrite:AnnAssign"
    if isinstance(exc, TypeError) and "TypeAlias with non-Name name" in msg and stage == "pycompile":
        return "behavior-local-rewrite:TypeAlias"
    if isinstance(exc, TypeError) and "NamedExpr target must be a Name" in msg and stage == "pycompile":
        return "behavior-local-rewrite:NamedExpr"
    if isinstance(exc, SyntaxError) and stage == "parse" and "literal_eval" in _stack_names(exc):
        return "literal-eval-raw-syntaxerror"
    if isinstance(exc, SystemError) and "\x00" in text and stage == "parse":
        return "nul-byte-tokenizer-systemerror"
    if isinstance(exc, KeyError) and where == "tokenizer.py:get_lines" and exc.args and isinstance(exc.args[0], int):
        # baseline mechanism: the span of the error crosses a line on which no significant token starts
        # (blank / comment-only line, or the inside of a multi-line string), which pegen's Tokenizer never records
        if exc.args[0] in _lines_without_token_start(text):
            return "error-span-crosses-line-without-token"
    m = re.fullmatch(r"'(\w+)' object has no attribute '(?:end_)?(?:lineno|col_offset)'", msg)
    if isinstance(exc, AttributeError) and m and stage == "parse" and m.group(1) != "TokenInfo":
        return "scenic-node-missing-locations:" + m.group(1)
    return None


def judge_front(text, r):
    """-> None | (key, what)"""
    k = r["kind"]
    if k in ("ok", "resource", "alarm"):
        return None
    if k == "budget":
        return ("logical-step-budget-exceeded", f"more than {STEP_BUDGET_PER_TOKEN} tokenizer steps per token in stage {r['stage']}")
    e = r["exc"]
    if k == "crash":
        return (crash_key(e, r["stage"], text), f"internal {type(e).__name__} escaped from stage {r['stage']} at {_where(e)}: {str(e)[:160]}")
    # Scenic syntax error: must name a line inside the input
    ln = getattr(e, "lineno", None)
    n = nlines(text)
    if not isinstance(ln, int) or isinstance(ln, bool):
        return (syntax_key(e, r["stage"], "noline"), f"{type(e).__name__} without a line number (lineno={ln!r}) from stage {r['stage']}: {str(e)[:120]}")
    if not (1 <= ln <= n + 1):
        return (syntax_key(e, r["stage"], "range"), f"{type(e).__name__} names line {ln} but the input has {n} line(s) (stage {r['stage']}): {str(e)[:120]}")
    return None


def syntax_key(e, stage, what):
    if what == "noline" and "Missing 'monitor' keyword after 'require'" in str(e):
        return "missing-monitor-keyword-error-without-line"
    return None


# ------------------------------------------------------------------------------------------------
# the executing layer

CLEAN = {
    "isActive": False,
    "activity": 0,
    "currentScenario": "None",
    "scenarioStack": 0,
    "evaluatingRequirement": False,
    "evaluatingGuard": False,
    "currentSimulation": "None",
    "currentBehavior": "None",
    "runningScenarios": 0,
    "lockedParameters": 0,
    "lockedModel": "None",
    "mode2D": False,
}

_UNSAFE = re.compile(
    r"\b(import|model|open|exec|eval|compile|exit|quit|input|while|simulator|verifai|localPath|subprocess|"
    r"os|sys|shutil|pathlib|socket|breakpoint|help|globals|locals|getattr|setattr|delattr|__\w+__|"
    r"Workspace|RoadDirection|Network|fromFile|\w*[Pp]ath\w*|file|write|remove|unlink|system|fork|kill|sleep|time)\b"
)


# programs that always go through the executing layer (errors raised at different phases of compilation)
FIXED_FULL = [
    "ego = new Object\n",
    "ego = new Object\nrequire ego.x >\n",  # parse error
    "ego = new Object\nx = undefined_name\n",  # run-time error while executing the module
    "ego = new Object\nrequire undefined_name > 0\n",
    "monitor Monitor():\n    wait\nego = new Object\nrequire Monitor()\n",  # syntax error raised at run time
    "monitor Monitor():\n    wait\nego = new Object\nrequire monitor Monitor()\n",
    "scenario Main():\n    setup:\n        ego = new Object\n        x = undefined_name\n",  # error inside a setup block
    "scenario Main():\n    setup:\n        ego = new Object\n        require ego.x >\n",
    "scenario Main():\n    precondition: undefined_name\n    setup:\n        ego = new Object\n",
    "scenario Sub():\n    setup:\n        x = undefined_name\nscenario Main():\n    setup:\n        ego = new Object\n    compose:\n        do Sub()\n",
    "behavior B():\n    x: int = 3\n    wait\nego = new Object with behavior B\n",  # compile() failure
    "class A:\n    foo: self\nego = new A\n",  # compiler-raised syntax error
    "ego = new Object at 1 @ 2, at 3 @ 4\n",  # specifier error
    "ego = new Object\nego2 = new Object\n",  # invalid scenario (intersecting objects)
    "param p = 1\nparam p = undefined_name\n",
    "ego = new Object\nterminate after undefined_name seconds\n",
    "x = 1 +\n",
    "",
]


def side_effect_free(text):
    return len(text) < 2500 and not _UNSAFE.search(text)


def reset_veneer():
    import scenic.syntax.veneer as v

    v.activity = 0
    v.scenarioStack.clear()
    v.currentScenario = None
    v.evaluatingRequirement = False
    v.evaluatingGuard = False
    v.currentSimulation = None
    v.currentBehavior = None
    v.runningScenarios = []
    v.lockedParameters = set()
    v.lockedModel = None
    v.scenarios = []
    v._globalParameters = {}
    if v.mode2D:
        v.mode2D = False
        v.Point, v.OrientedPoint, v.Object = v._originalConstructibles
        import scenic.core.object_types as ot

        ot.Point, ot.OrientedPoint, ot.Object = v._originalConstructibles


def full_layer(text, mode2D=False):
    """scenic.scenarioFromString under a watchdog -> dict(kind, exc, state)"""
    import scenic
    from rt import su
    from scenic.core.errors import ScenicSyntaxError

    _install()
    kind, exc = "ok", None
    signal.alarm(CASE_ALARM_S)
    try:
        scenic.scenarioFromString(text, mode2D=mode2D)
    except ScenicSyntaxError as e:
        kind, exc = "syntax", e
    except (RecursionError, MemoryError) as e:
        kind, exc = "resource", e
    except _Alarm as e:
        kind, exc = "alarm", e
    except (SyntaxError,) as e:
        kind, exc = "rawsyntax", e
    except BaseException as e:  # run-time errors of the program (incl. SystemExit from mutated code)
        kind, exc = "runtime", e
    finally:
        signal.alarm(0)
    state = su.veneer_state()
    return {"kind": kind, "exc": exc, "state": state}


_IMPDIR = [None, 0]


def import_layer(text):
    """The same text as an IMPORTED Scenic module: write it to a scratch directory on sys.path and compile a
    program importing it (errors in imported modules take a different clean-up path than errors in the top-level
    source).  Afterwards the compiler state must be clean and a follow-up compilation with params must work."""
    import shutil
    import sys
    import tempfile

    import scenic
    from rt import su

    if _IMPDIR[0] is None:
        import atexit

        _IMPDIR[0] = tempfile.mkdtemp(prefix="verif-c10-imp-")
        sys.path.insert(0, _IMPDIR[0])
        atexit.register(shutil.rmtree, _IMPDIR[0], True)
    _IMPDIR[1] += 1
    name = f"verif_c10_imp_{os.getpid()}_{_IMPDIR[1]}"
    path = os.path.join(_IMPDIR[0], name + ".scenic")
    with open(path, "w", encoding="utf-8", errors="surrogatepass") as f:
        f.write(text)
    r = full_layer(f"import {name}\nego = new Object\n")
    r["follow"] = None
    dirty = {k: v for k, v in r["state"].items() if CLEAN.get(k, v) != v}
    if not dirty and r["kind"] != "alarm":
        try:
            scenic.scenarioFromString("param a = 0\nego = new Object\n", params={"a": 1})
        except BaseException as e:  # noqa
            r["follow"] = e
    sys.modules.pop(name, None)
    try:
        os.remove(path)
    except OSError:
        pass
    return r


def judge_import(text, r):
    out = []
    dirty = {k: v for k, v in r["state"].items() if CLEAN.get(k, v) != v}
    e = r["exc"]
    if dirty and r["kind"] != "alarm":
        out.append((None, f"compiler global state left dirty after a program importing the module ended with {r['kind']} ({type(e).__name__ + ': ' + str(e)[:100] if e else 'success'}): {dirty}"))
    if r["kind"] == "rawsyntax":
        out.append((None, f"raw {type(e).__name__} escaped from an imported module: {str(e)[:160]}"))
    if r.get("follow") is not None:
        f = r["follow"]
        out.append((None, f"follow-up compilation with params failed with {type(f).__name__}: {str(f)[:120]} after importing the module ended with {r['kind']}"))
    return out


def judge_full(text, r):
    out = []
    dirty = {k: v for k, v in r["state"].items() if CLEAN.get(k, v) != v}
    if dirty and r["kind"] != "alarm":
        e = r["exc"]
        out.append(
            (
                full_state_key(r, dirty),
                f"compiler global state left dirty after scenarioFromString ended with {r['kind']}"
                f" ({type(e).__name__ + ': ' + str(e)[:100] if e else 'success'}): {dirty}",
            )
        )
    if r["kind"] == "syntax":
        j = judge_front(text, {"kind": "syntax", "exc": r["exc"], "stage": "scenarioFromString"})
        if j:
            out.append(j)
    if r["kind"] == "rawsyntax":
        e = r["exc"]
        key = "literal-eval-raw-syntaxerror" if "literal_eval" in _stack_names(e) else None
        out.append((key, f"raw {type(e).__name__} (not a Scenic syntax error) escaped scenarioFromString: {str(e)[:160]}"))
    return out


def full_state_key(r, dirty):
    return None


# ------------------------------------------------------------------------------------------------
# workload


def nesting_ok(text):
    depth = best = 0
    for ch in text:
        if ch in "([{":
            depth += 1
            best = max(best, depth)
        elif ch in ")]}":
            depth = max(0, depth - 1)
    return best <= MAX_NEST


def build_seeds():
    from rt import mutate

    files = []
    for p in mutate.scenic_files():
        try:
            files.append((p, open(p, encoding="utf-8").read()))
        except (OSError, UnicodeDecodeError):
            pass
    snippets = mutate.test_snippets()
    forms = mutate.documented_forms()
    return files, snippets, forms


def plan(tier, seed):
    n = 16 if tier == "quick" else 64
    return [{"shard": i, "nshards": n, "timeout": 1500 if tier == "quick" else 3400} for i in range(n)]


def run_shard(spec):
    from rt import mutate, su

    import os

    tier, shard, n = spec["tier"], spec["shard"], spec["nshards"]
    n *= int(os.environ.get("VERIF_C10_SUBSAMPLE", "1") or 1)  # development aid only
    rng = random.Random(spec["seed"] * 1000003 + shard)
    res = {"evaluations": 0, "nontrivial": [], "counters": {}, "samples": [], "violations": [], "skipped": {}, "extra": {}}
    C = res["counters"]
    seen_text = set()
    per_key = {}
    worst = [0.0, ""]
    cpu = {}
    import time

    def bump(k, c=1):
        C[k] = C.get(k, 0) + c

    def skip(k, c=1):
        res["skipped"][k] = res["skipped"].get(k, 0) + c

    def violation(key, what, text, layer, origin):
        bump("violations_" + (key or "unclassified"))
        sig = key or what.split(":")[0][:80]
        per_key[sig] = per_key.get(sig, 0) + 1
        if per_key[sig] > (3 if key else 2) or len(res["violations"]) > 120:
            return
        res["violations"].append(
            {"key": key, "what": f"[{layer}/{origin}] {what} | input: {text[:200]!r}", "witness": {"text": text, "layer": layer}}
        )

    def case(text, origin, mut="asis"):
        """one front-end case"""
        if not nesting_ok(text):
            skip("nesting-deeper-than-cap")
            return None
        if len(text) > 40000:
            skip("too-long")
            return None
        if text in seen_text:
            skip("duplicate-text")
            return None
        seen_text.add(text)
        t0 = time.process_time()
        r = front_end(text)
        cpu[origin] = cpu.get(origin, 0.0) + time.process_time() - t0
        res["evaluations"] += 1
        bump("cases")
        bump("mut_" + mut)
        k = r["kind"]
        if k == "ok":
            bump("accepted")
        elif k == "syntax":
            bump("rejected")
            bump("rejected_" + type(r["exc"]).__name__ + "_in_" + r["stage"])
        elif k == "resource":
            bump("resource_exhaustion")
            skip("resource-exhaustion-" + type(r["exc"]).__name__)
        elif k == "alarm":
            bump("wallclock_alarm_inconclusive")
            skip("wallclock-alarm")
        elif k == "crash":
            bump("internal_exceptions")
        if k in ("ok", "syntax"):
            res["nontrivial"].append(su.h(text))
        ratio = r["steps"] / max(1, len(text) // 3)
        if ratio > worst[0] and len(text) > 60:
            worst[0], worst[1] = ratio, text[:120]
        j = judge_front(text, r)
        if j:
            violation(j[0], j[1], text, "front", origin + "/" + mut)
        if k in ("ok", "syntax") and side_effect_free(text) and "\x00" not in text and rng.random() < (0.05 if k == "syntax" else 0.01):
            ri = import_layer(text)
            bump("import_layer_cases")
            bump("import_layer_" + ri["kind"])
            for key, what in judge_import(text, ri):
                violation(key, what, text, "import", origin + "/" + mut)
            if ri["kind"] != "alarm":
                reset_veneer()
        return r

    def mutated(text, toks=None):
        depth = 1 + (rng.random() < 0.35) + (rng.random() < 0.15)
        kinds = []
        for _ in range(depth):
            k, text = mutate.mutate(text, rng, toks=toks if not kinds else None)
            kinds.append(k)
        return kinds[0], text

    files, snippets, forms = build_seeds()
    quick = tier == "quick"
    # per-tier workload sizes (cases are ~25 ms each: the quick tier is budgeted at ~12 000 cases)
    W = {
        "doc_mutants": 2 if quick else 30,
        "snip_mutants": 2 if quick else 30,
        "snip_trunc_tokens": 12 if quick else 60,
        "file_mutants": (1, 0, 0) if quick else (12, 8, 4),
        "splice_ctx0": 2 if quick else 1,  # every k-th (carrier+filler) in the plain context
        "splice_ctx1": 8 if quick else 1,
        "splice_ctx2": 8 if quick else 1,
        "full_mutants": 1 if quick else 8,
        "full_every": 2 if quick else 1,
    }

    # ---- A. documented forms: accepted, with the documented precedence (shard 0.. by index)
    for i, (kind, heading, form, prog, line) in enumerate(forms):
        if i % n != shard:
            continue
        r = case(prog, "doc-form")
        bump("doc_forms")
        if r is None:
            continue
        if r["kind"] == "ok":
            bump("doc_forms_accepted")
        elif r["kind"] == "syntax":
            e = r["exc"]
            violation(
                doc_form_key(kind, heading, form, e),
                f"documented form `{form}` ({kind}.rst: {heading}) rejected: {type(e).__name__}: {str(e)[:100]}",
                prog,
                "front",
                "doc-form",
            )
        toks = mutate.tokens_of(prog)
        for t in mutate.truncations(prog, toks):
            if case(t, "doc-form", "truncate_all") is not None:
                bump("truncation_cases")
        for _ in range(W["doc_mutants"]):
            k, t = mutated(prog, toks)
            case(t, "doc-form", k)
    from rt.hostile import HOSTILE

    for i, t in enumerate(HOSTILE):
        if i % n != shard:
            continue
        if case(t, "hostile") is not None:
            bump("hostile_cases")
    for i, (a, b, ref) in enumerate(PRECEDENCE):
        if i % n != shard:
            continue
        ra, rb = case(a + "\n", "precedence"), case(b + "\n", "precedence")
        bump("precedence_pairs")
        if ra is None or rb is None:
            continue
        if ra["kind"] == "ok" and rb["kind"] == "ok":
            da, db = ast.dump(ra["tree"]), ast.dump(rb["tree"])
            if da == db:
                bump("precedence_pairs_equal")
            else:
                key = "precedence-reading-of-examples" if a in PRECEDENCE_SOFT else None
                violation(key, f"`{a}` is not parsed as `{b}` ({ref})", a + "\n", "front", "precedence")
        else:
            bad = ra if ra["kind"] != "ok" else rb
            if bad["kind"] == "syntax":
                violation(None, f"documented form `{a if bad is ra else b}` rejected: {str(bad['exc'])[:100]} ({ref})", (a if bad is ra else b) + "\n", "front", "precedence")

    # ---- B. Scenic-only expressions in binding / pattern / decorator / annotation positions (exhaustive)
    for idx, (ci, fi, text) in enumerate(mutate.splice_cases()):
        if idx % n != shard:
            continue
        for ctx in range(3):
            if (ci + fi) % W["splice_ctx%d" % ctx]:
                t = None
            elif ctx == 1:
                t = "behavior Outer():\n" + "".join("    " + ln + "\n" for ln in text.rstrip("\n").split("\n")) if not text.startswith(("behavior", "monitor", "scenario", "class", "param", "model", "mutate", "record", "terminate", "simulator", "new", "ego", "workspace", "import", "from", "global", "nonlocal", "require monitor")) else None
            elif ctx == 2:
                t = "scenario Outer():\n    setup:\n" + "".join("        " + ln + "\n" for ln in text.rstrip("\n").split("\n")) if not text.startswith(("behavior", "monitor", "scenario", "class", "model", "import", "from", "global", "nonlocal", "simulator")) else None
            else:
                t = text
            if t is None:
                continue
            if case(t, "splice", "splice") is not None:
                bump("splice_cases")

    # ---- C. test snippets and repository programs: as they are + mutants + truncations
    for i, (origin, text) in enumerate(snippets):
        if i % n != shard:
            continue
        case(text, "test-snippet")
        toks = mutate.tokens_of(text)
        for _ in range(W["snip_mutants"]):
            k, t = mutated(text, toks)
            case(t, "test-snippet", k)
        if len(toks) <= W["snip_trunc_tokens"]:
            for t in mutate.truncations(text, toks):
                if case(t, "test-snippet", "truncate_all") is not None:
                    bump("truncation_cases")
    for i, (path, text) in enumerate(files):
        if i % n != shard:
            continue
        case(text, "scenic-file")
        toks = mutate.tokens_of(text)
        nm = W["file_mutants"][0 if len(text) < 4000 else 1 if len(text) < 12000 else 2]
        for _ in range(nm):
            k, t = mutated(text, toks)
            case(t, "scenic-file", k)

    # ---- D. the executing layer on side-effect-free seeds
    full_seeds = [t for _, t in snippets if side_effect_free(t)]
    defs = (
        "P = (1, 2)\nQ = (3, 4)\nR = RectangularRegion((0, 0), 0, 10, 10)\nF = VectorField('F', lambda p: 0)\n"
        "h = 0.5\ns = 2\nb = True\nc = False\nx = 2\nv = 1\no = 0\nego = new Object at (20, 20)\n"
        "obj = new Object at (30, 30)\nop = new OrientedPoint at (5, 5)\npt = new Point at (6, 6)\n"
    )
    for kind, heading, form, prog, line in forms:
        if kind != "statements" or prog.startswith(("param", "require", "record", "terminate", "mutate")):
            if side_effect_free(prog):
                full_seeds.append(defs + prog)
    nfull = 0
    full_seeds = [(True, t) for t in FIXED_FULL] + [(False, t) for t in full_seeds]
    for i, (always, text) in enumerate(full_seeds):
        if i % n != shard or (not always and (i // n) % W["full_every"]):
            continue
        variants = [("asis", text)]
        toks = mutate.tokens_of(text)
        for _ in range(W["full_mutants"]):
            k, t = mutated(text, toks)
            if side_effect_free(t):
                variants.append((k, t))
        for k, t in variants:
            if not nesting_ok(t):
                continue
            t0 = time.process_time()
            r = full_layer(t, mode2D=(rng.random() < 0.15))
            cpu["full"] = cpu.get("full", 0.0) + time.process_time() - t0
            nfull += 1
            res["evaluations"] += 1
            bump("full_layer_cases")
            bump("full_layer_" + r["kind"])
            if r["kind"] == "runtime":
                bump("full_layer_runtime_" + type(r["exc"]).__name__)
            if r["kind"] != "alarm":
                bump("full_layer_veneer_checks")
            else:
                skip("wallclock-alarm")
            for key, what in judge_full(t, r):
                violation(key, what, t, "full", "full/" + k)
            if any(CLEAN.get(a, b) != b for a, b in r["state"].items()):
                reset_veneer()
                bump("veneer_forced_resets")
    res["samples"] = [
        {"doc_form": forms[shard % len(forms)][3]},
        {"splice": next(iter(mutate.splice_cases()))[2]},
        {"mutant": mutated(snippets[shard % len(snippets)][1])[1][:300]},
    ]
    res["extra"]["worst_steps_per_token_x1000"] = [int(worst[0] * 1000)]
    res["extra"]["worst_steps_input"] = [worst[1]]
    for k, v in cpu.items():
        res["extra"]["cpu_ms_" + k] = int(v * 1000)
    return res


def doc_form_key(kind, heading, form, e):
    if form.startswith("record ") and " as " in form and " to " in form and 'both "as" and "to"' in str(e):
        return "record-as-and-to-rejected"
    return None


def finalize(m, tier, seed):
    w = m["extra"].get("worst_steps_per_token_x1000", [0])
    m["counters"]["worst_tokenizer_steps_per_token"] = max(w) // 1000 if w else 0
    m["extra"]["worst_steps_per_token_x1000"] = max(w) if w else 0
    m["extra"]["step_budget_per_token"] = STEP_BUDGET_PER_TOKEN


def replay(w):
    text = w["text"]
    out = []
    if w.get("layer") == "full":
        r = full_layer(text)
        for key, what in judge_full(text, r):
            out.append({"key": key, "what": what, "witness": w})
        return out
    if w.get("layer") == "import":
        r = import_layer(text)
        for key, what in judge_import(text, r):
            out.append({"key": key, "what": what, "witness": w})
        return out
    r = front_end(text)
    j = judge_front(text, r)
    if j:
        out.append({"key": j[0], "what": j[1], "witness": w})
    return out


MANIFEST_ENTRY = {
    "technique": "runtime monitoring: invariant at the API boundary (exception taxonomy, reported line, logical step budget, compiler global state) under mutation-generated hostile inputs",
    "text": "Every repository Scenic program, test snippet and form generated from the reference headings, plus seeded token/byte-level mutants, truncations at every token boundary and the exhaustive product of binding/pattern/decorator/annotation carriers with Scenic-only expressions, is pushed through the real parser, compiler, ast.unparse and compile(); a side-effect-free sample also through scenarioFromString, and a sample as an IMPORTED module (followed by a compilation with params). Each case must end in success or a Scenic syntax error naming a line of the input, within a logical tokenizer-step budget, leaving the veneer globals clean; documented forms must be accepted and parsed like their explicitly parenthesised reading.",
    "note": "Bounded exploration: held on the cases driven. RecursionError from nesting is counted as resource exhaustion (nesting capped at 12 in generated cases); the wall-clock alarm only marks cases inconclusive. Run-time errors of executed user code are not judged.",
}
