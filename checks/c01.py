"""C01 — scenes are drawn from exactly the program's conditional distribution (finite-discrete fragment).

RNG-branch enumeration through the REAL sampler (Scenario._generateInner) versus an independent exact
enumeration of the generator's own program AST (rt/gen_discrete.py), compared as exact rationals.
"""

from fractions import Fraction
import random

PROPERTY = "C01"
LEVEL = "exploration"
RULE = (
    "seeded random programs of the finite-discrete fragment (DiscreteRange with constant/random bounds, "
    "Uniform, Discrete with integer/dyadic/zero weights, shared references, resample, lifted + - * // % "
    "neg abs and user distributionFunctions, container distributions with random indexing / method calls / "
    "star-unpacking, tuple literals, params, hard and soft requirements, rebinding after require, objects on "
    "a grid with random collision flags and workspaces, 2D/3D); for each, ALL RNG outcomes of the real "
    "_generateInner(k) for k=1 (and k=2,3 when small) are enumerated with exact probabilities. Non-trivial = "
    "the exact distribution has >= 2 outcomes; distinct = distinct (source text, k). Second layer: ten programs over "
    "continuous distributions (Range, Normal, TruncatedNormal, random endpoints, lifted sum, shared reference, "
    "resample, hard / soft requirement, object position), 20 000 scenes each with fixed seeds: Kolmogorov-Smirnov "
    "distance to the analytic CDF, exact equality of shared references, correlation of independent leaves and "
    "acceptance rate, each at alpha = 1e-9."
)
ASSUMPTIONS = [
    "reference semantics in rt/gen_discrete.py (written from the documented prior: one draw per value per scene, all option expressions of a choice are drawn, resample = fresh draw given same parameter values)",
    "random.* module attributes are the only RNG entry points of the fragment (any other entry point => case skipped as out-of-fragment and counted)",
    "unit boxes on a spacing-3 grid: overlap iff same cell; containment in the 8x8 workspace is definite",
]
MIN_COUNTERS = {
    "quick": {"programs_compared": 100, "rng_leaves": 3000, "with_rejection_mass": 20, "with_soft_requirements": 10, "k2_compared": 20, "stat_ks_tests": 12, "stat_scenes": 150000},
    "thorough": {"programs_compared": 2000, "rng_leaves": 60000, "with_rejection_mass": 400, "with_soft_requirements": 200, "k2_compared": 400, "stat_ks_tests": 12, "stat_scenes": 150000},
}
MANIFEST_ENTRY = {
    "technique": "runtime monitoring: exact RNG-branch enumeration of the real sampler vs an executable reference model (differential, exact rationals)",
    "text": "Each generated finite-discrete program is compiled by the real front end; random.randint/choices/random are replaced by a scripted enumerator and Scenario._generateInner is re-executed once per RNG branch, giving the exact distribution of (scene, attempts | rejection); it must equal, as exact rationals, the distribution computed by an independent enumeration of the generator's AST (per-attempt law, soft-requirement mixture, attempt-count law r^(n-1)(1-r)). Bounded: programs with <= ~6 random leaves and <= 4000 RNG leaves.",
    "note": "Trusts rt/gen_discrete.py (reference) and rt/rngenum.py (branch probabilities of randint/choices/random<=p). Continuous distributions are outside this check.",
}


def plan(tier, seed):
    n_prog = 220 if tier == "quick" else 4000
    n_sh = 16 if tier == "quick" else 64
    shards = [
        {"shard": i, "nshards": n_sh, "programs": n_prog // n_sh, "timeout": 1500 if tier == "quick" else 3400}
        for i in range(n_sh)
    ]
    # second layer: continuous distributions, decided statistically (fixed seeds, alpha = 1e-9 per test)
    shards += [{"shard": 1000 + i, "stat": True, "case": i, "timeout": 3400} for i in range(len(STAT_CASES))]
    return shards


# ---- statistical layer (thorough only) -----------------------------------------------------------------------
import math


def _phi(x):
    return 0.5 * (1 + math.erf(x / math.sqrt(2)))


def _cdf_uniform(a, b):
    return lambda x: min(1.0, max(0.0, (x - a) / (b - a)))


def _cdf_normal(m, s):
    return lambda x: _phi((x - m) / s)


def _cdf_truncnormal(m, s, lo, hi):
    a, b = _phi((lo - m) / s), _phi((hi - m) / s)
    return lambda x: min(1.0, max(0.0, (_phi((x - m) / s) - a) / (b - a)))


def _cdf_range_random_end(x):
    # Y = Range(0, X), X = Range(1, 2)
    if x <= 0:
        return 0.0
    if x <= 1:
        return x * math.log(2)
    if x >= 2:
        return 1.0
    return (x - 1) + x * math.log(2 / x)


def _cdf_sum_uniform(x):
    # U(0,1) + U(0,1)
    if x <= 0:
        return 0.0
    if x <= 1:
        return x * x / 2
    if x >= 2:
        return 1.0
    return 1 - (2 - x) ** 2 / 2


# (name, program, {param: cdf}, equal pairs, independent pairs, acceptance probability per attempt or None)
STAT_CASES = [
    ("range", "param a = Range(2, 5)\nparam b = Range(-1, 1)\n", {"a": _cdf_uniform(2, 5), "b": _cdf_uniform(-1, 1)}, [], [("a", "b")], None),
    ("normal", "param a = Normal(1, 2)\nparam b = Normal(-3, 0.5)\n", {"a": _cdf_normal(1, 2), "b": _cdf_normal(-3, 0.5)}, [], [("a", "b")], None),
    ("truncnormal", "param a = TruncatedNormal(0, 1, -0.5, 2)\n", {"a": _cdf_truncnormal(0, 1, -0.5, 2)}, [], [], None),
    ("shared", "x = Range(0, 1)\nparam a = x\nparam b = x\nparam c = Range(0, 1)\n", {"a": _cdf_uniform(0, 1), "c": _cdf_uniform(0, 1)}, [("a", "b")], [("a", "c")], None),
    ("resample", "x = Range(0, 1)\nparam a = x\nparam b = resample(x)\n", {"a": _cdf_uniform(0, 1), "b": _cdf_uniform(0, 1)}, [], [("a", "b")], None),
    ("random-endpoint", "x = Range(1, 2)\nparam a = Range(0, x)\n", {"a": _cdf_range_random_end}, [], [], None),
    ("lifted-sum", "param a = Range(0, 1) + Range(0, 1)\n", {"a": _cdf_sum_uniform}, [], [], None),
    ("conditioned", "x = Range(0, 1)\nrequire x > 0.3\nparam a = x\nparam b = Range(0, 1)\n", {"a": _cdf_uniform(0.3, 1), "b": _cdf_uniform(0, 1)}, [], [("a", "b")], 0.7),
    ("soft", "x = Range(0, 1)\nrequire[0.5] x > 0.5\nparam a = x\n", {"a": (lambda v: (0.5 * min(1, max(0, v)) + 0.5 * min(1.0, max(0.0, (v - 0.5) / 0.5))) if False else None)}, [], [], None),
    ("object-position", "ego = new Object at (Range(0, 10), Range(0, 10))\nparam a = ego.position.x\nparam b = ego.position.y\n", {"a": _cdf_uniform(0, 10), "b": _cdf_uniform(0, 10)}, [], [("a", "b")], None),
]


def _soft_cdf(v):
    # mixture over the soft requirement being enforced (prob 1/2 per generate call):
    # enforced -> U(0.5, 1); not enforced -> U(0, 1)
    u = min(1.0, max(0.0, v))
    c = min(1.0, max(0.0, (v - 0.5) / 0.5))
    return 0.5 * u + 0.5 * c


STAT_CASES[8] = ("soft", STAT_CASES[8][1], {"a": _soft_cdf}, [], [], None)


def run_stat_shard(spec):
    import scenic
    from rt import su

    name, src, cdfs, equal, indep, pacc = STAT_CASES[spec["case"]]
    res = {"evaluations": 0, "nontrivial": [], "counters": {}, "samples": [], "violations": [], "skipped": {}}
    C = res["counters"]
    N = 20000
    scenario = scenic.scenarioFromString(src)
    su.seed_all(1000 + spec["seed"] * 97 + spec["case"])
    vals = {}
    its = 0
    for _ in range(N):
        scene, k = scenario.generate(maxIterations=1000)
        its += k
        for p, v in scene.params.items():
            vals.setdefault(p, []).append(float(v))
    res["evaluations"] = N
    C["stat_scenes"] = N
    C["stat_cases"] = 1
    crit = math.sqrt(-0.5 * math.log(1e-9 / 2)) / math.sqrt(N)  # Kolmogorov bound for alpha = 1e-9
    for p, cdf in cdfs.items():
        xs = sorted(vals[p])
        d = 0.0
        for i, x in enumerate(xs):
            f = cdf(x)
            d = max(d, abs(f - i / N), abs(f - (i + 1) / N))
        C["stat_ks_tests"] = C.get("stat_ks_tests", 0) + 1
        if d > crit:
            res["violations"].append({"key": None, "what": f"[statistical:{name}] KS distance of param {p} from the analytic CDF is {d:.4f} > {crit:.4f} (N={N}, alpha=1e-9)", "witness": {"stat_case": spec["case"]}})
    for a, b in equal:
        C["stat_equalities"] = C.get("stat_equalities", 0) + 1
        if vals[a] != vals[b]:
            res["violations"].append({"key": None, "what": f"[statistical:{name}] params {a} and {b} refer to the same random value but differ in some scene", "witness": {"stat_case": spec["case"]}})
    for a, b in indep:
        xa, xb = vals[a], vals[b]
        ma, mb = sum(xa) / N, sum(xb) / N
        cov = sum((x - ma) * (y - mb) for x, y in zip(xa, xb)) / N
        sa = math.sqrt(sum((x - ma) ** 2 for x in xa) / N)
        sb = math.sqrt(sum((y - mb) ** 2 for y in xb) / N)
        r = cov / (sa * sb)
        C["stat_independence_tests"] = C.get("stat_independence_tests", 0) + 1
        if abs(r) > 6.2 / math.sqrt(N):
            res["violations"].append({"key": None, "what": f"[statistical:{name}] params {a} and {b} should be independent but have correlation {r:.4f} (bound {6.2 / math.sqrt(N):.4f})", "witness": {"stat_case": spec["case"]}})
    if pacc is not None:
        # total attempts for N scenes ~ N / pacc ; z-test on the acceptance rate
        n_att = its
        phat = N / n_att
        z = (phat - pacc) / math.sqrt(pacc * (1 - pacc) / n_att)
        C["stat_rate_tests"] = C.get("stat_rate_tests", 0) + 1
        if abs(z) > 6.2:
            res["violations"].append({"key": None, "what": f"[statistical:{name}] acceptance rate {phat:.4f} differs from {pacc} (z={z:.1f})", "witness": {"stat_case": spec["case"]}})
    res["nontrivial"].append(su.h(["stat", name]))
    return res


def _canon(v):
    import numbers

    if isinstance(v, bool):
        return v
    if isinstance(v, numbers.Integral):
        return int(v)
    if isinstance(v, numbers.Real):
        f = float(v)
        return int(f) if f == int(f) else f
    if isinstance(v, (tuple, list)):
        return tuple(_canon(x) for x in v)
    return repr(v)


def _scene_outcome(scene):
    out = []
    for name, val in scene.params.items():
        if name.startswith("p") and name[1:].isdigit():
            out.append(("param", name, _canon(val)))
    for i, o in enumerate(scene.objects):
        out.append(("obj", i, (_canon(round(o.position.x, 9)), _canon(round(o.position.y, 9))), bool(o.allowCollisions)))
    return tuple(out)


def real_distribution(scenario, k, max_leaves):
    from rt import rngenum
    from scenic.core.distributions import RejectionException

    def run():
        try:
            scene, its = scenario._generateInner(k, 0, None)
        except RejectionException:
            return ("reject",)
        return ("scene", _scene_outcome(scene), its)

    en = rngenum.Enumerator(max_leaves=max_leaves)
    dist, leaves = rngenum.distribution(en, run)
    return dist, leaves, en.calls


def _fmt_dist(d, limit=12):
    items = sorted(d.items(), key=lambda kv: repr(kv[0]))
    return [f"{k} : {v}" for k, v in items[:limit]]


def check_program(prog, src, scenario, res, bump, tier):
    from rt import rngenum, su

    viol = []
    ks = [1]
    nontrivial = False
    for k in (1, 2, 3):
        if k == 2 and res["_leaves1"] > 70:
            break
        if k == 3 and res["_leaves1"] > 14:
            break
        try:
            real, leaves, calls = real_distribution(scenario, k, 4000)
        except rngenum.TooManyLeaves:
            res["skipped"]["too-many-leaves"] = res["skipped"].get("too-many-leaves", 0) + 1
            return viol, nontrivial
        except rngenum.OutOfFragment as e:
            res["skipped"]["out-of-fragment"] = res["skipped"].get("out-of-fragment", 0) + 1
            return viol, nontrivial
        if k == 1:
            res["_leaves1"] = leaves
            for n, c in calls.items():
                bump("rngcalls_" + n, c)
        bump("rng_leaves", leaves)
        res["evaluations"] += leaves
        tot = sum(real.values())
        ref = prog.exact_distribution(k)
        ref = {key: p for key, p in ref.items() if p != 0}
        real = {key: p for key, p in real.items() if p != 0}
        # the reference orders outcome entries params-then-objects in statement order; sort both
        norm = lambda d: {((key[0], tuple(sorted(key[1], key=repr)), key[2]) if key[0] == "scene" else key): p for key, p in d.items()}
        real_n, ref_n = norm(real), norm(ref)
        bump(f"k{k}_compared")
        if k == 1:
            bump("programs_compared")
            if ("reject",) in ref_n and len(ref_n) > 1:
                bump("with_rejection_mass")
            if any(s[0] == "require" and s[2] is not None for s in prog.stmts):
                bump("with_soft_requirements")
            if len(ref_n) >= 2:
                nontrivial = True
        if tot != 1:
            viol.append((None, f"k={k}: probabilities of the enumerated RNG leaves sum to {tot}, not 1"))
        if real_n != ref_n:
            diff_keys = [key for key in set(real_n) | set(ref_n) if real_n.get(key) != ref_n.get(key)]
            ex = sorted(diff_keys, key=repr)[:3]
            detail = "; ".join(f"{key}: real={real_n.get(key, 0)} ref={ref_n.get(key, 0)}" for key in ex)
            viol.append((None, f"k={k}: exact distribution differs from the reference on {len(diff_keys)} outcome(s): {detail}"))
            break
    return viol, nontrivial


def _run_program(prog, res, bump, tier):
    from rt import su
    import scenic
    from scenic.core.errors import InvalidScenarioError

    src = prog.source()
    try:
        scenario = scenic.scenarioFromString(src, mode2D=prog.mode2D)
    except InvalidScenarioError as e:
        res["skipped"]["compile-InvalidScenarioError"] = res["skipped"].get("compile-InvalidScenarioError", 0) + 1
        return [], False, src
    except Exception as e:
        return [(None, f"compilation of a fragment program failed: {type(e).__name__}: {str(e)[:200]}")], False, src
    res["_leaves1"] = 0
    viol, nontrivial = check_program(prog, src, scenario, res, bump, tier)
    return viol, nontrivial, src


def run_shard(spec):
    from rt import gen_discrete, su

    if spec.get("stat"):
        return run_stat_shard(spec)

    res = {"evaluations": 0, "nontrivial": [], "counters": {}, "samples": [], "violations": [], "skipped": {}}
    C = res["counters"]

    def bump(k, n=1):
        C[k] = C.get(k, 0) + n

    for i in range(spec["programs"]):
        pseed = (spec["seed"] * 1000003 + spec["shard"]) * 100003 + i
        rng = random.Random(pseed)
        prog = gen_discrete.generate(rng)
        viol, nontrivial, src = _run_program(prog, res, bump, spec["tier"])
        for f in prog.features:
            bump("feature_" + f)
        bump("mode2D" if prog.mode2D else "mode3D")
        if nontrivial:
            res["nontrivial"].append(su.h(src))
        if len(res["samples"]) < 2 and nontrivial:
            res["samples"].append({"program": src, "mode2D": prog.mode2D, "reference_k1": _fmt_dist(prog.exact_distribution(1))})
        for key, what in viol:
            res["violations"].append({"key": key, "what": what + " || program: " + src.replace("\n", " ; ")[-700:], "witness": {"pseed": pseed, "source": src, "mode2D": prog.mode2D}})
    res.pop("_leaves1", None)
    return res


def replay(w):
    from rt import gen_discrete

    if "stat_case" in w:
        return run_stat_shard({"case": w["stat_case"], "seed": 0, "stat": True})["violations"]

    res = {"evaluations": 0, "counters": {}, "skipped": {}}
    rng = random.Random(w["pseed"])
    prog = gen_discrete.generate(rng)
    viol, _, src = _run_program(prog, res, lambda *a: None, "quick")
    return [{"key": k, "what": what, "witness": w} for k, what in viol]
